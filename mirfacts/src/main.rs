// mirfacts: a rustc_private driver that dumps, for every workspace crate it is
// wrapped around, the facts the rule engine needs: ADTs, constants, trait impls
// and the MIR of every function body (resolved callees, structured places).
// It has no rule knowledge.  Invoked as RUSTC_WORKSPACE_WRAPPER:
//   argv = [mirfacts, <path to rustc>, rustc args...]
// Output: $MIRFACTS_OUT/<crate_name>.json (one write per process).
#![feature(rustc_private)]
#![allow(rustc::internal)]

extern crate rustc_abi;
extern crate rustc_driver;
extern crate rustc_hir;
extern crate rustc_interface;
extern crate rustc_middle;
extern crate rustc_session;
extern crate rustc_span;

use rustc_driver::Compilation;
use rustc_hir::def::DefKind;
use rustc_hir::def_id::{DefId, LocalDefId};
use rustc_middle::mir::{
    self, AggregateKind, BasicBlockData, Body, Const, ConstValue, Operand, Place, PlaceTy,
    ProjectionElem, Rvalue, StatementKind, TerminatorKind,
};
use rustc_middle::ty::print::with_no_trimmed_paths;
use rustc_middle::ty::{self, GenericArgsRef, Instance, Ty, TyCtxt, TypingEnv};
use rustc_span::Span;
use std::fmt::Write as _;

// ---------------------------------------------------------------- tiny JSON
enum J {
    Null,
    Bool(bool),
    Int(i128),
    Str(String),
    Arr(Vec<J>),
    Obj(Vec<(&'static str, J)>),
}
fn s<T: Into<String>>(x: T) -> J {
    J::Str(x.into())
}
impl J {
    fn write(&self, out: &mut String) {
        match self {
            J::Null => out.push_str("null"),
            J::Bool(b) => out.push_str(if *b { "true" } else { "false" }),
            J::Int(i) => {
                let _ = write!(out, "{}", i);
            }
            J::Str(st) => {
                out.push('"');
                for c in st.chars() {
                    match c {
                        '"' => out.push_str("\\\""),
                        '\\' => out.push_str("\\\\"),
                        '\n' => out.push_str("\\n"),
                        '\r' => out.push_str("\\r"),
                        '\t' => out.push_str("\\t"),
                        c if (c as u32) < 0x20 => {
                            let _ = write!(out, "\\u{:04x}", c as u32);
                        }
                        c => out.push(c),
                    }
                }
                out.push('"');
            }
            J::Arr(v) => {
                out.push('[');
                for (i, x) in v.iter().enumerate() {
                    if i > 0 {
                        out.push(',');
                    }
                    x.write(out);
                }
                out.push(']');
            }
            J::Obj(v) => {
                out.push('{');
                for (i, (k, x)) in v.iter().enumerate() {
                    if i > 0 {
                        out.push(',');
                    }
                    let _ = write!(out, "\"{}\":", k);
                    x.write(out);
                }
                out.push('}');
            }
        }
    }
}

// ---------------------------------------------------------------- helpers
struct Cx<'tcx> {
    tcx: TyCtxt<'tcx>,
}

impl<'tcx> Cx<'tcx> {
    /// crate-qualified, re-export independent key of a definition
    fn key(&self, did: DefId) -> String {
        let krate = self.tcx.crate_name(did.krate);
        format!("{}{}", krate, self.tcx.def_path(did).to_string_no_crate_verbose())
    }
    fn pretty(&self, did: DefId) -> String {
        let p = with_no_trimmed_paths!(self.tcx.def_path_str(did));
        if did.is_local() {
            format!("{}::{}", self.tcx.crate_name(did.krate), p)
        } else {
            p
        }
    }
    fn ty(&self, t: Ty<'tcx>) -> String {
        with_no_trimmed_paths!(format!("{}", t))
    }
    fn line(&self, sp: Span) -> (String, i128, bool) {
        let exp = sp.from_expansion();
        let sp2 = sp.source_callsite();
        let sm = self.tcx.sess.source_map();
        if sp2.is_dummy() {
            return (String::new(), 0, exp);
        }
        let loc = sm.lookup_char_pos(sp2.lo());
        let fname = format!("{}", loc.file.name.prefer_local_unconditionally());
        (fname, loc.line as i128, exp)
    }
    fn args(&self, args: GenericArgsRef<'tcx>) -> J {
        J::Arr(
            args.iter()
                .map(|a| s(with_no_trimmed_paths!(format!("{}", a))))
                .collect(),
        )
    }

    fn field_name(&self, pty: PlaceTy<'tcx>, f: rustc_abi::FieldIdx) -> String {
        match pty.ty.kind() {
            ty::Adt(adt, _) => {
                let vidx = pty.variant_index.unwrap_or(rustc_abi::FIRST_VARIANT);
                if adt.is_enum() && pty.variant_index.is_none() {
                    return format!("{}", f.as_usize());
                }
                let v = adt.variant(vidx);
                if f.as_usize() < v.fields.len() {
                    v.fields[f].name.to_string()
                } else {
                    format!("{}", f.as_usize())
                }
            }
            _ => format!("{}", f.as_usize()),
        }
    }

    fn place(&self, body: &Body<'tcx>, p: &Place<'tcx>) -> J {
        let mut pty = PlaceTy::from_ty(body.local_decls[p.local].ty);
        let mut projs = Vec::new();
        for elem in p.projection.iter() {
            let j = match elem {
                ProjectionElem::Deref => s("*"),
                ProjectionElem::Field(f, _) => J::Obj(vec![
                    ("f", s(self.field_name(pty, f))),
                    ("i", J::Int(f.as_usize() as i128)),
                ]),
                ProjectionElem::Downcast(name, vidx) => {
                    let n = match name {
                        Some(sym) => sym.to_string(),
                        None => match pty.ty.kind() {
                            ty::Adt(adt, _) => adt.variant(vidx).name.to_string(),
                            _ => format!("{}", vidx.as_usize()),
                        },
                    };
                    J::Obj(vec![("as", s(n)), ("i", J::Int(vidx.as_usize() as i128))])
                }
                ProjectionElem::Index(l) => J::Obj(vec![("idx", J::Int(l.as_usize() as i128))]),
                ProjectionElem::ConstantIndex { offset, from_end, .. } => J::Obj(vec![
                    ("cidx", J::Int(offset as i128)),
                    ("from_end", J::Bool(from_end)),
                ]),
                ProjectionElem::Subslice { from, to, from_end } => J::Obj(vec![
                    ("sub_from", J::Int(from as i128)),
                    ("sub_to", J::Int(to as i128)),
                    ("from_end", J::Bool(from_end)),
                ]),
                ProjectionElem::OpaqueCast(_) => s("opaque"),
                ProjectionElem::UnwrapUnsafeBinder(_) => s("unwrap_binder"),
            };
            projs.push(j);
            pty = pty.projection_ty(self.tcx, elem);
        }
        J::Obj(vec![
            ("l", J::Int(p.local.as_usize() as i128)),
            ("p", J::Arr(projs)),
            ("ty", s(self.ty(pty.ty))),
        ])
    }

    fn const_val_str(&self, c: &Const<'tcx>) -> String {
        with_no_trimmed_paths!(format!("{}", c))
    }

    fn konst(&self, body_did: DefId, c: &Const<'tcx>) -> J {
        let ty = c.ty();
        let mut fields: Vec<(&'static str, J)> = vec![("ty", s(self.ty(ty)))];
        // function item constants: name the function
        if let ty::FnDef(did, args) = ty.kind() {
            fields.push(("fn", self.callee(body_did, *did, args)));
        }
        match c {
            Const::Unevaluated(uv, _) => {
                fields.push(("def", s(self.key(uv.def))));
                fields.push(("def_pretty", s(self.pretty(uv.def))));
                if let Some(p) = uv.promoted {
                    fields.push(("promoted", J::Int(p.as_usize() as i128)));
                    // a promoted `&NAMED_CONST`: name the constant(s) the promoted body refers to
                    if uv.def.is_local() {
                        let proms = self.tcx.promoted_mir(uv.def);
                        if p.as_usize() < proms.len() {
                            let pb = &proms[p];
                            let mut inner = Vec::new();
                            let mut agg: Option<J> = None;
                            let mut pints: Vec<J> = Vec::new();
                            {
                                let te = TypingEnv::post_analysis(self.tcx, body_did);
                                for bb in pb.basic_blocks.iter() {
                                    if let Some(t) = &bb.terminator {
                                        if let TerminatorKind::Call { args, .. } = &t.kind {
                                            for a in args.iter() {
                                                if let Operand::Constant(c) = &a.node {
                                                    if let Some(sc) = c.const_.try_eval_scalar_int(self.tcx, te) {
                                                        pints.push(s(format!("{}", sc.to_bits(sc.size()))));
                                                    }
                                                }
                                            }
                                        }
                                    }
                                }
                            }
                            for bb in pb.basic_blocks.iter() {
                                for st in &bb.statements {
                                    if let StatementKind::Assign(b) = &st.kind {
                                        let (_, rv) = &**b;
                                        if let Rvalue::Aggregate(k, os) = rv {
                                            if let AggregateKind::Adt(adid, vidx, _, _, _) = &**k {
                                                let adt = self.tcx.adt_def(*adid);
                                                let v = adt.variant(*vidx);
                                                let mut vals = Vec::new();
                                                let mut allc = true;
                                                for o in os.iter() {
                                                    match o {
                                                        Operand::Constant(c) => {
                                                            let mut f2: Vec<(&'static str, J)> = vec![("ty", s(self.ty(c.const_.ty())))];
                                                            let te = TypingEnv::post_analysis(self.tcx, body_did);
                                                            if let Some(sc) = c.const_.try_eval_scalar_int(self.tcx, te) {
                                                                f2.push(("int", s(format!("{}", sc.to_bits(sc.size())))));
                                                            }
                                                            f2.push(("val", s(self.const_val_str(&c.const_))));
                                                            vals.push(J::Obj(f2));
                                                        }
                                                        _ => {
                                                            allc = false;
                                                        }
                                                    }
                                                }
                                                if allc {
                                                    agg = Some(J::Obj(vec![
                                                        ("adt", s(self.pretty(*adid))),
                                                        ("variant", s(v.name.to_string())),
                                                        ("fields", J::Arr(v.fields.iter().map(|f| s(f.name.to_string())).collect())),
                                                        ("vals", J::Arr(vals)),
                                                    ]));
                                                }
                                            }
                                        }
                                        let mut ops: Vec<&Operand<'tcx>> = Vec::new();
                                        match rv {
                                            Rvalue::Use(o, _) => ops.push(o),
                                            Rvalue::Aggregate(_, os) => {
                                                for o in os.iter() {
                                                    ops.push(o)
                                                }
                                            }
                                            _ => {}
                                        }
                                        for o in ops {
                                            if let Operand::Constant(c) = o {
                                                if let Const::Unevaluated(iuv, _) = &c.const_ {
                                                    if iuv.promoted.is_none() {
                                                        inner.push(s(self.pretty(iuv.def)));
                                                    }
                                                }
                                            }
                                        }
                                    }
                                }
                            }
                            fields.push(("promoted_of", J::Arr(inner)));
                            fields.push(("promoted_ints", J::Arr(pints)));
                            if let Some(a) = agg {
                                fields.push(("promoted_agg", a));
                            }
                        }
                    }
                }
            }
            _ => {}
        }
        // try to evaluate to a scalar
        let typing_env = TypingEnv::post_analysis(self.tcx, body_did);
        if let Some(sc) = c.try_eval_scalar_int(self.tcx, typing_env) {
            let size = sc.size();
            let bits = sc.to_bits(size);
            fields.push(("int", s(format!("{}", bits))));
        }
        let mut valstr = self.const_val_str(c);
        if let Const::Unevaluated(uv, cty) = c {
            if uv.promoted.is_some() {
                if let Ok(v) = c.eval(self.tcx, typing_env, rustc_span::DUMMY_SP) {
                    valstr = self.const_val_str(&Const::Val(v, *cty));
                }
            }
        }
        fields.push(("val", s(valstr)));
        // static references: `&STATIC` shows up as a pointer to the static's allocation
        if let Const::Val(ConstValue::Scalar(mir::interpret::Scalar::Ptr(ptr, _)), _) = c {
            let alloc_id = ptr.provenance.alloc_id();
            if let Some(ga) = self.tcx.try_get_global_alloc(alloc_id) {
                match ga {
                    mir::interpret::GlobalAlloc::Static(did) => {
                        fields.push(("static", s(self.key(did))));
                    }
                    _ => {}
                }
            }
        }
        J::Obj(fields)
    }

    fn operand(&self, body: &Body<'tcx>, body_did: DefId, o: &Operand<'tcx>) -> J {
        match o {
            Operand::Copy(p) => J::Obj(vec![("copy", self.place(body, p))]),
            Operand::Move(p) => J::Obj(vec![("move", self.place(body, p))]),
            Operand::Constant(c) => J::Obj(vec![("const", self.konst(body_did, &c.const_))]),
            _ => J::Obj(vec![("const", J::Obj(vec![("ty", s("runtime_checks")), ("val", s("runtime_checks"))]))]),
        }
    }

    fn callee(&self, body_did: DefId, did: DefId, args: GenericArgsRef<'tcx>) -> J {
        let tcx = self.tcx;
        let mut f: Vec<(&'static str, J)> = vec![
            ("key", s(self.key(did))),
            ("pretty", s(self.pretty(did))),
            ("name", s(tcx.item_name(did).to_string())),
            ("args", self.args(args)),
            ("local", J::Bool(did.is_local())),
            ("krate", s(tcx.crate_name(did.krate).to_string())),
        ];
        // trait method?
        if let Some(assoc) = tcx.opt_associated_item(did) {
            match assoc.container {
                ty::AssocContainer::Trait => {
                    let tr = tcx.parent(did);
                    f.push(("trait", s(self.pretty(tr))));
                    if let Some(a0) = args.get(0) {
                        f.push(("self_ty", s(with_no_trimmed_paths!(format!("{}", a0)))));
                    }
                }
                ty::AssocContainer::InherentImpl => {
                    let imp = tcx.parent(did);
                    let st = tcx.type_of(imp).instantiate_identity().skip_norm_wip();
                    f.push(("impl_self", s(self.ty(st))));
                }
                ty::AssocContainer::TraitImpl(_) => {
                    let imp = tcx.parent(did);
                    let st = tcx.type_of(imp).instantiate_identity().skip_norm_wip();
                    f.push(("impl_self", s(self.ty(st))));
                    if let Some(tr) = tcx.impl_opt_trait_ref(imp) {
                        f.push(("trait", s(self.pretty(tr.skip_binder().def_id))));
                    }
                }
            }
        }
        // resolve to the concrete instance where possible
        let typing_env = TypingEnv::post_analysis(tcx, body_did);
        if let Ok(Some(inst)) = Instance::try_resolve(tcx, typing_env, did, args) {
            let rd = inst.def_id();
            f.push(("res_key", s(self.key(rd))));
            f.push(("res_pretty", s(self.pretty(rd))));
            f.push(("res_krate", s(tcx.crate_name(rd.krate).to_string())));
            let kind = match inst.def {
                ty::InstanceKind::Item(_) => "item",
                ty::InstanceKind::Intrinsic(_) => "intrinsic",
                ty::InstanceKind::Virtual(..) => "virtual",
                ty::InstanceKind::ClosureOnceShim { .. } => "closure_once_shim",
                ty::InstanceKind::FnPtrShim(..) => "fn_ptr_shim",
                ty::InstanceKind::DropGlue(..) => "drop_glue",
                ty::InstanceKind::CloneShim(..) => "clone_shim",
                _ => "other",
            };
            f.push(("res_kind", s(kind)));
        }
        J::Obj(f)
    }

    fn rvalue(&self, body: &Body<'tcx>, body_did: DefId, rv: &Rvalue<'tcx>) -> J {
        match rv {
            Rvalue::Use(o, _) => J::Obj(vec![("use", self.operand(body, body_did, o))]),
            Rvalue::Repeat(o, _) => J::Obj(vec![("repeat", self.operand(body, body_did, o))]),
            Rvalue::Ref(_, bk, p) => {
                let m = matches!(bk, mir::BorrowKind::Mut { .. });
                J::Obj(vec![("ref", self.place(body, p)), ("mut", J::Bool(m))])
            }
            Rvalue::ThreadLocalRef(d) => J::Obj(vec![("tls", s(self.key(*d)))]),
            Rvalue::RawPtr(_, p) => J::Obj(vec![("rawptr", self.place(body, p))]),
            Rvalue::Cast(kind, o, t) => J::Obj(vec![
                ("cast", self.operand(body, body_did, o)),
                ("kind", s(format!("{:?}", kind))),
                ("to", s(self.ty(*t))),
            ]),
            Rvalue::BinaryOp(op, ab) => J::Obj(vec![
                ("binop", s(format!("{:?}", op))),
                ("a", self.operand(body, body_did, &ab.0)),
                ("b", self.operand(body, body_did, &ab.1)),
            ]),
            Rvalue::UnaryOp(op, o) => J::Obj(vec![
                ("unop", s(format!("{:?}", op))),
                ("a", self.operand(body, body_did, o)),
            ]),
            Rvalue::Discriminant(p) => {
                let pty = p.ty(body, self.tcx).ty;
                let mut vars = Vec::new();
                if let ty::Adt(adt, _) = pty.kind() {
                    if adt.is_enum() {
                        for (vidx, d) in adt.discriminants(self.tcx) {
                            vars.push(J::Obj(vec![
                                ("v", s(format!("{}", d.val))),
                                ("name", s(adt.variant(vidx).name.to_string())),
                            ]));
                        }
                    }
                }
                J::Obj(vec![("discr", self.place(body, p)), ("variants", J::Arr(vars))])
            }
            Rvalue::Aggregate(kind, ops) => {
                let opsj = J::Arr(ops.iter().map(|o| self.operand(body, body_did, o)).collect());
                match &**kind {
                    AggregateKind::Array(_) => J::Obj(vec![("agg", s("array")), ("ops", opsj)]),
                    AggregateKind::Tuple => J::Obj(vec![("agg", s("tuple")), ("ops", opsj)]),
                    AggregateKind::Adt(did, vidx, args, _, active) => {
                        let adt = self.tcx.adt_def(*did);
                        let v = adt.variant(*vidx);
                        let fnames: Vec<J> = match active {
                            Some(fi) => vec![s(v.fields[*fi].name.to_string())],
                            None => v.fields.iter().map(|f| s(f.name.to_string())).collect(),
                        };
                        J::Obj(vec![
                            ("agg", s("adt")),
                            ("adt", s(self.pretty(*did))),
                            ("adt_key", s(self.key(*did))),
                            ("variant", s(v.name.to_string())),
                            ("is_enum", J::Bool(adt.is_enum())),
                            ("fields", J::Arr(fnames)),
                            ("targs", self.args(args)),
                            ("ops", opsj),
                        ])
                    }
                    AggregateKind::Closure(did, _) => J::Obj(vec![
                        ("agg", s("closure")),
                        ("closure", s(self.key(*did))),
                        ("ops", opsj),
                    ]),
                    AggregateKind::RawPtr(..) => J::Obj(vec![("agg", s("rawptr")), ("ops", opsj)]),
                    _ => J::Obj(vec![("agg", s("other")), ("ops", opsj)]),
                }
            }
            Rvalue::CopyForDeref(p) => {
                J::Obj(vec![("use", J::Obj(vec![("copy", self.place(body, p))]))])
            }
            Rvalue::WrapUnsafeBinder(o, _) => J::Obj(vec![("use", self.operand(body, body_did, o))]),
        }
    }

    fn block(&self, body: &Body<'tcx>, body_did: DefId, bb: &BasicBlockData<'tcx>) -> J {
        let mut stmts = Vec::new();
        for st in &bb.statements {
            let (_, line, exp) = self.line(st.source_info.span);
            match &st.kind {
                StatementKind::Assign(b) => {
                    let (p, rv) = &**b;
                    stmts.push(J::Obj(vec![
                        ("k", s("assign")),
                        ("lhs", self.place(body, p)),
                        ("rv", self.rvalue(body, body_did, rv)),
                        ("line", J::Int(line)),
                        ("exp", J::Bool(exp)),
                    ]));
                }
                StatementKind::SetDiscriminant { place, variant_index } => {
                    let pty = place.ty(body, self.tcx).ty;
                    let name = match pty.kind() {
                        ty::Adt(adt, _) => adt.variant(*variant_index).name.to_string(),
                        _ => format!("{}", variant_index.as_usize()),
                    };
                    stmts.push(J::Obj(vec![
                        ("k", s("setdiscr")),
                        ("lhs", self.place(body, place)),
                        ("variant", s(name)),
                        ("line", J::Int(line)),
                    ]));
                }
                StatementKind::Intrinsic(_) => {
                    stmts.push(J::Obj(vec![("k", s("intrinsic")), ("line", J::Int(line))]));
                }
                _ => {}
            }
        }
        let term = bb.terminator();
        let (_, tline, texp) = self.line(term.source_info.span);
        let bbn = |b: &mir::BasicBlock| J::Int(b.as_usize() as i128);
        let unwind = |u: &mir::UnwindAction| match u {
            mir::UnwindAction::Cleanup(b) => J::Int(b.as_usize() as i128),
            _ => J::Null,
        };
        let tj = match &term.kind {
            TerminatorKind::Goto { target } => J::Obj(vec![("k", s("goto")), ("target", bbn(target))]),
            TerminatorKind::SwitchInt { discr, targets } => {
                let mut ts = Vec::new();
                for (v, b) in targets.iter() {
                    ts.push(J::Arr(vec![s(format!("{}", v)), bbn(&b)]));
                }
                J::Obj(vec![
                    ("k", s("switch")),
                    ("discr", self.operand(body, body_did, discr)),
                    ("targets", J::Arr(ts)),
                    ("otherwise", bbn(&targets.otherwise())),
                ])
            }
            TerminatorKind::UnwindResume => J::Obj(vec![("k", s("resume"))]),
            TerminatorKind::UnwindTerminate(_) => J::Obj(vec![("k", s("terminate"))]),
            TerminatorKind::Return => J::Obj(vec![("k", s("return"))]),
            TerminatorKind::Unreachable => J::Obj(vec![("k", s("unreachable"))]),
            TerminatorKind::Drop { place, target, unwind: u, .. } => J::Obj(vec![
                ("k", s("drop")),
                ("place", self.place(body, place)),
                ("target", bbn(target)),
                ("unwind", unwind(u)),
            ]),
            TerminatorKind::Call { func, args, destination, target, unwind: u, .. } => {
                let mut f: Vec<(&'static str, J)> = vec![("k", s("call"))];
                let fty = func.ty(body, self.tcx);
                match fty.kind() {
                    ty::FnDef(did, gargs) => {
                        f.push(("callee", self.callee(body_did, *did, gargs)));
                    }
                    _ => {
                        f.push(("callee", J::Null));
                        f.push(("func", self.operand(body, body_did, func)));
                    }
                }
                f.push((
                    "args",
                    J::Arr(args.iter().map(|a| self.operand(body, body_did, &a.node)).collect()),
                ));
                f.push(("dest", self.place(body, destination)));
                f.push(("target", match target {
                    Some(t) => bbn(t),
                    None => J::Null,
                }));
                f.push(("unwind", unwind(u)));
                J::Obj(f)
            }
            TerminatorKind::TailCall { .. } => J::Obj(vec![("k", s("tailcall"))]),
            TerminatorKind::Assert { cond, expected, target, unwind: u, msg } => J::Obj(vec![
                ("k", s("assert")),
                ("cond", self.operand(body, body_did, cond)),
                ("expected", J::Bool(*expected)),
                ("target", bbn(target)),
                ("unwind", unwind(u)),
                ("msg", s(format!("{:?}", msg).chars().take(60).collect::<String>())),
            ]),
            TerminatorKind::FalseEdge { real_target, .. } => {
                J::Obj(vec![("k", s("goto")), ("target", bbn(real_target))])
            }
            TerminatorKind::FalseUnwind { real_target, .. } => {
                J::Obj(vec![("k", s("goto")), ("target", bbn(real_target))])
            }
            _ => J::Obj(vec![("k", s("other"))]),
        };
        let mut tfields = match tj {
            J::Obj(v) => v,
            _ => vec![],
        };
        tfields.push(("line", J::Int(tline)));
        tfields.push(("exp", J::Bool(texp)));
        J::Obj(vec![
            ("stmts", J::Arr(stmts)),
            ("term", J::Obj(tfields)),
            ("cleanup", J::Bool(bb.is_cleanup)),
        ])
    }

    fn body(&self, ldid: LocalDefId) -> Option<J> {
        let tcx = self.tcx;
        let did = ldid.to_def_id();
        let kind = tcx.def_kind(did);
        let is_fn = matches!(kind, DefKind::Fn | DefKind::AssocFn | DefKind::Closure);
        if !is_fn {
            return None;
        }
        if !tcx.is_mir_available(did) {
            return None;
        }
        // derive-generated code (serde, schemars, Clone, Debug, ...) is not product logic: the rule engine
        // models those calls by name, their bodies are not dumped
        if kind == DefKind::AssocFn {
            let imp = tcx.parent(did);
            if matches!(tcx.def_kind(imp), DefKind::Impl { .. }) && tcx.is_automatically_derived(imp) {
                return None;
            }
        }
        {
            let dp = tcx.def_path(did).to_string_no_crate_verbose();
            if dp.contains("::_::") || dp.contains("::_#") {
                return None;
            }
        }
        let body: &Body<'tcx> = tcx.optimized_mir(did);
        let (file, line_lo, exp) = self.line(body.span);
        let sm = tcx.sess.source_map();
        let line_hi = if body.span.is_dummy() {
            0
        } else {
            sm.lookup_char_pos(body.span.source_callsite().hi()).line as i128
        };
        // locals
        let mut names: Vec<Option<String>> = vec![None; body.local_decls.len()];
        for vdi in &body.var_debug_info {
            if let mir::VarDebugInfoContents::Place(p) = &vdi.value {
                if p.projection.is_empty() {
                    names[p.local.as_usize()] = Some(vdi.name.to_string());
                }
            }
        }
        let mut locals = Vec::new();
        for (i, ld) in body.local_decls.iter().enumerate() {
            locals.push(J::Obj(vec![
                ("ty", s(self.ty(ld.ty))),
                ("name", match &names[i] {
                    Some(n) => s(n.clone()),
                    None => J::Null,
                }),
            ]));
        }
        // closure upvar debug names
        let mut upvars = Vec::new();
        for vdi in &body.var_debug_info {
            if let mir::VarDebugInfoContents::Place(p) = &vdi.value {
                if !p.projection.is_empty() {
                    upvars.push(J::Obj(vec![
                        ("name", s(vdi.name.to_string())),
                        ("place", self.place(body, p)),
                    ]));
                }
            }
        }
        let blocks: Vec<J> =
            body.basic_blocks.iter().map(|bb| self.block(body, did, bb)).collect();
        // container info
        let mut f: Vec<(&'static str, J)> = vec![
            ("key", s(self.key(did))),
            ("pretty", s(self.pretty(did))),
            ("name", s(if kind == DefKind::Closure {
                "{closure}".to_string()
            } else {
                tcx.item_name(did).to_string()
            })),
            ("kind", s(format!("{:?}", kind))),
            ("file", s(file)),
            ("line_lo", J::Int(line_lo)),
            ("line_hi", J::Int(line_hi)),
            ("from_expansion", J::Bool(exp)),
            ("arg_count", J::Int(body.arg_count as i128)),
            ("locals", J::Arr(locals)),
            ("upvars", J::Arr(upvars)),
            ("blocks", J::Arr(blocks)),
        ];
        if kind == DefKind::AssocFn {
            let imp = tcx.parent(did);
            if matches!(tcx.def_kind(imp), DefKind::Impl { .. }) {
                let st = tcx.type_of(imp).instantiate_identity().skip_norm_wip();
                f.push(("impl_self", s(self.ty(st))));
                if let Some(tr) = tcx.impl_opt_trait_ref(imp) {
                    f.push(("impl_trait", s(self.pretty(tr.skip_binder().def_id))));
                }
                f.push(("derived", J::Bool(tcx.is_automatically_derived(imp))));
            }
        }
        if matches!(kind, DefKind::Fn | DefKind::AssocFn) {
            f.push(("vis_pub", J::Bool(tcx.visibility(did).is_public())));
        }
        // in a #[cfg(test)]-free build there are no test fns; record attrs we care about
        Some(J::Obj(f))
    }

    fn adts(&self) -> J {
        let tcx = self.tcx;
        let mut out = Vec::new();
        for ldid in tcx.hir_crate_items(()).definitions() {
            let did = ldid.to_def_id();
            let kind = tcx.def_kind(did);
            if !matches!(kind, DefKind::Struct | DefKind::Enum) {
                continue;
            }
            let adt = tcx.adt_def(did);
            let mut vars = Vec::new();
            for v in adt.variants().iter() {
                let mut fs = Vec::new();
                for fd in v.fields.iter() {
                    let fty = tcx.type_of(fd.did).instantiate_identity().skip_norm_wip();
                    fs.push(J::Obj(vec![
                        ("name", s(fd.name.to_string())),
                        ("ty", s(self.ty(fty))),
                        ("pub", J::Bool(fd.vis.is_public())),
                    ]));
                }
                vars.push(J::Obj(vec![("name", s(v.name.to_string())), ("fields", J::Arr(fs))]));
            }
            let (file, line, _) = self.line(tcx.def_span(did));
            out.push(J::Obj(vec![
                ("key", s(self.key(did))),
                ("pretty", s(self.pretty(did))),
                ("kind", s(format!("{:?}", kind))),
                ("variants", J::Arr(vars)),
                ("file", s(file)),
                ("line", J::Int(line)),
            ]));
        }
        J::Arr(out)
    }

    fn impls(&self) -> J {
        let tcx = self.tcx;
        let mut out = Vec::new();
        for ldid in tcx.hir_crate_items(()).definitions() {
            let did = ldid.to_def_id();
            if let DefKind::Impl { .. } = tcx.def_kind(did) {
                let st = tcx.type_of(did).instantiate_identity().skip_norm_wip();
                let tr = tcx.impl_opt_trait_ref(did).map(|t| self.pretty(t.skip_binder().def_id));
                out.push(J::Obj(vec![
                    ("self_ty", s(self.ty(st))),
                    ("trait", match tr {
                        Some(t) => s(t),
                        None => J::Null,
                    }),
                    ("derived", J::Bool(tcx.is_automatically_derived(did))),
                ]));
            }
        }
        J::Arr(out)
    }

    fn consts(&self) -> J {
        let tcx = self.tcx;
        let mut out = Vec::new();
        for ldid in tcx.hir_crate_items(()).definitions() {
            let did = ldid.to_def_id();
            let kind = tcx.def_kind(did);
            let is_static = matches!(kind, DefKind::Static { .. });
            // associated constants of inherent impls too (`Integer::ZERO`), not those a trait only declares
            let is_assoc = matches!(kind, DefKind::AssocConst { .. });
            if !(matches!(kind, DefKind::Const { .. }) || is_static || is_assoc) {
                continue;
            }
            if is_assoc && tcx.trait_of_assoc(did).is_some() {
                continue;
            }
            if tcx.generics_of(did).requires_monomorphization(tcx) {
                continue;
            }
            let ty = tcx.type_of(did).instantiate_identity().skip_norm_wip();
            let mut f: Vec<(&'static str, J)> = vec![
                ("key", s(self.key(did))),
                ("pretty", s(self.pretty(did))),
                ("name", s(tcx.item_name(did).to_string())),
                ("kind", s(if is_static { "static" } else { "const" })),
                ("ty", s(self.ty(ty))),
            ];
            if is_static {
                if let Ok(alloc) = tcx.eval_static_initializer(did) {
                    f.push(("val", s(self.alloc_str(alloc.inner(), 0))));
                }
            } else {
                let typing_env = TypingEnv::post_analysis(tcx, did);
                let c = Const::Unevaluated(
                    mir::UnevaluatedConst { def: did, args: ty::GenericArgs::identity_for_item(tcx, did), promoted: None },
                    ty,
                );
                if let Ok(v) = c.eval(tcx, typing_env, rustc_span::DUMMY_SP) {
                    let cv = Const::Val(v, ty);
                    f.push(("val", s(self.const_val_str(&cv))));
                    if let Some(sc) = cv.try_eval_scalar_int(tcx, typing_env) {
                        f.push(("int", s(format!("{}", sc.to_bits(sc.size())))));
                    }
                }
            }
            let (file, line, _) = self.line(tcx.def_span(did));
            f.push(("file", s(file)));
            f.push(("line", J::Int(line)));
            out.push(J::Obj(f));
        }
        J::Arr(out)
    }

    /// best effort rendering of a static's allocation: follow one level of pointers and
    /// print the pointee bytes as a (lossy) string
    fn alloc_str(&self, alloc: &mir::interpret::Allocation, depth: usize) -> String {
        let len = alloc.len();
        let ptrs = alloc.provenance().ptrs();
        if ptrs.is_empty() || depth > 2 {
            let bytes = alloc.inspect_with_uninit_and_ptr_outside_interpreter(0..len);
            return format!("bytes:{}", String::from_utf8_lossy(bytes));
        }
        let mut parts = Vec::new();
        for (_, prov) in ptrs.iter() {
            let id = prov.alloc_id();
            if let Some(mir::interpret::GlobalAlloc::Memory(m)) = self.tcx.try_get_global_alloc(id) {
                parts.push(self.alloc_str(m.inner(), depth + 1));
            }
        }
        parts.join("|")
    }
}

struct Cb;

impl rustc_driver::Callbacks for Cb {
    fn after_analysis<'tcx>(
        &mut self,
        _compiler: &rustc_interface::interface::Compiler,
        tcx: TyCtxt<'tcx>,
    ) -> Compilation {
        let out_dir = match std::env::var("MIRFACTS_OUT") {
            Ok(d) => d,
            Err(_) => return Compilation::Continue,
        };
        let crate_name = tcx.crate_name(rustc_hir::def_id::LOCAL_CRATE).to_string();
        if crate_name == "build_script_build" {
            return Compilation::Continue;
        }
        // tests are not product code: skip any --test compilation
        if tcx.sess.opts.test {
            return Compilation::Continue;
        }
        let cx = Cx { tcx };
        let mut fns = Vec::new();
        for ldid in tcx.hir_body_owners() {
            if let Some(j) = cx.body(ldid) {
                fns.push(j);
            }
        }
        let uses_unsafe = {
            // any unsafe block / fn / impl in the crate's HIR
            let mut found = Vec::new();
            for ldid in tcx.hir_body_owners() {
                let did = ldid.to_def_id();
                if matches!(tcx.def_kind(did), DefKind::Fn | DefKind::AssocFn) {
                    let sig = tcx.fn_sig(did).instantiate_identity().skip_norm_wip();
                    if sig.safety().is_unsafe() {
                        found.push(s(cx.pretty(did)));
                    }
                }
                let res = tcx.unsafety_check_result_compat(ldid);
                if res {
                    found.push(s(cx.pretty(did)));
                }
            }
            J::Arr(found)
        };
        let root = J::Obj(vec![
            ("crate", s(crate_name.clone())),
            ("adts", cx.adts()),
            ("impls", cx.impls()),
            ("consts", cx.consts()),
            ("unsafe", uses_unsafe),
            ("fns", J::Arr(fns)),
        ]);
        let mut out = String::new();
        root.write(&mut out);
        let path = format!("{}/{}.json", out_dir, crate_name);
        let tmp = format!("{}.tmp{}", path, std::process::id());
        std::fs::write(&tmp, out).expect("write facts");
        std::fs::rename(&tmp, &path).expect("rename facts");
        Compilation::Continue
    }
}

trait UnsafetyCompat {
    fn unsafety_check_result_compat(self, ldid: LocalDefId) -> bool;
}
impl<'tcx> UnsafetyCompat for TyCtxt<'tcx> {
    /// true iff the body contains an `unsafe { }` block (THIR-free approximation through HIR)
    fn unsafety_check_result_compat(self, ldid: LocalDefId) -> bool {
        use rustc_hir::intravisit::{self, Visitor};
        struct V {
            found: bool,
        }
        impl<'v> Visitor<'v> for V {
            fn visit_block(&mut self, b: &'v rustc_hir::Block<'v>) {
                if let rustc_hir::BlockCheckMode::UnsafeBlock(src) = b.rules {
                    if matches!(src, rustc_hir::UnsafeSource::UserProvided) {
                        self.found = true;
                    }
                }
                intravisit::walk_block(self, b);
            }
        }
        let mut v = V { found: false };
        if let Some(body) = self.hir_maybe_body_owned_by(ldid) {
            v.visit_body(body);
        }
        v.found
    }
}

fn main() {
    let mut args: Vec<String> = std::env::args().collect();
    // wrapper mode: argv[1] is the path to rustc
    if args.len() > 1 && (args[1].ends_with("rustc") || args[1].contains("/rustc")) {
        args.remove(1);
    }
    let mut cb = Cb;
    rustc_driver::run_compiler(&args, &mut cb);
}
