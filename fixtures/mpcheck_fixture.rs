// Positive control for the zero-count rules: compiled by the same driver on every
// fact generation; the rules "no unsafe" / "no mint-burn message" must see these.
pub fn fixture_unsafe_block(p: *const u8) -> u8 {
    unsafe { *p }
}

pub enum FixtureMsg {
    Mint { amount: u128 },
    Burn { amount: u128 },
}

pub fn fixture_builds_mint(a: u128) -> FixtureMsg {
    FixtureMsg::Mint { amount: a }
}
