use cosmwasm_std::{Uint128, Empty};
use cw_multi_test::Executor;
use margined_perp::margined_engine::Side;
use margined_utils::scenarios::{to_decimals, SimpleScenario, NativeTokenScenario, ShutdownScenario};
use margined_utils::tools::fund_calculator::calculate_funds_needed;

// F2: deeply under-water position cannot be liquidated when partial ratio != 0
#[test]
fn probe_f2_negative_ratio_partial_path() {
    let SimpleScenario { mut router, alice, bob, carol, owner, engine, vamm, pricefeed, usdc, .. } = SimpleScenario::new();
    let msg = pricefeed.append_price("ETH".to_string(), Uint128::from(10_000_000_000u128), router.block_info().time.seconds()).unwrap();
    router.execute(owner.clone(), msg).unwrap();
    let msg = engine.set_partial_liquidation_ratio(Uint128::from(250_000_000u128)).unwrap();
    router.execute(owner.clone(), msg).unwrap();
    let msg = engine.set_liquidation_fee(Uint128::from(25_000_000u128)).unwrap();
    router.execute(owner.clone(), msg).unwrap();

    let msg = engine.open_position(vamm.addr().to_string(), Side::Buy, to_decimals(25), to_decimals(10), to_decimals(0), vec![]).unwrap();
    router.execute(alice.clone(), msg).unwrap();
    router.update_block(|b| { b.time = b.time.plus_seconds(15); b.height += 1; });
    let msg = engine.open_position(vamm.addr().to_string(), Side::Sell, to_decimals(500), to_decimals(1), to_decimals(0), vec![]).unwrap();
    router.execute(bob.clone(), msg).unwrap();
    router.update_block(|b| { b.time = b.time.plus_seconds(1000); b.height += 1; });
    // oracle follows the market so that the spread override is not active
    let spot = vamm.spot_price(&router).unwrap();
    let msg = pricefeed.append_price("ETH".to_string(), spot, router.block_info().time.seconds()).unwrap();
    router.execute(owner.clone(), msg).unwrap();

    let ratio = engine.get_margin_ratio(&router, vamm.addr().to_string(), alice.to_string()).unwrap();
    println!("F2 margin ratio = {}", ratio);
    let vault = usdc.balance::<_, _, Empty>(&router, engine.addr()).unwrap();
    println!("F2 vault = {}", vault);
    let msg = engine.liquidate(vamm.addr().to_string(), alice.to_string(), to_decimals(0)).unwrap();
    let res = router.execute(carol.clone(), msg);
    println!("F2 liquidate result = {:?}", res.as_ref().map(|_| "OK").map_err(|e| e.root_cause().to_string()));
    assert!(res.is_err(), "EXPECTED-DEFECT-NOT-REPRODUCED");
}

// F4: shutdown with one vamm already closed
#[test]
fn probe_f4_shutdown_mixed() {
    let ShutdownScenario { mut router, owner, insurance_fund, vamm1, vamm2, .. } = ShutdownScenario::new();
    router.execute(owner.clone(), insurance_fund.add_vamm(vamm1.addr().to_string()).unwrap()).unwrap();
    router.execute(owner.clone(), insurance_fund.add_vamm(vamm2.addr().to_string()).unwrap()).unwrap();
    let st = insurance_fund.all_vamm_status(None, &router).unwrap();
    println!("F4 before: {:?}", st);
    router.execute(insurance_fund.addr(), vamm1.set_open(false).unwrap()).unwrap();
    let res = router.execute(owner.clone(), insurance_fund.shutdown_vamms().unwrap());
    println!("F4 shutdown result = {:?}", res.as_ref().map(|_| "OK").map_err(|e| e.root_cause().to_string()));
    let st = insurance_fund.all_vamm_status(None, &router).unwrap();
    println!("F4 after: {:?}", st);
    assert!(res.is_err(), "EXPECTED-DEFECT-NOT-REPRODUCED");
}

// F7: native reversal with zero fees
#[test]
fn probe_f7_native_reverse_zero_fee() {
    let NativeTokenScenario { mut router, owner, alice, engine, vamm, .. } = NativeTokenScenario::new();
    router.execute(owner.clone(), vamm.set_toll_ratio(Uint128::zero()).unwrap()).unwrap();
    router.execute(owner.clone(), vamm.set_spread_ratio(Uint128::zero()).unwrap()).unwrap();
    let f = calculate_funds_needed(&router, engine.addr(), alice.clone(), Uint128::from(25_000_000u64), Uint128::from(10_000_000u64), Side::Buy, vamm.addr()).unwrap();
    println!("F7 funds open = {:?}", f);
    let msg = engine.open_position(vamm.addr().to_string(), Side::Buy, Uint128::from(25_000_000u64), Uint128::from(10_000_000u64), Uint128::zero(), f).unwrap();
    router.execute(alice.clone(), msg).unwrap();
    let f = calculate_funds_needed(&router, engine.addr(), alice.clone(), Uint128::from(100_000_000u64), Uint128::from(5_000_000u64), Side::Sell, vamm.addr()).unwrap();
    println!("F7 funds reverse (what cw20 would pull) = {:?}", f);
    let msg = engine.open_position(vamm.addr().to_string(), Side::Sell, Uint128::from(100_000_000u64), Uint128::from(5_000_000u64), Uint128::zero(), f).unwrap();
    let res = router.execute(alice.clone(), msg);
    println!("F7 reverse result = {:?}", res.as_ref().map(|_| "OK").map_err(|e| e.root_cause().to_string()));
    assert!(res.is_err(), "EXPECTED-DEFECT-NOT-REPRODUCED");
}

// F5: long whole-close pushes price out of the band because the check uses the wrong direction
#[test]
fn probe_f5_close_direction() {
    let SimpleScenario { mut router, alice, bob, owner, engine, vamm, .. } = SimpleScenario::new();
    router.execute(owner.clone(), engine.set_partial_liquidation_ratio(Uint128::from(250_000_000u128)).unwrap()).unwrap();
    let msg = engine.open_position(vamm.addr().to_string(), Side::Buy, to_decimals(2), to_decimals(1), to_decimals(0), vec![]).unwrap();
    router.execute(alice.clone(), msg).unwrap();
    router.update_block(|b| { b.time = b.time.plus_seconds(15); b.height += 1; });
    router.execute(owner.clone(), vamm.set_fluctuation_limit_ratio(Uint128::from(10_000_000u128)).unwrap()).unwrap();
    router.update_block(|b| { b.time = b.time.plus_seconds(15); b.height += 1; });
    let p0 = vamm.spot_price(&router).unwrap();
    let lower = p0 * Uint128::from(990_000_000u128) / Uint128::from(1_000_000_000u128);
    let msg = engine.open_position(vamm.addr().to_string(), Side::Sell, to_decimals(5), to_decimals(1), to_decimals(0), vec![]).unwrap();
    router.execute(bob.clone(), msg).unwrap();
    let p1 = vamm.spot_price(&router).unwrap();
    let before = engine.position(&router, vamm.addr().to_string(), alice.to_string()).unwrap();
    let res = router.execute(alice.clone(), engine.close_position(vamm.addr().to_string(), to_decimals(0)).unwrap());
    let p2 = vamm.spot_price(&router).unwrap();
    let after = engine.position(&router, vamm.addr().to_string(), alice.to_string());
    println!("F5 p0={} lower={} p1(after bob)={} p2(after close)={} close={:?}", p0, lower, p1, p2, res.as_ref().map(|_| "OK").map_err(|e| e.root_cause().to_string()));
    println!("F5 size before={} after={:?}", before.size, after.map(|p| p.size.to_string()));
    assert!(res.is_ok() && p2 < lower, "EXPECTED-DEFECT-NOT-REPRODUCED");
}

// F3: vault short -> liquidation impossible (stale balance in liquidate_reply)
#[test]
fn probe_f3_stale_balance() {
    let NativeTokenScenario { mut router, owner, alice, bob, carol, engine, vamm, pricefeed, insurance_fund, .. } = NativeTokenScenario::new();
    router.execute(owner.clone(), vamm.set_toll_ratio(Uint128::from(10_000u128)).unwrap()).unwrap();
    let f = calculate_funds_needed(&router, engine.addr(), alice.clone(), Uint128::from(20_000_000u64), Uint128::from(10_000_000u64), Side::Buy, vamm.addr()).unwrap();
    router.execute(alice.clone(), engine.open_position(vamm.addr().to_string(), Side::Buy, Uint128::from(20_000_000u64), Uint128::from(10_000_000u64), Uint128::zero(), f).unwrap()).unwrap();
    router.update_block(|b| { b.time = b.time.plus_seconds(15); b.height += 1; });
    let f = calculate_funds_needed(&router, engine.addr(), bob.clone(), Uint128::from(70_000_000u64), Uint128::from(2_857_142u64), Side::Buy, vamm.addr()).unwrap();
    router.execute(bob.clone(), engine.open_position(vamm.addr().to_string(), Side::Buy, Uint128::from(70_000_000u64), Uint128::from(2_857_142u64), Uint128::zero(), f).unwrap()).unwrap();
    router.update_block(|b| { b.time = b.time.plus_seconds(15); b.height += 1; });
    println!("F3 vault before alice close = {}", router.wrap().query_balance(&engine.addr(), "uwasm").unwrap().amount);
    router.execute(alice.clone(), engine.close_position(vamm.addr().to_string(), Uint128::zero()).unwrap()).unwrap();
    println!("F3 vault after alice close = {}", router.wrap().query_balance(&engine.addr(), "uwasm").unwrap().amount);
    router.update_block(|b| { b.time = b.time.plus_seconds(1000); b.height += 1; });
    let spot = vamm.spot_price(&router).unwrap();
    router.execute(owner.clone(), pricefeed.append_price("ETH".to_string(), spot, router.block_info().time.seconds()).unwrap()).unwrap();
    let ratio = engine.get_margin_ratio(&router, vamm.addr().to_string(), bob.to_string()).unwrap();
    let pos = engine.position(&router, vamm.addr().to_string(), bob.to_string()).unwrap();
    println!("F3 bob ratio={} margin={} notional={} size={} IF balance={}", ratio, pos.margin, pos.notional, pos.size, router.wrap().query_balance(&insurance_fund.addr(), "uwasm").unwrap().amount);
    let res = router.execute(carol.clone(), engine.liquidate(vamm.addr().to_string(), bob.to_string(), Uint128::zero()).unwrap());
    println!("F3 liquidate result = {:?}", res.as_ref().map(|_| "OK").map_err(|e| format!("{:#}", e)));
    assert!(res.is_err(), "EXPECTED-DEFECT-NOT-REPRODUCED");
}

// F8: partial liquidation through SwapInput grows/flips the position and breaks the size mirror
#[test]
fn probe_f8_partial_liq_swap_input_branch() {
    let SimpleScenario { mut router, alice, bob, carol, owner, engine, vamm, pricefeed, .. } = SimpleScenario::new();
    router.execute(owner.clone(), engine.set_partial_liquidation_ratio(Uint128::from(500_000_000u128)).unwrap()).unwrap();
    router.execute(owner.clone(), engine.set_liquidation_fee(Uint128::from(25_000_000u128)).unwrap()).unwrap();
    router.execute(bob.clone(), engine.open_position(vamm.addr().to_string(), Side::Sell, to_decimals(20), to_decimals(1), to_decimals(0), vec![]).unwrap()).unwrap();
    router.execute(bob.clone(), engine.deposit_margin(vamm.addr().to_string(), to_decimals(50), vec![]).unwrap()).unwrap();
    router.update_block(|b| { b.time = b.time.plus_seconds(15); b.height += 1; });
    router.execute(alice.clone(), engine.open_position(vamm.addr().to_string(), Side::Buy, to_decimals(1000), to_decimals(1), to_decimals(0), vec![]).unwrap()).unwrap();
    router.update_block(|b| { b.time = b.time.plus_seconds(1000); b.height += 1; });
    router.execute(owner.clone(), engine.set_margin_ratios(Uint128::from(100_000_000u128)).unwrap()).unwrap();
    let spot = vamm.spot_price(&router).unwrap();
    router.execute(owner.clone(), pricefeed.append_price("ETH".to_string(), spot, router.block_info().time.seconds()).unwrap()).unwrap();
    let ratio = engine.get_margin_ratio(&router, vamm.addr().to_string(), bob.to_string()).unwrap();
    let before = engine.position(&router, vamm.addr().to_string(), bob.to_string()).unwrap();
    let a = engine.position(&router, vamm.addr().to_string(), alice.to_string()).unwrap();
    let tps0 = vamm.state(&router).unwrap().total_position_size;
    println!("F8 ratio={} bob size before={} alice size={} vamm tps={}", ratio, before.size, a.size, tps0);
    let res = router.execute(carol.clone(), engine.liquidate(vamm.addr().to_string(), bob.to_string(), to_decimals(0)).unwrap());
    println!("F8 liquidate = {:?}", res.as_ref().map(|_| "OK").map_err(|e| e.root_cause().to_string()));
    let after = engine.position(&router, vamm.addr().to_string(), bob.to_string());
    let tps1 = vamm.state(&router).unwrap().total_position_size;
    println!("F8 bob size after={:?} vamm tps after={}", after.map(|p| p.size.to_string()), tps1);
}

// F8b: same branch on a low-priced market: the transaction commits and the mirror breaks
#[test]
fn probe_f8b_commits_on_low_price_market() {
    use margined_perp::margined_vamm::InstantiateMsg as VammInstantiateMsg;
    use margined_utils::contracts::helpers::margined_vamm::VammController;
    let SimpleScenario { mut router, alice, bob, carol, owner, engine, pricefeed, insurance_fund, .. } = SimpleScenario::new();
    let vamm_addr = router.instantiate_contract(4, owner.clone(), &VammInstantiateMsg {
        decimals: 9u8, quote_asset: "ETH".to_string(), base_asset: "USD".to_string(),
        quote_asset_reserve: to_decimals(100), base_asset_reserve: to_decimals(1000),
        funding_period: 86_400u64, toll_ratio: Uint128::zero(), spread_ratio: Uint128::zero(),
        fluctuation_limit_ratio: Uint128::zero(), pricefeed: pricefeed.addr().to_string(),
        margin_engine: Some(engine.addr().to_string()), insurance_fund: Some(insurance_fund.addr().to_string()),
    }, &[], "vamm2", None).unwrap();
    let vamm = VammController(vamm_addr);
    router.execute(owner.clone(), vamm.set_open(true).unwrap()).unwrap();
    router.execute(owner.clone(), insurance_fund.add_vamm(vamm.addr().to_string()).unwrap()).unwrap();
    router.execute(owner.clone(), engine.set_partial_liquidation_ratio(Uint128::from(500_000_000u128)).unwrap()).unwrap();
    router.execute(owner.clone(), engine.set_liquidation_fee(Uint128::from(25_000_000u128)).unwrap()).unwrap();
    router.execute(bob.clone(), engine.open_position(vamm.addr().to_string(), Side::Sell, to_decimals(20), to_decimals(1), to_decimals(0), vec![]).unwrap()).unwrap();
    router.execute(bob.clone(), engine.deposit_margin(vamm.addr().to_string(), to_decimals(200), vec![]).unwrap()).unwrap();
    router.update_block(|b| { b.time = b.time.plus_seconds(15); b.height += 1; });
    router.execute(alice.clone(), engine.open_position(vamm.addr().to_string(), Side::Buy, to_decimals(120), to_decimals(1), to_decimals(0), vec![]).unwrap()).unwrap();
    router.update_block(|b| { b.time = b.time.plus_seconds(1000); b.height += 1; });
    router.execute(owner.clone(), engine.set_margin_ratios(Uint128::from(250_000_000u128)).unwrap()).unwrap();
    let spot = vamm.spot_price(&router).unwrap();
    router.execute(owner.clone(), pricefeed.append_price("ETH".to_string(), spot, router.block_info().time.seconds()).unwrap()).unwrap();
    let ratio = engine.get_margin_ratio(&router, vamm.addr().to_string(), bob.to_string()).unwrap();
    let b0 = engine.position(&router, vamm.addr().to_string(), bob.to_string()).unwrap();
    let a0 = engine.position(&router, vamm.addr().to_string(), alice.to_string()).unwrap();
    println!("F8b ratio={} bob={} alice={} tps={}", ratio, b0.size, a0.size, vamm.state(&router).unwrap().total_position_size);
    let res = router.execute(carol.clone(), engine.liquidate(vamm.addr().to_string(), bob.to_string(), to_decimals(0)).unwrap());
    println!("F8b liquidate = {:?}", res.as_ref().map(|_| "OK").map_err(|e| e.root_cause().to_string()));
    let b1 = engine.position(&router, vamm.addr().to_string(), bob.to_string()).unwrap();
    let a1 = engine.position(&router, vamm.addr().to_string(), alice.to_string()).unwrap();
    let tps = vamm.state(&router).unwrap().total_position_size;
    println!("F8b after: bob={} alice={} engine sum={} vamm tps={}", b1.size, a1.size, b1.size + a1.size, tps);
    assert!(res.is_ok() && (b1.size + a1.size) != tps, "EXPECTED-DEFECT-NOT-REPRODUCED");
}
