#![allow(unused)]
use cosmwasm_std::{Coin, Empty, Uint128};
use cw_multi_test::Executor;
use margined_perp::margined_engine::Side;
use margined_utils::scenarios::{NativeTokenScenario, SimpleScenario};
use margined_utils::tools::fund_calculator::calculate_funds_needed;

// F10: ClosePosition with a non-zero toll. cw20: the fee is pulled from the trader. native: the fee is paid by the vault.
#[test]
fn probe_f10_native_close_fee_is_paid_by_the_vault() {
    // ---- native twin (6 decimals)
    let NativeTokenScenario { mut router, owner, alice, bob, engine, vamm, fee_pool, .. } = NativeTokenScenario::new();
    let msg = vamm.set_toll_ratio(Uint128::from(100_000u128)).unwrap(); // 10%
    router.execute(owner.clone(), msg).unwrap();
    let a0 = router.wrap().query_balance(&alice, "uwasm").unwrap().amount;
    let funds = calculate_funds_needed(&router, engine.addr(), alice.clone(), Uint128::from(60_000_000u64), Uint128::from(10_000_000u64), Side::Buy, vamm.addr()).unwrap();
    let msg = engine.open_position(vamm.addr().to_string(), Side::Buy, Uint128::from(60_000_000u64), Uint128::from(10_000_000u64), Uint128::zero(), funds).unwrap();
    router.execute(alice.clone(), msg).unwrap();
    let a1 = router.wrap().query_balance(&alice, "uwasm").unwrap().amount;
    let v1 = router.wrap().query_balance(&engine.addr(), "uwasm").unwrap().amount;
    let f1 = router.wrap().query_balance(&fee_pool.addr(), "uwasm").unwrap().amount;
    let msg = engine.close_position(vamm.addr().to_string(), Uint128::zero()).unwrap();
    let res = router.execute(alice.clone(), msg);
    println!("F10 native: lone trader closes with a 10% toll -> {:?}", res.as_ref().map(|_| "Ok").map_err(|e| e.root_cause().to_string()));
    // give the vault other traders' money: bob opens the same position, then alice closes
    let funds = calculate_funds_needed(&router, engine.addr(), bob.clone(), Uint128::from(1_000_000_000u64), Uint128::from(1_000_000u64), Side::Buy, vamm.addr()).unwrap();
    let msg = engine.open_position(vamm.addr().to_string(), Side::Buy, Uint128::from(1_000_000_000u64), Uint128::from(1_000_000u64), Uint128::zero(), funds).unwrap();
    router.execute(bob.clone(), msg).unwrap();
    let a1 = router.wrap().query_balance(&alice, "uwasm").unwrap().amount;
    let v1 = router.wrap().query_balance(&engine.addr(), "uwasm").unwrap().amount;
    let f1 = router.wrap().query_balance(&fee_pool.addr(), "uwasm").unwrap().amount;
    let pos = engine.position(&router, vamm.addr().to_string(), alice.to_string()).unwrap();
    let msg = engine.close_position(vamm.addr().to_string(), Uint128::zero()).unwrap();
    router.execute(alice.clone(), msg).unwrap();
    println!("F10 native: alice margin {} notional {}", pos.margin, pos.notional);
    let a2 = router.wrap().query_balance(&alice, "uwasm").unwrap().amount;
    let v2 = router.wrap().query_balance(&engine.addr(), "uwasm").unwrap().amount;
    let f2 = router.wrap().query_balance(&fee_pool.addr(), "uwasm").unwrap().amount;
    println!("F10 native: open cost {} ; close: alice +{} vault -{} fee_pool +{}", a0 - a1, a2 - a1, v1 - v2, f2 - f1);
    let native_close_net = (a2 - a1).u128();

    // ---- cw20 twin (9 decimals)
    let SimpleScenario { mut router, owner, alice, engine, vamm, usdc, fee_pool, .. } = SimpleScenario::new();
    let msg = vamm.set_toll_ratio(Uint128::from(100_000_000u128)).unwrap(); // 10%
    router.execute(owner.clone(), msg).unwrap();
    let b0 = usdc.balance::<_, _, Empty>(&router, alice.clone()).unwrap();
    let msg = engine.open_position(vamm.addr().to_string(), Side::Buy, Uint128::from(60_000_000_000u64), Uint128::from(10_000_000_000u64), Uint128::zero(), vec![]).unwrap();
    router.execute(alice.clone(), msg).unwrap();
    let b1 = usdc.balance::<_, _, Empty>(&router, alice.clone()).unwrap();
    let w1 = usdc.balance::<_, _, Empty>(&router, engine.addr().clone()).unwrap();
    let pos = engine.position(&router, vamm.addr().to_string(), alice.to_string()).unwrap();
    println!("F10 cw20  : alice margin {} notional {}", pos.margin, pos.notional);
    let msg = engine.close_position(vamm.addr().to_string(), Uint128::zero()).unwrap();
    router.execute(alice.clone(), msg).unwrap();
    let b2 = usdc.balance::<_, _, Empty>(&router, alice.clone()).unwrap();
    let w2 = usdc.balance::<_, _, Empty>(&router, engine.addr().clone()).unwrap();
    println!("F10 cw20  : open cost {} ; close: alice {:+} vault -{}", b0 - b1, (b2.u128() as i128) - (b1.u128() as i128), w1 - w2);
    let cw20_close_net = (b2.u128() as i128 - b1.u128() as i128) / 1000; // to 6 decimals
    assert_eq!(native_close_net as i128, cw20_close_net, "trader's net amount on ClosePosition differs between native and cw20 collateral");
}
