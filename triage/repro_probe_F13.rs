// probe: a fresh OpenPosition after a position was closed through an offsetting OpenPosition
use cosmwasm_std::Uint128;
use cw_multi_test::Executor;
use margined_common::integer::Integer;
use margined_perp::margined_engine::Side;
use margined_utils::scenarios::{to_decimals, SimpleScenario};

fn run(close_by_reverse: bool, limit: u64) -> (Option<String>, Option<margined_perp::margined_engine::Position>) {
    let SimpleScenario { mut router, alice, engine, vamm, .. } = SimpleScenario::new();
    // alice long 60 x10
    let msg = engine.open_position(vamm.addr().to_string(), Side::Buy, to_decimals(60u64), to_decimals(10u64), Uint128::zero(), vec![]).unwrap();
    router.execute(alice.clone(), msg).unwrap();
    router.update_block(|b| { b.time = b.time.plus_seconds(15); b.height += 1; });
    if close_by_reverse {
        // offsetting order of the same notional: the position is closed by the reversing branch
        let msg = engine.open_position(vamm.addr().to_string(), Side::Sell, to_decimals(60u64), to_decimals(10u64), Uint128::zero(), vec![]).unwrap();
        router.execute(alice.clone(), msg).unwrap();
    } else {
        let msg = engine.close_position(vamm.addr().to_string(), Uint128::zero()).unwrap();
        router.execute(alice.clone(), msg).unwrap();
    }
    let p = engine.position(&router, vamm.addr().to_string(), alice.to_string()).ok();
    println!("stored position after the close: {:?}", p.map(|p| (p.size, p.direction)));
    router.update_block(|b| { b.time = b.time.plus_seconds(15); b.height += 1; });
    // fresh short of 600 notional sells about 150 base; the trader accepts to owe at most 1 base
    let msg = engine.open_position(vamm.addr().to_string(), Side::Sell, to_decimals(6u64), to_decimals(10u64), to_decimals(limit), vec![]).unwrap();
    let res = router.execute(alice.clone(), msg);
    let p = engine.position(&router, vamm.addr().to_string(), alice.to_string()).ok();
    println!("close_by_reverse={} -> {:?}; position size now {:?}", close_by_reverse, res.as_ref().err().map(|e| format!("{:#}", e)), p.map(|p| p.size));
    let p = engine.position(&router, vamm.addr().to_string(), alice.to_string()).ok();
    (res.err().map(|e| e.root_cause().to_string()), p)
}

#[test]
fn zz_probe_f13_limit_after_offsetting_open() {
    let (a, _) = run(false, 1);
    let (b, _) = run(true, 1);
    assert!(a.is_some(), "control: a fresh short with a binding limit must be rejected");
    assert!(b.is_some(), "a fresh short with a binding limit executed after the previous position was closed by an offsetting open");
    // with a limit that does not bind both histories end in the same position
    let (a, pa) = run(false, 7);
    let (b, pb) = run(true, 7);
    assert!(a.is_none() && b.is_none());
    let (pa, pb) = (pa.unwrap(), pb.unwrap());
    println!("{:?}\n{:?}", pa, pb);
    assert_eq!((pa.size, pa.margin, pa.notional, pa.direction.clone()), (pb.size, pb.margin, pb.notional, pb.direction.clone()));
}
