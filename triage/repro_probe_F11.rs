#![allow(unused)]
use cosmwasm_std::{Empty, Uint128};
use cw_multi_test::Executor;
use margined_common::integer::Integer;
use margined_perp::margined_engine::Side;
use margined_utils::scenarios::{to_decimals, SimpleScenario};

const NEXT_FUNDING_PERIOD_DELTA: u64 = 86_400u64;

// F11: funding that accrued on a position is charged when the owner closes it, but NOT when the owner
// reverses it with an opposite OpenPosition (the reversal clears the position and resets the checkpoint).
fn run(with_funding: bool, reverse: bool) -> (i128, String) {
    let SimpleScenario { mut router, alice, bob, owner, engine, vamm, usdc, pricefeed, .. } = SimpleScenario::new();
    let msg = engine.open_position(vamm.addr().to_string(), Side::Buy, to_decimals(300u64), to_decimals(2u64), to_decimals(0u64), vec![]).unwrap();
    router.execute(alice.clone(), msg).unwrap();
    let price: Uint128 = Uint128::from(24_000_000_000u128);
    let msg = pricefeed.append_price("ETH".to_string(), price, 1_000_000_000).unwrap();
    router.execute(owner.clone(), msg).unwrap();
    router.update_block(|block| { block.time = block.time.plus_seconds(NEXT_FUNDING_PERIOD_DELTA); block.height += 1; });
    if with_funding {
        let msg = engine.pay_funding(vamm.addr().to_string()).unwrap();
        router.execute(owner.clone(), msg).unwrap();
    }
    let before = usdc.balance::<_, _, Empty>(&router, alice.clone()).unwrap();
    let pos = engine.position(&router, vamm.addr().to_string(), alice.to_string()).unwrap();
    let cum = engine.get_latest_cumulative_premium_fraction(&router, vamm.addr().to_string()).unwrap();
    let owed = (cum - pos.last_updated_premium_fraction) * pos.size / Integer::new_positive(1_000_000_000u128);
    if reverse {
        // sell a notional a little above the long's current value: closes it and opens a small short
        let msg = engine.open_position(vamm.addr().to_string(), Side::Sell, to_decimals(310u64), to_decimals(2u64), to_decimals(0u64), vec![]).unwrap();
        router.execute(alice.clone(), msg).unwrap();
    } else {
        let msg = engine.close_position(vamm.addr().to_string(), to_decimals(0u64)).unwrap();
        router.execute(alice.clone(), msg).unwrap();
    }
    let after = usdc.balance::<_, _, Empty>(&router, alice.clone()).unwrap();
    (after.u128() as i128 - before.u128() as i128, owed.to_string())
}

#[test]
fn probe_f11_reversal_forgives_pending_funding() {
    let (close_nf, _) = run(false, false);
    let (close_f, owed) = run(true, false);
    let (rev_nf, _) = run(false, true);
    let (rev_f, owed2) = run(true, true);
    println!("F11 funding owed by alice: {} / {}", owed, owed2);
    println!("F11 close   : wallet delta without funding {} ; with funding {} ; difference {}", close_nf, close_f, close_nf - close_f);
    println!("F11 reversal: wallet delta without funding {} ; with funding {} ; difference {}", rev_nf, rev_f, rev_nf - rev_f);
    assert_eq!(close_nf - close_f, rev_nf - rev_f, "a reversal charges a different amount of pending funding than a close");
}
