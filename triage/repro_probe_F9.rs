#![allow(unused)]
use cosmwasm_std::{Empty, StdError, Uint128};
use cw20::Cw20ExecuteMsg;
use cw_multi_test::Executor;
use margined_common::integer::Integer;
use margined_perp::margined_engine::{PnlCalcOption, Side};
use margined_utils::scenarios::{to_decimals, SimpleScenario};

#[test]
fn probe_f9_partially_liquidated_trader_is_restricted_in_same_block() {
    let SimpleScenario {
        mut router,
        alice,
        bob,
        carol,
        owner,
        engine,
        usdc,
        vamm,
        pricefeed,
        insurance_fund,
        ..
    } = SimpleScenario::new();

    // set the latest price
    let price: Uint128 = Uint128::from(10_000_000_000u128);
    let timestamp: u64 = router.block_info().time.seconds();

    let msg = pricefeed
        .append_price("ETH".to_string(), price, timestamp)
        .unwrap();
    router.execute(owner.clone(), msg).unwrap();

    router.update_block(|block| {
        block.time = block.time.plus_seconds(900);
        block.height += 1;
    });

    let msg = engine
        .set_margin_ratios(Uint128::from(100_000_000u128))
        .unwrap();
    router.execute(owner.clone(), msg).unwrap();

    let msg = engine
        .set_partial_liquidation_ratio(Uint128::from(250_000_000u128))
        .unwrap();
    router.execute(owner.clone(), msg).unwrap();

    let msg = engine
        .set_liquidation_fee(Uint128::from(25_000_000u128))
        .unwrap();
    router.execute(owner.clone(), msg).unwrap();

    // reduce the allowance
    router
        .execute_contract(
            alice.clone(),
            usdc.addr().clone(),
            &Cw20ExecuteMsg::DecreaseAllowance {
                spender: engine.addr().to_string(),
                amount: to_decimals(1900),
                expires: None,
            },
            &[],
        )
        .unwrap();

    // reduce the allowance
    router
        .execute_contract(
            bob.clone(),
            usdc.addr().clone(),
            &Cw20ExecuteMsg::DecreaseAllowance {
                spender: engine.addr().to_string(),
                amount: to_decimals(1900),
                expires: None,
            },
            &[],
        )
        .unwrap();

    // when alice create a 25 margin * 10x position to get 20 long position
    // AMM after: 1250 : 80
    let msg = engine
        .open_position(
            vamm.addr().to_string(),
            Side::Buy,
            to_decimals(25u64),
            to_decimals(10u64),
            to_decimals(0u64),
            vec![],
        )
        .unwrap();
    router.execute(alice.clone(), msg).unwrap();

    router.update_block(|block| {
        block.time = block.time.plus_seconds(15);
        block.height += 1;
    });

    // when bob create a 45.18072289 margin * 1x position to get 3 short position
    // AMM after: 1204.819277 : 83
    let msg = engine
        .open_position(
            vamm.addr().to_string(),
            Side::Sell,
            Uint128::from(45_180_722_890u128),
            to_decimals(1u64),
            to_decimals(0u64),
            vec![],
        )
        .unwrap();
    router.execute(bob.clone(), msg).unwrap();

    let msg = engine
        .liquidate(
            vamm.addr().to_string(),
            alice.to_string(),
            to_decimals(0u64),
        )
        .unwrap();
    router.execute(carol.clone(), msg).unwrap();


    // same block: alice's position was just updated (partially liquidated); she must not act on it again
    let before = engine
        .position(&router, vamm.addr().to_string(), alice.to_string())
        .unwrap();
    assert_eq!(before.size, Integer::new_positive(15_000_000_000u128));
    let msg = engine
        .close_position(vamm.addr().to_string(), to_decimals(0u64))
        .unwrap();
    let res = router.execute(alice.clone(), msg);
    println!("F9 close in liquidation block by the liquidated trader -> {:?}", res.as_ref().map(|_| "Ok").map_err(|e| e.root_cause().to_string()));
    assert!(res.is_err(), "liquidated trader acted again on her position in the block of the liquidation");
    let _ = (bob, usdc, owner, PnlCalcOption::SpotPrice, StdError::generic_err(""), Empty {});
}
