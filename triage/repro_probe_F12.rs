// probes for F12 (C07): zero-amount messages in the full-liquidation reply
use cosmwasm_std::Uint128;
use cw_multi_test::Executor;
use margined_common::integer::Integer;
use margined_perp::margined_engine::{PnlCalcOption, Side};
use margined_utils::scenarios::{to_decimals, SimpleScenario};

// (a) dust position: the liquidator's fee rounds to zero
#[test]
fn zz_probe_f12_a_dust_full_liquidation() {
    let SimpleScenario { mut router, owner, alice, bob, carol, engine, vamm, pricefeed, .. } = SimpleScenario::new();
    let msg = engine.open_position(vamm.addr().to_string(), Side::Buy, Uint128::from(20u128), to_decimals(2u64), Uint128::zero(), vec![]).unwrap();
    router.execute(alice.clone(), msg).unwrap();
    let msg = engine.open_position(vamm.addr().to_string(), Side::Sell, to_decimals(500u64), to_decimals(1u64), Uint128::zero(), vec![]).unwrap();
    router.execute(bob.clone(), msg).unwrap();
    let spot = vamm.spot_price(&router).unwrap();
    let timestamp = router.block_info().time.seconds();
    let msg = pricefeed.append_price("ETH".to_string(), spot, timestamp).unwrap();
    router.execute(owner.clone(), msg).unwrap();
    router.update_block(|block| { block.time = block.time.plus_seconds(1_000); block.height += 1; });
    let config = engine.config(&router).unwrap();
    assert!(!config.liquidation_fee.is_zero());
    assert!(config.partial_liquidation_ratio.is_zero());
    let mr = engine.get_margin_ratio(&router, vamm.addr().to_string(), alice.to_string()).unwrap();
    assert!(mr < Integer::new_positive(config.maintenance_margin_ratio));
    let msg = engine.liquidate(vamm.addr().to_string(), alice.to_string(), Uint128::zero()).unwrap();
    let res = router.execute(carol.clone(), msg);
    println!("F12a: liquidate -> {:?}", res.as_ref().err().map(|e| e.root_cause().to_string()));
    assert!(res.is_ok());
}

fn history(extra: i128) -> (Option<String>, Uint128, Uint128) {
    let SimpleScenario { mut router, owner, alice, bob, carol, engine, vamm, pricefeed, .. } = SimpleScenario::new();
    // alice long 60 x10, then bob long 20 x10
    let msg = engine.open_position(vamm.addr().to_string(), Side::Buy, to_decimals(60u64), to_decimals(10u64), Uint128::zero(), vec![]).unwrap();
    router.execute(alice.clone(), msg).unwrap();
    let msg = engine.open_position(vamm.addr().to_string(), Side::Buy, to_decimals(20u64), to_decimals(10u64), Uint128::zero(), vec![]).unwrap();
    router.execute(bob.clone(), msg).unwrap();
    router.update_block(|block| { block.time = block.time.plus_seconds(15); block.height += 1; });
    // alice takes her profit: the vault (80) cannot cover it, the insurance fund prepays the shortfall
    let msg = engine.close_position(vamm.addr().to_string(), Uint128::zero()).unwrap();
    router.execute(alice.clone(), msg).unwrap();
    let prepaid = engine.state(&router).unwrap().bad_debt;
    assert!(!prepaid.is_zero());
    // the oracle follows the market and time passes
    let spot = vamm.spot_price(&router).unwrap();
    let timestamp = router.block_info().time.seconds();
    let msg = pricefeed.append_price("ETH".to_string(), spot, timestamp).unwrap();
    router.execute(owner.clone(), msg).unwrap();
    router.update_block(|block| { block.time = block.time.plus_seconds(1_000); block.height += 1; });
    // bob's figures
    let pos = engine.position(&router, vamm.addr().to_string(), bob.to_string()).unwrap();
    let pnl = engine.get_unrealized_pnl(&router, vamm.addr().to_string(), bob.to_string(), PnlCalcOption::SpotPrice).unwrap();
    let config = engine.config(&router).unwrap();
    let fee = pnl.position_notional * config.liquidation_fee / config.decimals / Uint128::from(2u64);
    // loss beyond margin
    let deficit = pnl.unrealized_pnl.value - pos.margin; // pnl negative: |pnl| - margin
    // bad debt at liquidation after depositing d: deficit - d + fee ; want == prepaid
    let d = (deficit + fee - prepaid).u128() as i128 + extra;
    println!("prepaid {} deficit {} fee {} deposit {}", prepaid, deficit, fee, d);
    let msg = engine.deposit_margin(vamm.addr().to_string(), Uint128::from(d as u128), vec![]).unwrap();
    router.execute(bob.clone(), msg).unwrap();
    let mr = engine.get_margin_ratio(&router, vamm.addr().to_string(), bob.to_string()).unwrap();
    assert!(mr < Integer::new_positive(config.maintenance_margin_ratio));
    let msg = engine.liquidate(vamm.addr().to_string(), bob.to_string(), Uint128::zero()).unwrap();
    let res = router.execute(carol.clone(), msg);
    (res.err().map(|e| e.root_cause().to_string()), prepaid, engine.state(&router).unwrap().bad_debt)
}

// (b) bad debt exactly equal to the amount the insurance fund has already prepaid
#[test]
fn zz_probe_f12_b_bad_debt_equals_prepaid() {
    for extra in [-1i128, 0, 1] {
        let (err, before, after) = history(extra);
        println!("F12b: deposit offset {:+}: liquidate -> {:?} (prepaid before {} after {})", extra, err, before, after);
    }
    let (err, _, _) = history(0);
    assert!(err.is_none());
}
