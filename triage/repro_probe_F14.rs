// probe: an underwater position closed through an offsetting OpenPosition
use cosmwasm_std::{Empty, Uint128};
use cw_multi_test::Executor;
use margined_perp::margined_engine::{PnlCalcOption, Side};
use margined_utils::scenarios::{to_decimals, SimpleScenario};

#[test]
fn zz_probe_f14_underwater_offsetting_open() {
    let SimpleScenario { mut router, alice, bob, engine, vamm, usdc, .. } = SimpleScenario::new();
    // alice long 60 x10, bob shorts and crashes the price
    let msg = engine.open_position(vamm.addr().to_string(), Side::Buy, to_decimals(60u64), to_decimals(10u64), Uint128::zero(), vec![]).unwrap();
    router.execute(alice.clone(), msg).unwrap();
    let msg = engine.open_position(vamm.addr().to_string(), Side::Sell, to_decimals(500u64), to_decimals(1u64), Uint128::zero(), vec![]).unwrap();
    router.execute(bob.clone(), msg).unwrap();
    router.update_block(|b| { b.time = b.time.plus_seconds(15); b.height += 1; });
    let pos = engine.position(&router, vamm.addr().to_string(), alice.to_string()).unwrap();
    let pnl = engine.get_unrealized_pnl(&router, vamm.addr().to_string(), alice.to_string(), PnlCalcOption::SpotPrice).unwrap();
    println!("alice margin {} notional {} position_notional {} pnl {:?}", pos.margin, pos.notional, pnl.position_notional, pnl.unrealized_pnl);
    let before = usdc.balance::<_, _, Empty>(&router, alice.clone()).unwrap();
    let vault_before = usdc.balance::<_, _, Empty>(&router, engine.addr().clone()).unwrap();
    // control: ClosePosition is rejected because of the bad debt
    let msg = engine.close_position(vamm.addr().to_string(), Uint128::zero()).unwrap();
    let res = router.execute(alice.clone(), msg);
    println!("ClosePosition -> {:?}", res.as_ref().err().map(|e| e.root_cause().to_string()));
    // offsetting open of exactly the position's current notional at leverage 1
    let msg = engine.open_position(vamm.addr().to_string(), Side::Sell, pnl.position_notional, to_decimals(1u64), Uint128::zero(), vec![]).unwrap();
    let res = router.execute(alice.clone(), msg);
    println!("offsetting OpenPosition -> {:?}", res.as_ref().err().map(|e| format!("{:#}", e)));
    let after = usdc.balance::<_, _, Empty>(&router, alice.clone()).unwrap();
    let vault_after = usdc.balance::<_, _, Empty>(&router, engine.addr().clone()).unwrap();
    let p = engine.position(&router, vamm.addr().to_string(), alice.to_string()).ok();
    println!("alice wallet {} -> {}; vault {} -> {}; position {:?}", before, after, vault_before, vault_after, p.map(|p| (p.size, p.margin)));
    assert!(after <= before, "an underwater trader was paid for closing through an offsetting open");
}
