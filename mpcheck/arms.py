"""Entry arms and engine chains (A4).

Arm: one variant of a contract's ExecuteMsg/QueryMsg as dispatched by the entry
point, with the handler call and the substitution of the handler's parameters
by the entry point's.  Chain: execute arm -> reply handler -> ... in the engine.
"""
from . import sym, guards, model, paths as P
from .sym import tag, payload, kids

_ARMS = {}
_CHAINS = {}


def entry_params(fn):
    out = {}
    for i in range(fn.arg_count):
        ty = fn.locals[i + 1]["ty"]
        v = sym.param(fn.key, i, fn.param_name(i))
        if ty.endswith("cosmwasm_std::MessageInfo"):
            out["info"] = v
        elif ty.endswith("cosmwasm_std::Env"):
            out["env"] = v
        elif "DepsMut" in ty or ty.startswith("cosmwasm_std::Deps"):
            out["deps"] = v
        elif ty.endswith("::ExecuteMsg") or ty.endswith("::QueryMsg") or ty.endswith("::InstantiateMsg"):
            out["msg"] = v
        elif ty.endswith("cosmwasm_std::Reply"):
            out["reply"] = v
    return out


class Step:
    """a handler invocation: the entry function, the handler call event and the parameter mapping"""

    def __init__(self, ix, entry_fn, event, label):
        self.ix = ix
        self.entry = entry_fn
        self.event = event
        self.fn = event.target
        self.label = label
        self.m = ix.param_map(self.fn, event.args)
        self.ep = entry_params(entry_fn)
        self.info = self.ep.get("info")
        self.env = self.ep.get("env")
        self.sender = sym.field(self.info, "sender") if self.info is not None else None
        self.height = sym.field(sym.field(self.env, "block"), "height") if self.env is not None else None
        self.self_addr = sym.field(sym.field(self.env, "contract"), "address") if self.env is not None else None
        self._oks = None

    def ok_paths(self):
        if self._oks is None:
            oks = self.ix.ok_paths_at(self.fn, self.m)
            # helpers that update the position or the sent-funds record in place (`&mut Position`, `&mut SentFunds`) are
            # opened: what they store is then visible as if the update were written in the handler
            from .rules.common import splice

            def in_place(e):
                t = e.target
                return any(t.locals[i + 1]["ty"].startswith("&mut ") and t.locals[i + 1]["ty"].endswith(("margined_engine::Position", "state::SentFunds", "state::Config", "cosmwasm_std::Uint128", "margined_engine::RemainMarginResponse"))
                           for i in range(t.arg_count))
            try:
                oks = splice(self.ix, oks, in_place, rounds=3)
            except Exception:
                pass
            self._oks = oks
        return self._oks

    def s(self, v):
        """value of the handler's frame in the entry point's terms"""
        return sym.subst(v, self.m)

    def alternatives(self):
        """[(path, alternative fact set in entry terms)] over all success paths"""
        out = []
        for q in self.ok_paths():
            for alt in guards.facts_dnf(self.ix, q):
                alt2 = frozenset((self.ix.inline(sym.subst(a, self.m)), o) for (a, o) in alt)
                if guards._contradictory(self.ix, alt2):
                    continue
                out.append((q, alt2))
        return out

    def c(self, v):
        """canonical form of a handler-frame value: entry terms, single-path wrappers inlined"""
        return self.ix.inline(sym.subst(v, self.m))

    def writes(self, q):
        return self.ix.writes_on_path(q, self.m)


class Arm(Step):
    def __init__(self, ix, contract, variant, entry="execute"):
        key = (id(ix), contract, entry)
        t = _ARMS.get(key)
        if t is None:
            t = ix.arms(contract, entry)
            _ARMS[key] = t
        if t is None:
            raise KeyError("%s::contract::%s" % (contract, entry))
        fentry, msgp, table = t
        ps = table.get(variant)
        if not ps:
            raise KeyError("%s %s arm %s" % (contract, entry, variant))
        h = ix.arm_handler(ps)
        if h is None:
            raise KeyError("%s %s arm %s has no handler call" % (contract, entry, variant))
        Step.__init__(self, ix, fentry, h, "%s::%s" % (contract, variant))
        self.contract = contract
        self.variant = variant
        self.msgp = msgp
        self.arm_paths = ps

    def msgfield(self, name):
        return sym.field(sym.downcast(self.msgp, self.variant), name)


def engine_chains(ix, contract="margined_engine"):
    """{chain key: [Step, ...]}: every execute arm followed by the reply handlers of the
    ReplyOn::Always sub-messages its success paths can emit, recursively"""
    k = (id(ix), contract)
    r = _CHAINS.get(k)
    if r is not None:
        return r
    rt = model.ReplyTable(ix, contract)
    fentry, msgp, table = ix.arms(contract, "execute")
    chains = {}

    def next_ids(step):
        ids = set()
        for q in step.ok_paths():
            for s in model.path_submsgs(ix, q):
                if s.reply_on_name() == "Always":
                    ident = s.id_int()
                    ids.add(ident if ident is not None else -1)
        return sorted(ids)

    def walk(steps, key, depth):
        ids = next_ids(steps[-1])
        terminal_possible = True  # a handler may also end the chain on some paths
        chains[key] = list(steps)
        if depth <= 0:
            return
        for ident in ids:
            if ident < 0:
                continue
            h = rt.handler(ix, ident)
            if h is None:
                continue
            st = Step(ix, rt.fn, h, "reply:id%d" % ident)
            st.ident = ident
            if rt.msg is not None:
                # on this arm the reply's id is this constant: a handler that receives `msg.id` itself (arms merged with an
                # or-pattern) sees the literal, exactly as if the dispatcher had passed it
                idv = sym.field(rt.msg, "id")
                lit = sym.intc(ident, "u64")
                st.m = {k: sym.subst(v, {idv: lit}) for k, v in st.m.items()}
                st._oks = None
            walk(steps + [st], key + ">id%d" % ident, depth - 1)

    for variant in sorted(table):
        if variant == "<none>":
            continue
        try:
            a = Arm(ix, contract, variant)
        except KeyError:
            continue
        walk([a], variant, 4)
    _CHAINS[k] = chains
    return chains
