"""Protocol model extracted from the facts on every run (A4): reply dispatch,
sub-message constructions, engine chains."""
from . import sym, paths as P
from .sym import tag, payload, kids

SUBMSG = "cosmwasm_std::SubMsg"


def find_aggs(v, adt_suffix):
    out = []
    for x in sym.walk(v):
        if tag(x) == "agg" and payload(x)[0].endswith(adt_suffix):
            out.append(x)
    return out


def path_values(p):
    """all root values a path produced: return value, &mut outputs, call arguments/results"""
    vs = [p.ret]
    vs.extend(p.ptr_out.values())
    for e in p.events:
        vs.extend(e.args)
        vs.append(e.result)
    return vs


class SubMsgSite:
    def __init__(self, v, fn, chain):
        self.v = v
        self.fn = fn          # constructing function
        self.chain = chain    # call chain from the root function
        self.id = sym.field(v, "id")
        self.reply_on = sym.field(v, "reply_on")
        self.msg = sym.field(v, "msg")

    def id_int(self):
        if tag(self.id) == "int":
            return int(payload(self.id)[0])
        return None

    def id_options(self):
        """reply ids this construction may carry when the id is not a literal in this frame: the default of an
        `unwrap_or(<caller's override>, default)` counts"""
        out = set()

        def rec(v, d=0):
            if tag(v) == "int":
                out.add(int(payload(v)[0]))
            elif tag(v) == "call" and str(payload(v)[0]).endswith("::unwrap_or") and len(kids(v)) == 2 and d < 4:
                rec(kids(v)[1], d + 1)
                if tag(kids(v)[0]) == "agg" and kids(kids(v)[0]):
                    rec(kids(kids(v)[0])[0], d + 1)
        rec(self.id)
        return out

    def reply_on_name(self):
        if tag(self.reply_on) == "agg":
            return payload(self.reply_on)[1]
        return None

    def wasm_msg(self):
        """(kind, inner) : ('wasm', execute-msg value) | ('bank', bankmsg value) | ('?', v)"""
        m = self.msg
        if tag(m) == "agg" and payload(m)[0].endswith("CosmosMsg"):
            variant = payload(m)[1]
            inner = kids(m)[0]
            if variant == "Wasm" and tag(inner) == "agg" and payload(inner)[1] == "Execute":
                return ("wasm", inner)
            if variant == "Bank":
                return ("bank", inner)
        # a message handed to a library constructor taking `impl Into<CosmosMsg>` (SubMsg::reply_always(wasm_msg, id)) is
        # the same message without the wrapper the conversion adds
        if tag(m) == "agg" and payload(m)[0].endswith("WasmMsg") and payload(m)[1] == "Execute":
            return ("wasm", m)
        if tag(m) == "agg" and payload(m)[0].endswith("BankMsg"):
            return ("bank", m)
        return ("?", m)

    def inner_msg(self):
        """the serialized message aggregate of a WasmMsg::Execute, e.g. ExecuteMsg::SwapInput{..}"""
        k, inner = self.wasm_msg()
        if k != "wasm":
            return None
        mb = sym.field(inner, "msg")
        for x in sym.walk(mb):
            if tag(x) == "call" and payload(x)[0] == "cosmwasm_std::to_binary":
                a = kids(x)[0]
                return a
        return None

    def describe(self):
        im = self.inner_msg()
        k, inner = self.wasm_msg()
        if im is not None and tag(im) == "const":
            what = payload(im)[1].replace("margined_perp::", "").replace("{{", "{").replace("}}", "}")
        elif im is not None and tag(im) == "agg":
            what = "%s::%s" % (payload(im)[0].split("::")[-2] + "::" + payload(im)[0].split("::")[-1], payload(im)[1])
        elif k == "bank" and tag(inner) == "agg":
            what = "BankMsg::%s" % payload(inner)[1]
        else:
            what = sym.show(self.msg, 4)
        return "%s id=%s reply_on=%s" % (what, sym.show(self.id, 3), self.reply_on_name())


_DIRECT = {}
_CONSTRUCTS = {}
_REACH = {}


def _direct_generic(ix, fn):
    """[(path, [SubMsg aggregate values])] for fn's own non-error paths (no substitution)"""
    r = _DIRECT.get((id(ix), fn.key))
    if r is None:
        r = []
        for p in ix.ok_paths(fn):
            seen = {}
            for v in path_values(p):
                for a in find_aggs(v, SUBMSG):
                    seen[a] = True
            r.append((p, list(seen)))
        _DIRECT[(id(ix), fn.key)] = r
    return r


def constructs_submsg(ix, fn, _stack=()):
    """can fn (transitively) construct a SubMsg at all?"""
    k = (id(ix), fn.key)
    r = _CONSTRUCTS.get(k)
    if r is not None:
        return r
    if fn.key in _stack:
        return False
    r = False
    try:
        for p, aggs in _direct_generic(ix, fn):
            if aggs:
                r = True
                break
        if not r:
            for p in ix.ok_paths(fn):
                for e in p.events:
                    if e.target is not None and constructs_submsg(ix, e.target, _stack + (fn.key,)):
                        r = True
                        break
                if r:
                    break
    except P.TooManyPaths:
        r = True
    _CONSTRUCTS[k] = r
    return r


def direct_submsgs(ix, fn, mapping=None):
    """SubMsg aggregates built by fn itself (over all its feasible non-error paths), deduplicated by value"""
    seen = {}
    for p, aggs in _direct_generic(ix, fn):
        if aggs and ix.feasible(p, mapping or {}):
            for a in aggs:
                seen[a] = True
    return list(seen)


def _split_on_msg(ix, v, depth=2):
    """a SubMsg whose `msg` is the result of a workspace builder with several outcomes (native / cw20 arm, pull / push)
    stands for one construction per feasible outcome of that builder at this call"""
    m = sym.field(v, "msg")
    inner = m
    while tag(inner) in ("unwrap", "ok"):
        inner = kids(inner)[0]
    if depth <= 0 or tag(inner) != "call" or tag(v) != "agg":
        return [v]
    t = ix.call_target(inner)
    if t is None:
        return [v]
    try:
        m2 = ix.param_map(t, list(kids(inner))[:t.arg_count])
        oks = ix.ok_paths_at(t, m2)
    except Exception:
        return [v]
    if len(oks) < 2:
        return [v]
    out = []
    names = payload(v)[2]
    for p in oks:
        r = sym.subst(p.ret, m2)
        r = sym.unwrap(r) if tag(r) == "agg" and payload(r)[1] == "Ok" else r
        r = ix.inline(r)
        vals = [r if n == "msg" else k for n, k in zip(names, kids(v))]
        v2 = sym.agg(payload(v)[0], payload(v)[1], names, vals)
        out.extend(_split_on_msg(ix, v2, depth - 1))
    return out or [v]


def reachable_submsgs(ix, fn, mapping=None, chain=(), depth=8):
    """SubMsg constructions reachable from fn with call-site substitution of parameters"""
    mapping = mapping or {}
    if not constructs_submsg(ix, fn):
        return []
    mk_ = (id(ix), fn.key, tuple(sorted(mapping.items())), depth)
    r = _REACH.get(mk_)
    if r is not None:
        return r
    out = []
    for a in direct_submsgs(ix, fn, mapping):
        for v_ in _split_on_msg(ix, ix.inline(sym.subst(a, mapping))):
            out.append(SubMsgSite(v_, fn, chain + (fn.pretty,)))
    if depth > 0:
        seen_calls = set()
        for p in ix.ok_paths(fn):
            interesting = [e for e in p.events if e.target is not None and constructs_submsg(ix, e.target)]
            if not interesting or not ix.feasible(p, mapping):
                continue
            for e in interesting:
                args2 = tuple(sym.subst(a, mapping) for a in e.args)
                sig = (e.target.key, args2)
                if sig in seen_calls:
                    continue
                seen_calls.add(sig)
                m2 = ix.param_map(e.target, args2)
                out.extend(reachable_submsgs(ix, e.target, m2, chain + (fn.pretty,), depth - 1))
    uniq = {}
    for s in out:
        uniq[(s.v, s.fn.key)] = s
    r = list(uniq.values())
    _REACH[mk_] = r
    return r


def path_submsgs(ix, p, depth=8):
    """SubMsg constructions possibly emitted along one path (own aggregates + callees')"""
    out = {}
    for v in path_values(p):
        for a in find_aggs(v, SUBMSG):
            a2 = ix.inline(a)
            out[(a2, p.fn.key)] = SubMsgSite(a2, p.fn, (p.fn.pretty,))
    for e in p.events:
        if e.target is None or getattr(e, "opened", False) or not constructs_submsg(ix, e.target):
            continue   # an opened call's own events follow it on the path: only what this path really calls counts
        m2 = ix.param_map(e.target, e.args)
        for s in reachable_submsgs(ix, e.target, m2, (p.fn.pretty,), depth):
            out[(s.v, s.fn.key)] = s
    return _resolve_ids(ix, p, list(out.values()))


def _resolve_ids(ix, p, sites):
    """a reply id computed by a helper (`reply_id_for(..)` returning one of a few constants): one site per constant
    the helper can return, restricted by what this path already knows about that call (`match id { 7 => .., other => .. }`)"""
    res = []
    for s in sites:
        idv = s.id
        if tag(idv) != "call" or ix.call_target(idv) is None:
            res.append(s)
            continue
        try:
            outs = ix.outcomes(idv) or []
        except Exception:
            outs = []
        vals = []
        for (_cp, ret, _m) in outs:
            r = ix.inline(ret)
            if tag(r) != "int":
                vals = None
                break
            vals.append(int(payload(r)[0]))
        if not vals:
            res.append(s)
            continue
        allowed = set(vals)
        for (at, o, _b, _l) in p.conds:
            if ix.inline(at) == ix.inline(idv) and isinstance(o, tuple):
                if o[0] == "eq":
                    allowed &= {int(o[1])}
                elif o[0] == "notin":
                    allowed -= {int(x) for x in o[1]}
        for n in sorted(allowed):
            v2 = sym.set_field(s.v, "id", sym.intc(n, "u64"))
            res.append(SubMsgSite(v2, s.fn, s.chain))
    return res


class ReplyTable:
    """dispatch of the engine's reply(): per (branch, id) the paths and the handler call"""

    def __init__(self, ix, contract="margined_engine"):
        self.fn = ix.entry(contract, "reply")
        self.ok = {}    # id(str) or 'other' -> list of paths
        self.err = {}
        self.unknown = []
        self.msg = None
        if self.fn is None:
            return
        fn = self.fn
        for i in range(fn.arg_count):
            if fn.locals[i + 1]["ty"].endswith("cosmwasm_std::Reply"):
                self.msg = sym.param(fn.key, i, fn.param_name(i))
        res_atom = sym.op("is_ok", sym.field(self.msg, "result")) if self.msg is not None else None
        idv = sym.field(self.msg, "id") if self.msg is not None else None
        for p in ix.paths(fn):
            branch = None
            ident = None
            for (atom, outcome, _bb, _ln) in p.conds:
                if atom == res_atom:
                    branch = outcome
                if atom == idv:
                    if outcome[0] == "eq":
                        ident = outcome[1]
                    elif outcome[0] == "notin":
                        ident = "other"
            if branch is None:
                self.unknown.append(p)
                continue
            tbl = self.ok if branch else self.err
            tbl.setdefault(ident if ident is not None else "any", []).append(p)
        # the per-id dispatch may live in a helper the entry point hands (id, response) to: open it
        for p in list(self.ok.get("any", [])):
            ev = next((e for e in p.events if e.target is not None and any(ix.inline(a) == idv for a in e.args)), None)
            if ev is None:
                continue
            opened = ix.expand_on(p, ev)
            if len(opened) == 1 and opened[0] is p:
                continue
            self.ok["any"].remove(p)
            for q in opened:
                ident = None
                for (atom, outcome, _bb, _ln) in q.conds:
                    if ix.inline(atom) == idv and isinstance(outcome, tuple):
                        if outcome[0] == "eq":
                            ident = outcome[1]
                        elif outcome[0] == "notin":
                            ident = ident or "other"
                self.ok.setdefault(ident if ident is not None else "any", []).append(q)
        if not self.ok.get("any"):
            self.ok.pop("any", None)

    def handler(self, ix, ident):
        """(event, reply fn param values) of the handler call for a successful sub-message with this id"""
        deps = None
        fn = self.fn
        for i in range(fn.arg_count):
            if "DepsMut" in fn.locals[i + 1]["ty"]:
                deps = sym.param(fn.key, i, fn.param_name(i))
        for p in self.ok.get(str(ident), []):
            for e in p.events:
                if e.target is not None and deps in e.args and not getattr(e, "opened", False):
                    return e
        return None
