"""Facts known on a path (A1 guard analysis).

facts_dnf(ix, path) returns a list of alternatives; each alternative is a set of
(atom value, outcome) pairs that hold whenever the path is taken *and* every
workspace callee it relies on returned successfully.  Callees contribute the
facts of their own success paths (substituted with the call-site arguments), so
guards hidden in `require_*` helpers or inlined into the handler look the same.
"""
from . import sym, paths as P
from .sym import tag, payload, kids

MAX_ALTS = 48
ROLE_LIBS = {"cw_controllers::Admin::execute_update_admin", "cw_controllers::Hooks::execute_add_hook",
             "cw_controllers::Hooks::execute_remove_hook"}

_MEMO = {}


def _import_call(ix, c, depth, want_ret=None):
    """alternatives contributed by a successful return of workspace call value c (with want_ret: by the paths on
    which a bool-returning helper returns that bool; a non-literal return value is added as a fact)"""
    fn = ix.call_target(c)
    if fn is None or depth <= 0:
        return [frozenset()]
    key = (id(ix), c, depth, want_ret)
    r = _MEMO.get(key)
    if r is not None:
        return r
    m = ix.param_map(fn, kids(c))
    alts = []
    try:
        ps = ix.ok_paths_at(fn, m)
    except P.TooManyPaths:
        ps = []
    for p in ps:
        extra = set()
        if want_ret is not None:
            rv = ix.inline(sym.subst(p.ret, m))
            if tag(rv) == "agg" and payload(rv)[1] == "Ok" and kids(rv):
                rv = kids(rv)[0]
            if tag(rv) == "bool":
                if bool(payload(rv)[0]) != want_ret:
                    continue
            else:
                neg = False
                while tag(rv) == "op" and payload(rv)[0] == "not":
                    rv, neg = kids(rv)[0], not neg
                extra.add((rv, (not want_ret) if neg else want_ret))
        for a in facts_dnf(ix, p, depth - 1):
            alt = frozenset((sym.subst(atom, m), outcome) for (atom, outcome) in a) | frozenset(extra)
            if _contradictory(ix, alt):
                continue   # e.g. a match on an enum parameter for which this call site passes another variant
            alts.append(alt)
    alts = list(dict.fromkeys(alts))
    if not alts:
        alts = [frozenset()]
    if len(alts) > MAX_ALTS:
        common = set(alts[0])
        for a in alts[1:]:
            common &= a
        alts = [frozenset(common)]
    _MEMO[key] = alts
    return alts


def _contradictory(ix, alt):
    """an alternative whose facts cannot hold together once the call-site arguments are known: a discriminant test of
    a value whose variant is known, a literal bool tested the other way"""
    for (atom, outcome) in alt:
        if tag(atom) == "op" and payload(atom)[0] == "discr" and isinstance(outcome, tuple) and kids(atom):
            v = ix.inline(kids(atom)[0])
            if tag(v) == "agg":
                var = payload(v)[1]
                if (outcome[0] == "variant" and outcome[1] != var) or (outcome[0] == "other" and var in outcome[1]):
                    return True
        if tag(atom) == "bool" and outcome in (True, False) and bool(payload(atom)[0]) != outcome:
            return True
        if tag(atom) == "op" and payload(atom)[0] in ("is_ok", "is_some") and outcome in (True, False) and kids(atom):
            v = ix.inline(kids(atom)[0])
            if tag(v) == "agg" and payload(v)[1] in ("Ok", "Some", "Err", "None") and (payload(v)[1] in ("Ok", "Some")) != outcome:
                return True    # `?` on a value that is a literal Err / Ok once the helper's outcome is known
    return False


def facts_dnf(ix, p, depth=4):
    base = set()
    imports = []
    seen_calls = set()

    def want(c):
        if tag(c) == "call" and c not in seen_calls and ix.call_target(c) is not None:
            seen_calls.add(c)
            imports.append(c)

    for (atom, outcome, _bb, _ln) in p.conds:
        base.add((atom, outcome))
        if tag(atom) == "op" and payload(atom)[0] == "is_ok" and outcome is True:
            want(kids(atom)[0])
        # a bool-returning helper the path branched on: the paths on which it returns that bool contribute
        a0, o0 = atom, outcome
        while tag(a0) == "op" and payload(a0)[0] == "not" and o0 in (True, False):
            a0, o0 = kids(a0)[0], (not o0)
        if tag(a0) == "unwrap":
            a0 = kids(a0)[0]
        if tag(a0) == "call" and o0 in (True, False) and ix.call_target(a0) is not None and "bool" in ix.call_target(a0).locals[0]["ty"] \
                and (a0, o0) not in seen_calls:
            seen_calls.add((a0, o0))
            imports.append((a0, o0))
    for e in p.events:
        if e.name in P.UNWRAPS and e.args:
            want(e.args[0])
        # library calls that check a role themselves: a fact only when their Result is propagated
        if e.name in ROLE_LIBS and propagated(p, e):
            base.add((sym.mk("happened", (e.name,), tuple(e.args)), True))
    if p.kind() == "dep":
        r = p.ret
        want(r)
    alts = [frozenset(base)]
    for c in imports:
        sub = _import_call(ix, c[0], depth, c[1]) if isinstance(c, tuple) else _import_call(ix, c, depth)
        new = []
        for a in alts:
            for b in sub:
                new.append(a | b)
                if len(new) > MAX_ALTS:
                    break
            if len(new) > MAX_ALTS:
                break
        if len(new) > MAX_ALTS:
            # fall back: keep only facts common to all callee alternatives
            common = set(sub[0])
            for b in sub[1:]:
                common &= b
            new = [a | frozenset(common) for a in alts]
        alts = new
    return alts


# ---------------------------------------------------------------- matchers
def loaded_item(ix, v, crate):
    """if v is (the unwrapped result of) a storage load, the item id, else None"""
    v = ix.inline(v)
    n = 0
    while tag(v) in ("unwrap", "ok") and n < 6:
        v = kids(v)[0]
        n += 1
    if tag(v) == "op" and payload(v)[0] in ("unwrap_or_default",):
        v = kids(v)[0]
    if tag(v) == "call":
        name = payload(v)[0]
        from .inter import READ_PRIMS
        if name in READ_PRIMS:
            return ix.storage_item(kids(v)[0], crate)
        if name in ("std::option::Option::unwrap_or_default", "std::option::Option::unwrap_or"):
            return loaded_item(ix, kids(v)[0], crate)
    return None


def is_field_of_item(ix, v, crate, item, fieldname):
    v = ix.inline(v)
    if tag(v) == "field" and payload(v)[0] == fieldname:
        return loaded_item(ix, kids(v)[0], crate) == item
    return False


def admin_const(v):
    """'crate::contract::OWNER' if v denotes that Admin/Hooks constant"""
    if tag(v) == "constdef":
        return payload(v)[0]
    return None


def holds_admin(ix, alt, const_pretty, sender):
    """does the alternative establish that `sender` is the admin stored in const_pretty?"""
    for (atom, outcome) in alt:
        t = tag(atom)
        if outcome is True and t == "unwrap":
            c = kids(atom)[0]
            if tag(c) == "call" and payload(c)[0] == "cw_controllers::Admin::is_admin":
                a = kids(c)
                if admin_const(a[0]) == const_pretty and a[2] == sender:
                    return "is_admin(%s, sender) tested true" % const_pretty.split("::")[-1]
        if outcome is True and t == "op" and payload(atom)[0] == "is_ok":
            c = kids(atom)[0]
            if tag(c) == "call":
                nm = payload(c)[0]
                a = kids(c)
                if nm == "cw_controllers::Admin::assert_admin" and admin_const(a[0]) == const_pretty and a[2] == sender:
                    return "assert_admin(%s, sender)?" % const_pretty.split("::")[-1]
        if t == "happened" and outcome is True:
            nm = payload(atom)[0]
            a = kids(atom)
            if nm == "cw_controllers::Admin::execute_update_admin" and admin_const(a[0]) == const_pretty:
                if sym.field(a[2], "sender") == sender:
                    return "execute_update_admin(%s, info) (library checks the admin)" % const_pretty.split("::")[-1]
            if nm in ("cw_controllers::Hooks::execute_add_hook", "cw_controllers::Hooks::execute_remove_hook"):
                if admin_const(a[1]) == const_pretty and sym.field(a[3], "sender") == sender:
                    return "%s(admin=%s, info) (library checks the admin)" % (nm.split("::")[-1], const_pretty.split("::")[-1])
    return None


def holds_eq(ix, alt, sender, pred):
    """an equality fact between `sender` and a value v with pred(v) true"""
    for (atom, outcome) in alt:
        if outcome is True and tag(atom) == "op" and payload(atom)[0] == "eq":
            a, b = kids(atom)
            if a == sender and pred(b):
                return True
            if b == sender and pred(a):
                return True
    return False


def propagated(p, e):
    """is the Result of event e propagated (?/unwrap'ed/returned) on path p"""
    r = e.result
    # returned as it is, or through wrappers that keep an Err an Err (map_err / From conversion of the error);
    # a result that merely occurs inside the returned value (unwrap_or_default, ok(), match with a fallback) is
    # NOT propagated: the caller would see Ok although the callee refused
    v = p.ret
    for _ in range(6):
        if v == r:
            return True
        if tag(v) == "call" and kids(v) and str(payload(v)[0]).split("::")[-1] in ("map_err", "from_residual", "into", "from"):
            v = kids(v)[0]
            continue
        break
    for (atom, outcome, _b, _l) in p.conds:
        if tag(atom) == "op" and payload(atom)[0] == "is_ok" and kids(atom)[0] == r and outcome is True:
            return True
    for e2 in p.events:
        if e2.name in P.UNWRAPS and e2.args and e2.args[0] == r:
            return True
    return False


# ---------------------------------------------------------------- per-callee satisfaction (no cross product)
def _own_facts(ix, p, m):
    out = set()
    for (atom, outcome, _bb, _ln) in p.conds:
        a = ix.inline(sym.subst(atom, m)) if m else ix.inline(atom)
        # a bool helper / closure that was inlined may bring its own negation: keep atoms in canonical polarity
        while tag(a) == "op" and payload(a)[0] == "not" and kids(a) and outcome in (True, False):
            a, outcome = kids(a)[0], (not outcome)
        out.add((a, outcome))
    for e in p.events:
        if e.name in ROLE_LIBS and propagated(p, e):
            h = sym.mk("happened", (e.name,), tuple(e.args))
            out.add((ix.inline(sym.subst(h, m)) if m else h, True))
    return out


def _imports(ix, p):
    """workspace calls whose success the path relies on: entries are call values, or (call value, bool) for a
    bool-returning helper the path branched on (`if can_do(..) {..}`): then only the callee paths returning that
    bool contribute"""
    cs = []
    seen = set()

    def want(c):
        if tag(c) == "call" and c not in seen and ix.call_target(c) is not None:
            seen.add(c)
            cs.append(c)
    for (atom, outcome, _bb, _ln) in p.conds:
        if tag(atom) == "op" and payload(atom)[0] == "is_ok" and outcome is True:
            want(kids(atom)[0])
        a0 = atom
        o0 = outcome
        while tag(a0) == "op" and payload(a0)[0] == "not" and o0 in (True, False):
            a0, o0 = kids(a0)[0], (not o0)
        if tag(a0) == "unwrap":
            a0 = kids(a0)[0]
        if tag(a0) == "call" and o0 in (True, False) and ix.call_target(a0) is not None and (a0, o0) not in seen:
            t = ix.call_target(a0)
            if "bool" in t.locals[0]["ty"]:
                seen.add((a0, o0))
                cs.append((a0, o0))
    for e in p.events:
        if e.name in P.UNWRAPS and e.args:
            want(e.args[0])
    if p.kind() == "dep":
        want(p.ret)
    return cs


def _sub_import(c2, m):
    return (sym.subst(c2[0], m), c2[1]) if isinstance(c2, tuple) else sym.subst(c2, m)


def callee_all_satisfy(ix, c, pred, depth=4):
    """every success path of workspace call value c (given in the caller's terms) satisfies pred, either by
    its own branch facts or through one of the callees it relies on.  c may be (call, bool): only the paths on
    which the helper returns that bool count (a non-literal return value becomes a fact itself)"""
    want_ret = None
    if isinstance(c, tuple):
        c, want_ret = c
    fn = ix.call_target(c)
    if fn is None or depth <= 0:
        return False
    m = ix.param_map(fn, kids(c))
    try:
        ps = ix.ok_paths_at(fn, m)
    except P.TooManyPaths:
        return False
    if not ps:
        return False
    considered = 0
    for p in ps:
        facts = _own_facts(ix, p, m)
        if want_ret is not None:
            r = ix.inline(sym.subst(sym.unwrap(p.ret) if tag(p.ret) in ("agg",) and payload(p.ret)[1] == "Ok" else p.ret, m))
            if tag(r) == "agg" and payload(r)[1] == "Ok" and kids(r):
                r = kids(r)[0]
            if tag(r) == "bool":
                if bool(payload(r)[0]) != want_ret:
                    continue
            else:
                neg = False
                while tag(r) == "op" and payload(r)[0] == "not":
                    r, neg = kids(r)[0], not neg
                facts = set(facts) | {(r, (not want_ret) if neg else want_ret)}
        considered += 1
        if pred(facts):
            continue
        if not any(callee_all_satisfy(ix, _sub_import(c2, m), pred, depth - 1) for c2 in _imports(ix, p)):
            return False
    return considered > 0


def path_satisfies(ix, q, pred, m=None, depth=4):
    """pred holds on path q (of a handler whose parameters map to entry terms by m): by q's own branch
    facts, or because a callee q relies on establishes it on all of its success paths"""
    m = m or {}
    if pred(_own_facts(ix, q, m)):
        return True
    for c in _imports(ix, q):
        if callee_all_satisfy(ix, _sub_import(c, m), pred, depth):
            return True
    return False
