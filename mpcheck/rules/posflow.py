"""Identity of positions and in-flight records in the engine (used by C10, C02, C11, C04)."""
from .. import sym, guards
from ..sym import tag, payload, kids

ENG = "margined_engine"
POS = "margined_engine:position"
TMP = "margined_engine:tmp-swap"
LIQ = "margined_engine:tmp-liquidator"


def _is_length_of(ix, v, nxt):
    """v is (an encoding of) the byte length of the input nxt"""
    if nxt is None:
        return False
    target = ix.inline(nxt)
    for x in sym.walk(ix.inline(v)):
        if tag(x) in ("call", "op") and str(payload(x)[0]).split("::")[-1] in ("len", "PtrMetadata") and kids(x) and ix.inline(kids(x)[0]) == target:
            return True
    return False


def hash_inputs(ix, key):
    """the address byte strings fed to the position-key hasher, in order: [vamm, trader] (framing inputs such as a
    length prefix are left out; see hash_framing)"""
    raw = hash_inputs_raw(ix, key)
    return [v for i, v in enumerate(raw) if not _is_length_of(ix, v, raw[i + 1] if i + 1 < len(raw) else None)]


def hash_framing(ix, key):
    """'length-prefixed' when every variable-length input but the last is preceded by its length, 'constant-separated'
    when a literal stands between them, else 'none' (then two different pairs can concatenate to the same bytes)"""
    raw = hash_inputs_raw(ix, key)
    var = [i for i, v in enumerate(raw) if not _is_length_of(ix, v, raw[i + 1] if i + 1 < len(raw) else None)
           and tag(ix.inline(v)) not in ("int", "const", "bytes")]
    if len(var) <= 1:
        return "single-input"
    ok_len = all(i > 0 and _is_length_of(ix, raw[i - 1], raw[i]) for i in var[:-1])
    if ok_len:
        return "length-prefixed"
    ok_sep = all(any(tag(ix.inline(raw[j])) in ("int", "const", "bytes") for j in range(a + 1, b)) for a, b in zip(var, var[1:]))
    return "constant-separated" if ok_sep else "none"


def hash_inputs_raw(ix, key):
    """every byte string fed to the position-key hasher, in order"""
    out = []
    key = ix.inline(key)
    seen = set()

    def rec(v):
        if v in seen:
            return
        seen.add(v)
        t = tag(v)
        if t == "mutby":
            callv, old = kids(v)
            rec(old)
            if tag(callv) == "call" and payload(callv)[0].endswith("Digest::update"):
                out.append(kids(callv)[1])
            return
        for k in kids(v):
            rec(k)
    rec(key)
    return out


def load_key(ix, v):
    """for (the unwrapped result of) a load from the position bucket: the key value, else None"""
    v = ix.inline(v)
    n = 0
    while tag(v) in ("unwrap", "ok") and n < 8:
        v = kids(v)[0]
        n += 1
    if tag(v) == "call" and payload(v)[0] in ("std::option::Option::unwrap_or_default", "std::option::Option::unwrap_or"):
        return load_key(ix, kids(v)[0])
    if tag(v) == "call" and payload(v)[0].startswith("cosmwasm_storage::") and payload(v)[0].endswith(("::load", "::may_load")):
        if ix.storage_item(kids(v)[0], ENG) == POS and len(kids(v)) > 1:
            return kids(v)[1]
    return None


class Ident:
    """resolves 'whose position is this value' to a (vamm, trader) pair of expression trees"""

    def __init__(self, ix):
        self.ix = ix

    def position_key(self, pv, depth=8):
        """(vamm, trader) trees of a Position-typed value; None components if not resolvable"""
        ix = self.ix
        return (self.component(pv, "vamm", depth), self.component(pv, "trader", depth))

    def component(self, pv, which, depth=8):
        """the value of pv.<which> traced to its origin"""
        ix = self.ix
        f = ix.inline(sym.field(ix.inline(pv), which))
        return self.origin(f, which, depth)

    def origin(self, f, which, depth):
        ix = self.ix
        if depth <= 0:
            return f
        if tag(f) == "field" and payload(f)[0] == which:
            base = ix.inline(kids(f)[0])
            # a load from the position bucket: the key it was loaded with decides
            lk = load_key(ix, base)
            if lk is not None:
                ins = hash_inputs(ix, lk)
                if len(ins) == 2:
                    return self.origin(ix.inline(ins[0 if which == "vamm" else 1]), which, depth - 1)
            # a multi-outcome getter: all outcomes must agree
            if tag(base) == "call":
                outs = ix.outcomes(base)
                if outs:
                    vals = set()
                    for (_p, ret, _m) in outs:
                        r = ix.inline(sym.field(ix.inline(ret), which))
                        vals.add(self.origin(r, which, depth - 1))
                    if len(vals) == 1:
                        return vals.pop()
            if tag(base) == "mutby":
                return self.origin(ix.inline(sym.field(kids(base)[1], which)), which, depth - 1)
        return f


def is_tmp_field(ix, v, name):
    v = ix.inline(v)
    return tag(v) == "field" and payload(v)[0] == name and guards.loaded_item(ix, kids(v)[0], ENG) == TMP


def contains(v, needle):
    return needle in set(sym.walk(v))


def same_address(ix, v, leaf):
    """v is `leaf` itself, possibly passed through wrappers that either return their argument unchanged or fail
    (Api::addr_validate, Addr::unchecked, unwrap/?): the named account, not merely something computed from it"""
    v = ix.inline(v)
    for _ in range(12):
        if v == leaf:
            return True
        t = tag(v)
        if t in ("unwrap", "ok") or (t == "op" and payload(v)[0] in ("unwrap", "try")):
            v = ix.inline(kids(v)[0])
        elif t == "call" and str(payload(v)[0]).endswith("Api::addr_validate") and len(kids(v)) == 2:
            v = ix.inline(kids(v)[1])
        elif t == "call" and str(payload(v)[0]).endswith("Addr::unchecked") and len(kids(v)) == 1:
            v = ix.inline(kids(v)[0])
        else:
            return False
    return False
