"""C19 — Signed integers behave like mathematical integers (A5: finite-domain interpretation).

Every Integer operation touches its operands only through the sign flags, comparisons of the two
magnitudes, zero tests, and Uint128 arithmetic on the magnitudes.  The complete case space
  sign(a) x sign(b) x (a==0?, b==0?, |a| <,=,> |b|)
(24 consistent cases per binary operation, both encodings of zero included) is enumerated; in each case
the unique feasible path of the operation is selected from the extracted MIR paths and its result tree
is evaluated to (sign flag, magnitude term); that is compared with the mathematical table.
"""
from .. import sym, guards, norm
from ..sym import tag, payload, kids
from ..inter import is_integer_fn
from .common import *

EXPLANATION = ("R19.1 complete sign x magnitude-order case tables of checked_add/sub/mul/div, Add/Sub/Mul/Div, eq, cmp/partial_cmp, "
               "is_negative/is_positive/is_zero, abs, invert_sign, constructors, Display's sign, compared with the mathematical table; "
               "checked and unchecked forms agree; checked forms fail exactly when the magnitude operation overflows / divisor is zero; "
               "R19.2 a zero result is observationally zero (== 0, not negative, compares Equal to 0, prints without '-'); R19.3 parsing "
               "uses the unsigned 128-bit parser for the magnitude on both sign branches.")
NOT_DECIDED = "the magnitude arithmetic itself (delegated to Uint128, trusted); behaviour at the 128-bit boundary beyond 'fails iff the Uint128 operation fails'."

INT = "margined_common::integer::Integer"


class Undet(Exception):
    pass


class Panic(Exception):
    pass


class Case:
    def __init__(self, sa, sb, za, zb, order):
        self.sa, self.sb, self.za, self.zb, self.order = sa, sb, za, zb, order

    def __repr__(self):
        return "a=%s%s b=%s%s |a|%s|b|" % ("-" if self.sa else "+", "0" if self.za else "A", "-" if self.sb else "+", "0" if self.zb else "B",
                                           {"lt": "<", "eq": "=", "gt": ">"}[self.order])


def cases():
    out = []
    for sa in (False, True):
        for sb in (False, True):
            for (za, zb, order) in ((True, True, "eq"), (True, False, "lt"), (False, True, "gt"), (False, False, "lt"), (False, False, "eq"), (False, False, "gt")):
                out.append(Case(sa, sb, za, zb, order))
    return out


def unary_cases():
    return [Case(s, False, z, True, "eq" if z else "gt") for s in (False, True) for z in (False, True)]


# magnitude terms: 'A', 'B', '0', ('add',x,y), ('sub',x,y), ('mul',x,y), ('div',x,y), ('int', n)
def mag_zero(t, c):
    if t == "A":
        return c.za
    if t == "B":
        return c.zb
    if t == "0":
        return True
    if t[0] == "int":
        return t[1] == 0
    if t[0] == "add":
        return mag_zero(t[1], c) and mag_zero(t[2], c)
    if t[0] == "sub":
        if t[1:] == ("A", "B") or t[1:] == ("B", "A"):
            return c.order == "eq"
        if mag_zero(t[2], c):
            return mag_zero(t[1], c)
        raise Undet("zero-ness of %s" % (t,))
    if t[0] == "mul":
        return mag_zero(t[1], c) or mag_zero(t[2], c)
    if t[0] == "div":
        if t[1:] == ("A", "B"):
            return c.za or c.order == "lt"
        if mag_zero(t[1], c):
            return True
        raise Undet("zero-ness of %s" % (t,))
    raise Undet("zero-ness of %s" % (t,))


def simp(t, c):
    """drop zero operands so that A+0 == A etc. (terms are compared up to the identities of 0)"""
    if isinstance(t, tuple) and t[0] in ("add", "sub", "mul", "div"):
        x, y = simp(t[1], c), simp(t[2], c)
        zx = x == "0" or (x in ("A", "B") and mag_zero(x, c))
        zy = y == "0" or (y in ("A", "B") and mag_zero(y, c))
        if t[0] == "add":
            if zx and zy:
                return "0"
            if zx:
                return y
            if zy:
                return x
            return ("add",) + tuple(sorted((x, y), key=str))
        if t[0] == "sub":
            if zy:
                return x if not zx else "0"
            if x == y or ((x, y) in (("A", "B"), ("B", "A")) and c.order == "eq"):
                return "0"
            return ("sub", x, y)
        if t[0] == "mul":
            if zx or zy:
                return "0"
            return ("mul",) + tuple(sorted((x, y), key=str))
        if t[0] == "div":
            if zx:
                return "0"
            return ("div", x, y)
    if t in ("A", "B") and mag_zero(t, c):
        return "0"
    if isinstance(t, tuple) and t[0] == "int":
        return "0" if t[1] == 0 else t
    return t


_simp0 = simp


def simp(t, c):
    r = _simp0(t, c)
    try:
        if r != "0" and mag_zero(r, c):
            return "0"
    except Undet:
        pass
    return r


class AInt:
    def __init__(self, neg, mag):
        self.neg, self.mag = neg, mag


class AI:
    """abstract interpreter of Integer functions over one case"""

    def __init__(self, ctx, case):
        self.ctx = ctx
        self.ix = ctx.ix
        self.c = case
        self.depth = 0

    def call(self, fn, args):
        self.depth += 1
        if self.depth > 12:
            raise Undet("recursion")
        try:
            paths = self.ix.paths(fn)
            env = {}
            for i, a in enumerate(args):
                env[sym.param(fn.key, i, fn.param_name(i))] = a
            feas = []
            for p in paths:
                if p.exit == "cut":
                    continue
                ok = True
                for (at, o, _b, _l) in p.conds:
                    v = self.ev(at, env)
                    if isinstance(o, tuple):
                        # enum / integer decisions
                        if o[0] == "variant":
                            if v != o[1]:
                                ok = False
                        elif o[0] == "other":
                            if v in o[1]:
                                ok = False
                        elif o[0] == "eq":
                            if str(v) != o[1] and not (isinstance(v, bool) and str(int(v)) == o[1]):
                                ok = False
                        elif o[0] == "notin":
                            if str(v) in o[1] or (isinstance(v, bool) and str(int(v)) in o[1]):
                                ok = False
                    else:
                        if v is not o:
                            ok = False
                    if not ok:
                        break
                if ok:
                    feas.append(p)
            if len(feas) != 1:
                raise Undet("%d feasible paths of %s in case %r" % (len(feas), fn.pretty, self.c))
            p = feas[0]
            if p.exit == "abort":
                return ("panic",)
            return self.ev(p.ret, env), p
        finally:
            self.depth -= 1

    def apply(self, f, args, env):
        """a closure value (or a workspace function item) applied to abstract arguments"""
        t, pl, ks = sym.NODES[f]
        if t == "closure":
            fn = self.ctx.world.by_pretty.get(pl[0]) or self.ctx.world.fns.get(pl[0])
            if fn is not None and fn.arg_count == 1 + len(args):
                r = self.call(fn, [self.ev(f, env)] + list(args))
                return r if r == ("panic",) else r[0]
        if t == "fnref":
            fn = self.ctx.world.by_pretty.get(str(pl[0])) or (self.ctx.world.fns.get(pl[1]) if len(pl) > 1 else None)
            if fn is not None and fn.arg_count == len(args):
                r = self.call(fn, list(args))
                return r if r == ("panic",) else r[0]
        raise Undet("application of %s" % sym.show(f, 3))

    def ev(self, v, env):
        c = self.c
        if v in env:
            return env[v]
        t, pl, ks = sym.NODES[v]
        if t == "bool":
            return bool(pl[0])
        if t == "int":
            return ("int", int(pl[0]))
        if t == "field":
            base = self.ev(ks[0], env)
            if isinstance(base, AInt):
                if pl[0] == "negative":
                    return base.neg
                if pl[0] == "value":
                    return base.mag
            if isinstance(base, tuple) and base and base[0] == "tuple":
                return base[1][int(pl[0])]
            if isinstance(base, tuple) and base and base[0] == "closure" and pl[0].isdigit():
                return base[2][int(pl[0])]
            raise Undet("field %s of %r" % (pl[0], base))
        if t == "agg":
            adt, variant, names = pl
            if adt.endswith("integer::Integer"):
                d = dict(zip(names, ks))
                return AInt(self.ev(d["negative"], env), self.ev(d["value"], env))
            if adt.endswith("result::Result") or adt.endswith("option::Option"):
                if variant in ("Ok", "Some"):
                    return ("ok", self.ev(ks[0], env))
                return ("err",)
            if adt.endswith("cmp::Ordering"):
                return variant
            if adt.endswith("OverflowError") or adt.endswith("DivideByZeroError"):
                return ("errval",)
            if not ks:
                # a field-less enum value handed around inside the implementation (e.g. which operation an error names)
                return ("enum", adt, variant)
            raise Undet("aggregate %s" % adt)
        if t == "rec":
            base = self.ev(ks[0], env)
            if isinstance(base, AInt):
                r = AInt(base.neg, base.mag)
                for n, x in zip(pl, ks[1:]):
                    if n == "negative":
                        r.neg = self.ev(x, env)
                    elif n == "value":
                        r.mag = self.ev(x, env)
                return r
            raise Undet("rec on %r" % (base,))
        if t in ("unwrap",):
            x = self.ev(ks[0], env)
            if isinstance(x, tuple) and x and x[0] == "ok":
                return x[1]
            if isinstance(x, tuple) and x and x[0] == "err":
                raise Undet("unwrap of an error in case %r" % (c,))
            return x
        if t == "ok":
            return ("ok", self.ev(ks[0], env))
        if t == "try":
            return self.ev(ks[0], env)
        if t == "errfrom":
            return ("err",)
        if t == "tuple":
            return ("tuple", [self.ev(k, env) for k in ks])
        if t == "op":
            nm = pl[0]
            if nm == "not":
                return not self.ev(ks[0], env)
            if nm == "is_ok":
                x = self.ev(ks[0], env)
                return isinstance(x, tuple) and x and x[0] == "ok"
            if nm == "is_some":
                x = self.ev(ks[0], env)
                return isinstance(x, tuple) and x and x[0] == "ok"
            if nm == "is_zero":
                return mag_zero(self.ev(ks[0], env), c)
            if nm == "discr":
                x = self.ev(ks[0], env)
                if isinstance(x, tuple) and x and x[0] in ("ok", "err"):
                    return "Ok" if x[0] == "ok" else "Err"
                return x
            if nm in ("u.checked_add", "u.checked_mul", "u.add", "u.mul", "u.checked_sub", "u.sub", "u.checked_div", "u.div"):
                a, b = self.ev(ks[0], env), self.ev(ks[1], env)
                base = nm.split(".")[1].replace("checked_", "")
                checked = "checked" in nm
                if base == "sub":
                    # defined iff a >= b
                    ge = self.mag_ge(a, b)
                    if not ge:
                        if checked:
                            return ("err",)
                        raise Panic("unsigned subtraction underflow")
                if base == "div":
                    if mag_zero(b, c):
                        if checked:
                            return ("err",)
                        raise Panic("division by zero")
                term = (base, a, b)
                return ("ok", term) if checked else term
            if nm == "u.abs_diff":
                a, b = self.ev(ks[0], env), self.ev(ks[1], env)
                return ("sub", a, b) if self.mag_ge(a, b) else ("sub", b, a)
            if nm in ("lt", "le", "gt", "ge", "eq", "ne"):
                a, b = self.ev(ks[0], env), self.ev(ks[1], env)
                if isinstance(a, bool) and isinstance(b, bool):
                    return (a == b) if nm == "eq" else (a != b) if nm == "ne" else None
                if isinstance(a, AInt) or isinstance(b, AInt):
                    raise Undet("comparison of Integers inside Integer code: %s" % nm)
                o = self.mag_cmp(a, b)
                return {"lt": o == "lt", "le": o in ("lt", "eq"), "gt": o == "gt", "ge": o in ("gt", "eq"), "eq": o == "eq", "ne": o != "eq"}[nm]
            if nm in ("cmp", "partial_cmp"):
                a, b = self.ev(ks[0], env), self.ev(ks[1], env)
                if isinstance(a, bool) and isinstance(b, bool):
                    # bool ordering: false < true (`other.is_negative().cmp(&self.is_negative())`)
                    o = "Equal" if a == b else ("Less" if (not a and b) else "Greater")
                    return ("ok", o) if nm == "partial_cmp" else o
                o = {"lt": "Less", "eq": "Equal", "gt": "Greater"}[self.mag_cmp(a, b)]
                return ("ok", o) if nm == "partial_cmp" else o
            raise Undet("op %s" % nm)
        if t == "call":
            name = pl[0]
            fn = self.ctx.world.by_pretty.get(name)
            if fn is not None:
                args = [self.ev(k, env) for k in ks]
                r = self.call(fn, args)
                if r == ("panic",):
                    return r
                return r[0]
            if name.startswith(("std::fmt::", "core::fmt::")) or name.endswith("::to_string"):
                return ("ok", "unit")  # formatting succeeds; only which writes happen matters
            short = name.split("::")[-1]
            if name.startswith(("std::result::Result::", "std::option::Option::", "core::result::Result::", "core::option::Option::")) and \
                    short in ("map", "map_err", "and_then", "ok", "ok_or", "ok_or_else", "or_else") and ks:
                # a combinator is the `match` it abbreviates: the closure runs on the payload of the variant it is for
                x = self.ev(ks[0], env)
                if not (isinstance(x, tuple) and x and x[0] in ("ok", "err")):
                    raise Undet("call %s on %r" % (name, x))
                if short in ("map", "and_then"):
                    if x[0] == "err":
                        return x
                    r = self.apply(ks[1], [x[1]], env)
                    return ("ok", r) if short == "map" else r
                if short in ("map_err", "ok", "ok_or", "ok_or_else"):
                    return x if x[0] == "ok" else ("err",)
            raise Undet("call %s" % name)
        if t == "closure":
            return ("closure", pl[0], [self.ev(k, env) for k in ks])
        if t == "constdef" and pl[0].endswith("Integer::ZERO"):
            return AInt(False, "0")
        raise Undet("value %s" % sym.show(v, 3))

    def mag_cmp(self, a, b):
        c = self.c
        a, b = simp(a, c), simp(b, c)
        if a == b:
            return "eq"
        if a == "A" and b == "B":
            return c.order
        if a == "B" and b == "A":
            return {"lt": "gt", "eq": "eq", "gt": "lt"}[c.order]
        if a == "0":
            return "eq" if b == "0" else "lt"
        if b == "0":
            return "gt"
        raise Undet("compare %s with %s" % (a, b))

    def mag_ge(self, a, b):
        return self.mag_cmp(a, b) in ("gt", "eq")


def math_binary(op, c):
    """(sign in '+','-','0', magnitude term) of a op b; None when undefined (division by zero)"""
    A, B = "A", "B"
    sa, sb = c.sa and not c.za, c.sb and not c.zb  # mathematical signs: zero has none
    if op == "add" or op == "sub":
        sb2 = sb if op == "add" else (not sb and not c.zb)
        if c.za and c.zb:
            return ("0", "0")
        if c.za:
            return ("-" if sb2 else "+", B)
        if c.zb:
            return ("-" if sa else "+", A)
        if sa == sb2:
            return ("-" if sa else "+", ("add", A, B))
        # opposite signs
        if c.order == "eq":
            return ("0", "0")
        if c.order == "gt":
            return ("-" if sa else "+", ("sub", A, B))
        return ("-" if sb2 else "+", ("sub", B, A))
    if op == "mul":
        if c.za or c.zb:
            return ("0", "0")
        return ("-" if sa != sb else "+", ("mul", A, B))
    if op == "div":
        if c.zb:
            return None
        if c.za or c.order == "lt":
            return ("0", "0")
        return ("-" if sa != sb else "+", ("div", A, B))


def run(ctx):
    ix = ctx.ix
    w = ctx.world
    ctx.rule("R19.1", "case tables of the arithmetic operations equal the mathematical tables; checked/unchecked agree; failure exactly on overflow / zero divisor", 8 * 24)
    ctx.rule("R19.2", "a zero result is observationally zero (eq, is_negative, cmp, Display)", 24)
    ctx.rule("R19.3", "observers (eq, cmp, partial_cmp, sign predicates, abs, invert_sign, Display) agree with the mathematical value; parsing uses the u128 parser", 40)
    # the type's named constants: ZERO is the (non-negative) zero, MAX the largest magnitude with a positive sign,
    # MIN the same magnitude with a negative sign - read from the compiler's evaluated values
    import re as _re
    want_consts = {"ZERO": ("0_u128", "false"), "MAX": ("u128::MAX", "false"), "MIN": ("u128::MAX", "true")}
    for cname, (wv, wn) in sorted(want_consts.items()):
        c_ = w.consts_by_pretty.get("margined_common::integer::Integer::" + cname)
        if c_ is None:
            ctx.lost("R19.3", "associated constant Integer::%s" % cname)
            continue
        val = c_.get("val", "")
        mv_ = _re.search(r"Uint128\(([^)]*)\)", val)
        mn_ = _re.search(r"negative: (true|false)", val)
        okc = bool(mv_ and mn_ and mv_.group(1) == wv and mn_.group(1) == wn)
        ctx.inst("R19.3", "constant:%s" % cname, okc, "%s:%s" % (c_.get("file", ""), c_.get("line", "")),
                 "Integer::%s = %s (expected magnitude %s, negative: %s)" % (cname, val.replace("{{", "{").replace("}}", "}")[:120], wv, wn))

    def F(name):
        for f in w.crate_fns("margined_common"):
            if is_integer_fn(f.pretty) and f.pretty.endswith(name):
                return f
        return None
    fns = {
        "checked_add": F("Integer::checked_add"), "checked_sub": F("Integer::checked_sub"), "checked_mul": F("Integer::checked_mul"), "checked_div": F("Integer::checked_div"),
        "add": F("std::ops::Add>::add"), "sub": F("std::ops::Sub>::sub"), "mul": F("std::ops::Mul>::mul"), "div": F("std::ops::Div>::div"),
        "eq": F("std::cmp::PartialEq>::eq"), "cmp": F("std::cmp::Ord>::cmp"), "partial_cmp": F("std::cmp::PartialOrd>::partial_cmp"),
        "is_negative": F("Integer::is_negative"), "is_positive": F("Integer::is_positive"), "is_zero": F("Integer::is_zero"),
        "abs": F("Integer::abs"), "invert_sign": F("Integer::invert_sign"), "new_negative": F("Integer::new_negative"), "new_positive": F("Integer::new_positive"),
        "display": F("std::fmt::Display>::fmt"), "from_str": F("std::str::FromStr>::from_str"),
    }
    for k, f in fns.items():
        if f is None:
            ctx.lost("R19.1", "Integer::%s" % k)
    if any(f is None for f in fns.values()):
        return
    for f in fns.values():
        ctx.analysed["functions"].add(f.pretty)

    def observe_zero(ai, res, what, c, rule="R19.2"):
        """res must behave as zero"""
        zero = AInt(False, "0")
        probs = []
        try:
            if ai.call(fns["eq"], [res, zero])[0] is not True:
                probs.append("== 0 is false")
            if ai.call(fns["is_negative"], [res])[0] is not False:
                probs.append("is_negative() is true")
            if ai.call(fns["is_positive"], [res])[0] is not True:
                probs.append("is_positive() is false")
            if ai.call(fns["cmp"], [res, zero])[0] != "Equal":
                probs.append("cmp(0) != Equal")
            if ai.call(fns["cmp"], [zero, res])[0] != "Equal":
                probs.append("0.cmp(x) != Equal")
        except Undet as e:
            probs.append("undetermined: %s" % e)
        return probs

    results = {}
    for opn in ("add", "sub", "mul", "div"):
        for variant in ("checked_" + opn, opn):
            f = fns[variant]
            for c in cases():
                ai = AI(ctx, c)
                a, b = AInt(c.sa, "A"), AInt(c.sb, "B")
                key = "%s:%r" % (variant, c)
                want = math_binary(opn, c)
                try:
                    r = ai.call(f, [a, b])
                except Panic:
                    r = ("panic",)
                except Undet as e:
                    ctx.inst("R19.1", "case:" + key, False, f.where(), "undetermined: %s" % e)
                    continue
                if r == ("panic",):
                    got = "panic"
                else:
                    val = r[0]
                    if isinstance(val, tuple) and val and val[0] == "ok":
                        val = val[1]
                    elif isinstance(val, tuple) and val and val[0] == "err":
                        val = "err"
                    got = val
                results[key] = got
                if want is None:
                    ok = got in ("err", "panic") and (got == "err") == variant.startswith("checked")
                    ctx.inst("R19.1", "case:" + key, ok, f.where(), "division by zero -> %s (required: %s)" % (got, "Err" if variant.startswith("checked") else "abort"))
                    continue
                if not isinstance(got, AInt):
                    ctx.inst("R19.1", "case:" + key, False, f.where(), "operation fails (%s) where the mathematical result %s%s exists (up to overflow of the magnitude operation)" % (got, want[0], want[1]))
                    continue
                try:
                    gm = simp(got.mag, c)
                    wm = simp(want[1], c)
                    gz = mag_zero(got.mag, c)
                except Undet as e:
                    ctx.inst("R19.1", "case:" + key, False, f.where(), "undetermined: %s" % e)
                    continue
                ok = gm == wm
                detail = "result (%s, %s); mathematics: %s%s" % ("-" if got.neg else "+", gm, want[0], wm)
                if want[0] == "0":
                    ok = ok and gz
                    probs = observe_zero(ai, got, key, c)
                    ctx.inst("R19.2", "zero:" + key, not probs and gz, f.where(), "zero result encoded as (negative=%s, %s): %s" % (got.neg, gm, "; ".join(probs) or "observationally zero"))
                else:
                    ok = ok and (got.neg == (want[0] == "-"))
                ctx.inst("R19.1", "case:" + key, ok, f.where(), detail)
        # checked vs unchecked agreement is implied by both matching the same table; record it explicitly
        dis = []
        for c in cases():
            k1, k2 = "checked_%s:%r" % (opn, c), "%s:%r" % (opn, c)
            g1, g2 = results.get(k1), results.get(k2)
            if isinstance(g1, AInt) and isinstance(g2, AInt):
                try:
                    same = simp(g1.mag, c) == simp(g2.mag, c) and (g1.neg == g2.neg or mag_zero(g1.mag, c))
                except Undet:
                    same = False
                if not same:
                    dis.append(repr(c))
        ctx.inst("R19.1", "checked-vs-unchecked:%s" % opn, not dis, fns[opn].where(), "disagreeing cases: %s" % (dis or "none"))

    # ---- observers ---------------------------------------------------------
    for c in cases():
        ai = AI(ctx, c)
        a, b = AInt(c.sa, "A"), AInt(c.sb, "B")
        na, nb = c.sa and not c.za, c.sb and not c.zb
        # mathematical comparison
        if na != nb:
            want = "Less" if na else "Greater"
        elif c.za and c.zb:
            want = "Equal"
        else:
            o = c.order
            if na:  # both negative: larger magnitude is smaller
                o = {"lt": "gt", "eq": "eq", "gt": "lt"}[o]
            want = {"lt": "Less", "eq": "Equal", "gt": "Greater"}[o]
        for nm in ("cmp", "partial_cmp", "eq"):
            try:
                r = ai.call(fns[nm], [a, b])[0]
                if nm == "partial_cmp":
                    r = r[1] if isinstance(r, tuple) else r
                ok = (r == want) if nm != "eq" else (r is (want == "Equal"))
                ctx.inst("R19.3", "%s:%r" % (nm, c), ok, fns[nm].where(), "%s gives %s; mathematics: %s" % (nm, r, want))
            except Undet as e:
                ctx.inst("R19.3", "%s:%r" % (nm, c), False, fns[nm].where(), "undetermined: %s" % e)
    for c in unary_cases():
        ai = AI(ctx, c)
        a = AInt(c.sa, "A")
        na = c.sa and not c.za
        checks = [("is_negative", na), ("is_positive", not na), ("is_zero", c.za)]
        for nm, want in checks:
            try:
                r = ai.call(fns[nm], [a])[0]
                ctx.inst("R19.3", "%s:%r" % (nm, c), r is want, fns[nm].where(), "%s -> %s, required %s" % (nm, r, want))
            except Undet as e:
                ctx.inst("R19.3", "%s:%r" % (nm, c), False, fns[nm].where(), "undetermined: %s" % e)
        for nm in ("abs", "invert_sign"):
            try:
                r = ai.call(fns[nm], [a])[0]
                if nm == "abs":
                    ok = simp(r.mag, c) == simp("A", c) and (r.neg is False or c.za and not observe_zero(ai, r, nm, c))
                else:
                    ok = simp(r.mag, c) == simp("A", c) and ((r.neg == (not na)) if not c.za else not observe_zero(ai, r, nm, c))
                ctx.inst("R19.3", "%s:%r" % (nm, c), ok, fns[nm].where(), "%s -> (negative=%s, %s)" % (nm, r.neg, simp(r.mag, c)))
            except Undet as e:
                ctx.inst("R19.3", "%s:%r" % (nm, c), False, fns[nm].where(), "undetermined: %s" % e)
        # constructors
        for nm, neg in (("new_positive", False), ("new_negative", True)):
            try:
                r = ai.call(fns[nm], ["A"])[0]
                if c.sa:
                    continue
                ok = simp(r.mag, c) == simp("A", c) and ((r.neg == neg) if not c.za else not observe_zero(ai, r, nm, c))
                ctx.inst("R19.3", "%s:%s" % (nm, "zero" if c.za else "nonzero"), ok, fns[nm].where(), "%s(%s) -> (negative=%s)" % (nm, "0" if c.za else "A", r.neg))
            except Undet as e:
                ctx.inst("R19.3", "%s:%s" % (nm, "zero" if c.za else "nonzero"), False, fns[nm].where(), "undetermined: %s" % e)
        # Display writes '-' iff mathematically negative
        try:
            ai2 = AI(ctx, c)
            r, p = ai2.call(fns["display"], [a, "fmt"])
            wrote_minus = any(e.name.endswith("write_char") for e in p.events)
            ctx.inst("R19.3", "display-sign:%r" % c, wrote_minus == na, fns["display"].where(), "writes '-': %s; required: %s" % (wrote_minus, na))
        except Undet as e:
            ctx.inst("R19.3", "display-sign:%r" % c, False, fns["display"].where(), "undetermined: %s" % e)
    # parsing: magnitude through the unsigned parser on both branches
    f = fns["from_str"]
    parsers = set()
    convs = set()
    for g in [f] + [x for x in w.crate_fns("margined_common") if x.pretty.startswith(f.pretty + "::")]:
        for bi in g.reachable():
            t = g.blocks[bi]["term"]
            if t["k"] == "call" and t["callee"]:
                if t["callee"]["name"] == "parse":
                    parsers.add(tuple(t["callee"]["args"]))
                if t["callee"]["name"] == "from" and "Integer" in (t["callee"].get("impl_self") or t["callee"].get("self_ty") or ""):
                    convs.add(tuple(t["callee"]["args"]))
    okp = parsers and all("u128" in " ".join(a) and "i128" not in " ".join(a) for a in parsers) and not any("i128" in " ".join(a) or "i64" in " ".join(a) for a in convs)
    ctx.inst("R19.3", "from-str-parser", bool(okp), f.where(), "str::parse instantiations %s; signed conversions used %s" % (sorted(parsers), sorted(convs)))
    bad = None
    for p in ix.ok_paths(f):
        r = sym.unwrap(p.ret)
        ri = r
        if tag(ri) == "call" and payload(ri)[0].endswith(("Integer::new_negative", "Integer::new_positive")):
            continue
        bad = bad or sym.show(ri, 4)
    ctx.inst("R19.3", "from-str-constructors", bad is None, f.where(), "every success path builds the value with new_negative / new_positive%s" % ("" if bad is None else ": found %s" % bad))
    # the parser refuses only what the magnitude parser refuses: every failing path of from_str propagates the failure of
    # its u128 parse (`?`); a rejection of its own (a length or character guard) can refuse the string form of a value
    # that exists (round-13 seed C19o: a 39-character limit applied before the sign was stripped)
    badr = None
    n_err = 0
    try:
        for p in ix.paths(f):
            if p.kind() != "err":
                continue
            n_err += 1
            r = p.ret
            inner = kids(r)[0] if tag(r) == "errfrom" and kids(r) else None
            while inner is not None and tag(inner) in ("as", "unwrap_err", "try") and kids(inner):
                inner = kids(inner)[0]
            if not (inner is not None and tag(inner) == "call"):
                badr = badr or "from_str fails with an error of its own (%s) instead of propagating the magnitude parser's" % sym.show(r, 4)[:120]
    except Exception as e:
        badr = "undetermined: %s" % e
    ctx.inst("R19.3", "from-str-refuses-only-what-u128-refuses", badr is None and n_err > 0, f.where(), badr or "%d failing paths, each the propagated failure of the u128 parse" % n_err)
