"""C12 — Trading fees are exact, charged once, and routed to the right pools."""
from .. import sym, guards, arms, model, norm
from ..sym import tag, payload, kids
from ..norm import N, match, hole, anyhole
from .common import *
from .em import *

EXPLANATION = ("R12.1 number of fee-transfer invocations along every chain path (Open: one across both legs of a reversal; Close: one "
               "unless the fee base is zero; Liquidate/PayFunding/Deposit/Withdraw: none); R12.2 fees_paid is stored false by every "
               "execute arm, set true only before the chained increase after a reversal, and the increase reply charges only when it "
               "is false; R12.3 the fee base is the requested notional margin*leverage/decimals on Open (captured before the reversal "
               "rewrites it) and position.notional on whole close; R12.4 spread goes to config.insurance_fund, toll to config.fee_pool, "
               "paid by the acting trader; R12.5 CalcFee = (amount*toll_ratio/decimals, amount*spread_ratio/decimals).")
NOT_DECIDED = "rounding beyond the floor division that the trees contain; fee on the partial close is charged on the partial notional (not part of the statement)."

VAMM = "margined_vamm"


def run(ctx):
    ix = ctx.ix
    w = ctx.world
    em = EM(ctx)
    ctx.rule("R12.1", "fee-transfer invocations per chain path", 10)
    ctx.rule("R12.2", "fees_paid flag discipline", 4)
    ctx.rule("R12.3", "fee base operand", 4)
    ctx.rule("R12.4", "fee routing: spread -> insurance fund, toll -> fee pool, payer = acting trader", 1)
    ctx.rule("R12.5", "CalcFee formula and field pairing", 1)

    # ---------------------------------------------------------------- R12.1 / R12.2 / R12.3 per step
    def step_fee_profile(st):
        """{(fees_paid flag cond, n fee calls)} over success paths, plus bases"""
        prof = {}
        for q in st.ok_paths():
            fcs = em.fee_calls(q)
            flag = None
            zero_base = None
            for (at, o, _b, _l) in q.conds:
                ai = ix.inline(at)
                if em.tmp(ai, "fees_paid"):
                    flag = o
                if tag(ai) == "op" and payload(ai)[0] == "is_zero":
                    x = ix.inline(kids(ai)[0])
                    if tag(x) == "field" and payload(x)[0] == "notional" and em.is_position_value(kids(x)[0]):
                        zero_base = o
            prof.setdefault((flag, zero_base), set()).add(len(fcs))
        return prof

    expect = {
        "OpenPosition": 0, "ClosePosition": 0, "Liquidate": 0, "PayFunding": 0, "DepositMargin": 0, "WithdrawMargin": 0,
        "OpenPosition>id1": "flag", "OpenPosition>id2": "flag", "OpenPosition>id3": 1, "OpenPosition>id3>id1": "flag",
        "ClosePosition>id4": "zero-base", "ClosePosition>id5": 1,
        "Liquidate>id6": 0, "Liquidate>id7": 0, "PayFunding>id8": 0,
    }
    for ckey, want in sorted(expect.items()):
        sts = em.chains.get(ckey)
        if not sts:
            ctx.lost("R12.1", "chain " + ckey)
            continue
        st = sts[-1]
        ctx.analysed["functions"].add(st.fn.pretty)
        prof = step_fee_profile(st)
        bad = None
        for (flag, zero_base), counts in prof.items():
            for c in counts:
                if want == 0 and c != 0:
                    bad = bad or "%d fee transfer call(s) on a path of an operation that charges no trading fee" % c
                elif want == 1 and c != 1:
                    bad = bad or "%d fee transfer calls on a success path (exactly 1 required)" % c
                elif want == "flag":
                    if flag is False and c != 1:
                        bad = bad or "fees_paid == false but %d fee calls" % c
                    if flag is True and c != 0:
                        bad = bad or "fees_paid == true but %d fee calls (double charge on a reversal)" % c
                    if flag is None:
                        bad = bad or "fee charging does not depend on tmp.fees_paid (%d calls)" % c
                elif want == "zero-base":
                    if zero_base is False and c != 1:
                        bad = bad or "non-zero fee base but %d fee calls" % c
                    if zero_base is True and c != 0:
                        bad = bad or "zero fee base but %d fee calls" % c
                    if zero_base is None and c != 1:
                        bad = bad or "%d fee calls without a zero-base test" % c
        ctx.inst("R12.1", "fee-count:%s" % ckey, bad is None and bool(prof), st.fn.where(),
                 "profile (fees_paid, base-is-zero) -> calls: %s; %s" % ({str(k): sorted(v) for k, v in prof.items()}, bad or "as tabled (%s)" % want))

    # ---- R12.2
    for variant in ("OpenPosition", "ClosePosition", "Liquidate"):
        st = em.exec_step(variant)
        if st is None:
            ctx.lost("R12.2", variant)
            continue
        bad = None
        n = 0
        for q in st.ok_paths():
            for val in em.stored_tmp(st, q):
                n += 1
                fp = sym.field(val, "fees_paid")
                if not (tag(fp) == "bool" and payload(fp)[0] == 0):
                    bad = bad or "fees_paid stored as %s" % sym.show(fp, 4)
        ctx.inst("R12.2", "flag-false-at-store:%s" % variant, bad is None and n > 0, st.fn.where(), bad or "%d stores of the in-flight record with fees_paid = false" % n)
    rv = em.reply_step("OpenPosition>id3")
    if rv is None:
        ctx.lost("R12.2", "OpenPosition>id3")
    else:
        bad = None
        n = 0
        for q in rv.ok_paths():
            chained = any(s.id_int() == 1 and s.reply_on_name() == "Always" for s in em.emitted(q))
            for val in em.stored_tmp(rv, q):
                n += 1
                fp = sym.field(val, "fees_paid")
                if chained and not (tag(fp) == "bool" and payload(fp)[0] == 1):
                    bad = bad or "chained increase stores fees_paid = %s" % sym.show(fp, 4)
            if chained and not em.stored_tmp(rv, q):
                bad = bad or "chained increase without re-storing the in-flight record"
            if chained and len(em.fee_calls(q)) != 1:
                bad = bad or "reversal leg charges %d times" % len(em.fee_calls(q))
        ctx.inst("R12.2", "flag-true-before-chain:%s" % short_fn(rv.fn), bad is None and n > 0, rv.fn.where(), bad or "%d re-stores: fees_paid = true whenever an increase is chained" % n)

    # ---- R12.3 fee base operand
    ex = em.exec_step("OpenPosition")
    notional_ok = None
    if ex is not None:
        bad = None
        n = 0
        for q in ex.ok_paths():
            for val in em.stored_tmp(ex, q):
                n += 1
                on = N(ix, ex.c(sym.field(val, "open_notional")))
                WANT = ("div", ("mul", hole("margin_amount", lambda v: v == ex.msgfield("margin_amount")), hole("leverage", lambda v: v == ex.msgfield("leverage"))),
                        em.cfg_leaf("decimals"))
                if match(WANT, on) is None:
                    bad = bad or "tmp.open_notional = %s" % norm.show(on)
        ctx.inst("R12.3", "requested-notional:OpenPosition", bad is None and n > 0, ex.fn.where(), bad or "tmp.open_notional = margin_amount * leverage / decimals (%d stores)" % n)
    for ckey, base_pred, what in (
            ("OpenPosition>id1", lambda v: em.tmp(v, "open_notional"), "tmp.open_notional"),
            ("OpenPosition>id2", lambda v: em.tmp(v, "open_notional"), "tmp.open_notional"),
            ("OpenPosition>id3", lambda v: em.tmp(v, "open_notional"), "tmp.open_notional as loaded (before the reversal rewrites it)"),
            ("ClosePosition>id4", lambda v: tag(ix.inline(v)) == "field" and payload(ix.inline(v))[0] == "notional" and em.is_position_value(kids(ix.inline(v))[0]), "position.notional")):
        st = em.reply_step(ckey)
        if st is None:
            ctx.lost("R12.3", ckey)
            continue
        bad = None
        n = 0
        for q in st.ok_paths():
            for e in em.fee_calls(q):
                n += 1
                base = e.args[3] if len(e.args) > 3 else None
                # the notional argument is the Uint128 one that is not an address
                cands = [a for a in e.args if base_pred(a)]
                if not cands:
                    bad = bad or "fee charged on %s" % ", ".join(sym.show(ix.inline(a), 4) for a in e.args[1:])
        ctx.inst("R12.3", "fee-base:%s" % ckey, bad is None and n > 0, st.fn.where(), bad or "%d fee calls on %s" % (n, what))

    # ---- R12.4 routing inside the fee function
    fee_fns = {}
    for (st, root, depth, ckey) in em.steps.values():
        for q in st.ok_paths():
            for e in em.fee_calls(q):
                fee_fns[e.target.key] = e.target
    if not fee_fns:
        ctx.lost("R12.4", "fee transfer function (returns TransferResponse)")
    from .c03 import transfers_of
    for f in fee_fns.values():
        bad = None
        payer_param = None
        for i in range(f.arg_count):
            if f.locals[i + 1]["ty"].endswith("cosmwasm_std::Addr"):
                payer_param = payer_param or sym.param(f.key, i, f.param_name(i))
        routes = set()
        for p in ix.ok_paths(f):
            # the CalcFee query result on this path
            fee_q = None
            for e in p.events:
                qq = ix.parse_query(e.result)
                mv = ix.msg_variant(qq["msg"]) if qq and qq.get("msg") is not None else None
                if mv and mv[1] == "CalcFee":
                    fee_q = sym.unwrap(e.result)
            for s in model.path_submsgs(ix, p):
                for (kind, payer, recv, amount) in transfers_of(ix, s):
                    ai = ix.inline(amount)
                    which = payload(ai)[0] if tag(ai) == "field" else "?"
                    to = "insurance_fund" if em.cfg(recv, "insurance_fund") else "fee_pool" if em.cfg(recv, "fee_pool") else "OTHER"
                    if kind == "cw20-transfer-from":
                        if payer != payer_param:
                            bad = bad or "fee is pulled from %s, not from the trader argument" % sym.show(payer, 4)
                    routes.add((which, to))
        want = {("spread_fee", "insurance_fund"), ("toll_fee", "fee_pool")}
        if routes != want:
            bad = bad or "routes %s" % sorted(routes)
        ctx.inst("R12.4", "routing:%s" % short_fn(f), bad is None, f.where(), bad or "spread_fee -> config.insurance_fund, toll_fee -> config.fee_pool, payer = trader argument")

    # ---- R12.5
    try:
        qa = arms.Arm(ix, VAMM, "CalcFee", entry="query")
        bad = None
        amt = qa.msgfield("quote_asset_amount")

        def vcfg(v, f):
            return guards.is_field_of_item(ix, v, VAMM, "margined_vamm:config", f)
        seen_nonzero = False
        for q in qa.ok_paths():
            r = ix.inline(sym.unwrap(q.ret))
            toll = N(ix, qa.c(sym.field(r, "toll_fee")))
            spread = N(ix, qa.c(sym.field(r, "spread_fee")))
            zero_path = toll == ("int", 0) and spread == ("int", 0)
            # what the path knows about the asked amount (`== 0`, `is_zero()`)
            amt_zero = None
            for (at, o, _b, _l) in q.conds:
                a2 = ix.inline(qa.c(at))
                if tag(a2) == "op" and payload(a2)[0] == "is_zero" and ix.inline(kids(a2)[0]) == amt and o in (True, False):
                    amt_zero = o
                if tag(a2) == "op" and payload(a2)[0] in ("eq", "ne") and len(kids(a2)) == 2 and o in (True, False):
                    ks = [ix.inline(k) for k in kids(a2)]
                    if amt in ks and any(N(ix, k) == ("int", 0) for k in ks):
                        amt_zero = ((payload(a2)[0] == "eq") == o)
            if zero_path:
                if amt_zero is not True:
                    bad = bad or "answers zero fees on a path where the asked amount is not known to be zero"
                continue
            if amt_zero is True:
                bad = bad or "computes the fees only when the asked amount IS zero"
            seen_nonzero = True
            T = ("div", ("mul", hole("amount", lambda v: v == amt), hole("toll_ratio", lambda v: vcfg(v, "toll_ratio"))), hole("decimals", lambda v: vcfg(v, "decimals")))
            S = ("div", ("mul", hole("amount", lambda v: v == amt), hole("spread_ratio", lambda v: vcfg(v, "spread_ratio"))), hole("decimals", lambda v: vcfg(v, "decimals")))
            if match(T, toll) is None:
                bad = bad or "toll_fee = %s" % norm.show(toll)
            if match(S, spread) is None:
                bad = bad or "spread_fee = %s" % norm.show(spread)
        ctx.inst("R12.5", "calc-fee-formula", bad is None and seen_nonzero, qa.fn.where(), bad or "toll = amount*toll_ratio/decimals, spread = amount*spread_ratio/decimals")
    except KeyError as e:
        ctx.lost("R12.5", str(e))


    # ---------------------------------------------------------------- R12.6
    # a fee is moved exactly when it is non-zero: every fee message (amount = a field of the vAMM's CalcFee answer) an
    # Open / Close chain can emit carries an amount that is non-zero by a fact of the emitting path.  A fee message built
    # under the inverted test would be the zero transfer (rejected, the trade reverts) and a non-zero fee would go unpaid.
    from .nonzero import nonzero_instances

    def is_fee_amount(v):
        vi = ix.inline(v)
        if tag(vi) == "field" and payload(vi)[0] in ("spread_fee", "toll_fee"):
            q_ = ix.parse_query(kids(vi)[0])
            mv_ = ix.msg_variant(q_["msg"]) if q_ and q_.get("msg") is not None else None
            return bool(mv_ and mv_[1] == "CalcFee")
        return False
    nonzero_instances(ctx, em, "R12.6", "every fee message an Open / Close chain can emit carries a fee that is non-zero by a fact of the emitting path (a fee is transferred iff it is non-zero)", 5,
                      lambda ckey: ckey.startswith(("OpenPosition>", "ClosePosition>")), "the zero transfer is rejected and the trade reverts, while a non-zero fee is not charged",
                      select=is_fee_amount)

    # ---------------------------------------------------------------- R12.7
    # "routed to the right pools": the pools are the ones the owner configured - a fee-pool / insurance-fund address supplied
    # in UpdateConfig is the one the stored Config carries afterwards (round-17 seed C12s: an "empty update" shortcut that
    # listed every optional field but fee_pool acknowledged the update and kept paying the toll to the old pool)
    from .cfgupdate import update_sticks
    ctx.rule("R12.7", "a fee-pool / insurance-fund address supplied in the engine's UpdateConfig is stored (the Config stored last carries it)", 2)
    update_sticks(ctx, "R12.7", "margined_engine", only=("fee_pool", "insurance_fund"))

