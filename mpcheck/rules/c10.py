"""C10 — One account's transaction never alters another trader's position."""
from .. import sym, guards, arms, model
from ..sym import tag, payload, kids
from .common import *
from .posflow import *

EXPLANATION = ("R10.1 every position store/remove keys on the acting (vamm, trader): (msg.vamm, info.sender) in the execute arms, the "
               "tmp-swap record's (vamm, trader) in the replies; R10.2 the trader written into the tmp-swap record is info.sender, the "
               "trader of a position read under an R10.1 key, the msg.trader of Liquidate, or the unchanged trader of the record a reply "
               "re-stores; R10.3 Position.vamm/trader are only assigned from the key the position was requested with; R10.4 query entry "
               "points take the read-only Deps and no workspace crate contains unsafe code; R10.5 DepositMargin proves the stored "
               "position belongs to the sender.")
NOT_DECIDED = ("re-entrancy through a malicious registered vAMM; key aliasing through the separator-free hash sha3(vamm||trader) for "
               "unvalidated vamm strings is only excluded where a rule demands the ownership test (R10.5).")


def poskey_instances(ctx, rule):
    """every position store / remove keys on the acting (vamm, trader) pair - hash inputs traced to msg.vamm / info.sender,
    msg.trader, or the in-flight record (shared by C10 / C02).  Returns the step table."""
    ix = ctx.ix
    w = ctx.world
    idt = Ident(ix)
    chains = arms.engine_chains(ix, ENG)
    steps = {}
    for key, sts in chains.items():
        root = key.split(">")[0]
        for i, st in enumerate(sts):
            steps.setdefault((st.fn.key, st.label), (st, root, i))
    n1 = 0
    for (st, root, depth) in sorted(steps.values(), key=lambda x: (x[1], x[2], x[0].label)):
        ctx.analysed["functions"].add(st.fn.pretty)
        is_exec = depth == 0
        if is_exec:
            vamm_v = st.msgfield("vamm") if hasattr(st, "msgfield") else None
            if root == "Liquidate":
                trader_ok = lambda t, st=st: same_address(ix, t, st.msgfield("trader"))
                who = "msg.trader"
            else:
                trader_ok = lambda t, st=st: t == st.sender
                who = "info.sender"
            vamm_ok = lambda v, vamm_v=vamm_v: vamm_v is not None and same_address(ix, v, vamm_v)
        else:
            trader_ok = lambda t: is_tmp_field(ix, t, "trader")
            vamm_ok = lambda v: is_tmp_field(ix, v, "vamm")
            who = "tmp_swap.trader"
        bad = None
        n_w = 0
        for q in st.ok_paths():
            for wr in st.writes(q):
                if wr["item"] != POS:
                    continue
                n_w += 1
                ins = hash_inputs(ix, wr["key"]) if wr["key"] is not None else []
                if len(ins) != 2:
                    bad = bad or ("key not a hash of two inputs: %s" % sym.show(ix.inline(wr["key"]), 5) if wr["key"] is not None else "no key")
                    continue
                v0 = idt.origin(ix.inline(ins[0]), "vamm", 8)
                t0 = idt.origin(ix.inline(ins[1]), "trader", 8)
                if not (vamm_ok(v0) and trader_ok(t0)):
                    bad = bad or "%s position keyed by (vamm=%s, trader=%s)" % (wr["kind"], sym.show(v0, 5), sym.show(t0, 5))
        if n_w == 0:
            continue
        n1 += 1
        ctx.inst(rule, "poskey:%s:%s" % (short_fn(st.fn), st.label), bad is None, st.fn.where(),
                 "%d position writes/removes over %d success paths, expected trader %s; %s" % (n_w, len(st.ok_paths()), who, bad or "all keyed on the acting pair"))
        ctx.note_paths(len(st.ok_paths()))

    return steps


def run(ctx):
    ix = ctx.ix
    w = ctx.world
    idt = Ident(ix)
    ctx.rule("R10.1", "position stores/removes key on the acting (vamm, trader)", 9)
    ctx.rule("R10.2", "tmp-swap.trader origin at every store of the record", 4)
    ctx.rule("R10.3", "Position.vamm / Position.trader assigned only from the requested key", 1)
    ctx.rule("R10.4", "query entry points take Deps (read-only); no unsafe code in any workspace crate (fixture must fire)", 7)
    ctx.rule("R10.5", "DepositMargin: stored position's trader proven equal to info.sender before the store", 1)

    steps = poskey_instances(ctx, "R10.1")

    # ---------------------------------------------------------------- R10.6
    # the key hashes vamm || trader: without framing, (vamm, trader) pairs whose concatenations coincide share a slot
    # ("contract4" + "0bob" = "contract40" + "bob"), so one trader's transaction rewrites another trader's position
    ctx.rule("R10.6", "the position key frames its variable-length inputs (length prefix or separator): distinct (vamm, trader) pairs cannot alias", 3)
    keyfns = {}
    for (st, root, depth) in sorted(steps.values(), key=lambda x: (x[1], x[2], x[0].label)):
        for q in st.ok_paths():
            for wr in st.writes(q):
                if wr["item"] == POS and wr["key"] is not None:
                    keyfns.setdefault("%s:%s" % (wr["kind"], "position"), set()).add(hash_framing(ix, wr["key"]))
            for e in q.events:
                lk = load_key(ix, e.result) if e.result is not None else None
                if lk is not None:
                    keyfns.setdefault("read:position", set()).add(hash_framing(ix, lk))
    for kind in ("write:position", "remove:position", "read:position"):
        fr = keyfns.get(kind)
        if not fr:
            ctx.lost("R10.6", kind)
            continue
        ctx.inst("R10.6", "key-framing:%s" % kind, "none" not in fr, "contracts/margined_engine/src/state.rs",
                 "hash input framing at every %s: %s" % (kind, sorted(fr)))

    # ---------------------------------------------------------------- R10.2
    for (st, root, depth) in sorted(steps.values(), key=lambda x: (x[1], x[2], x[0].label)):
        bad = None
        n_w = 0
        for q in st.ok_paths():
            for wr in st.writes(q):
                if wr["item"] != TMP or wr["kind"] != "write" or wr["value"] is None:
                    continue
                n_w += 1
                val = ix.inline(wr["value"])
                t = ix.inline(sym.field(val, "trader"))
                v = ix.inline(sym.field(val, "vamm"))
                t0 = idt.origin(t, "trader", 8)
                v0 = idt.origin(v, "vamm", 8)
                if depth == 0:
                    okt = (t0 == st.sender) or (root == "Liquidate" and same_address(ix, t0, st.msgfield("trader")))
                    okv = same_address(ix, v0, st.msgfield("vamm"))
                else:
                    okt = is_tmp_field(ix, t0, "trader")
                    okv = is_tmp_field(ix, v0, "vamm")
                if not (okt and okv):
                    bad = bad or "tmp-swap stored with trader=%s vamm=%s" % (sym.show(t0, 5), sym.show(v0, 5))
        if n_w:
            ctx.inst("R10.2", "tmp-trader:%s:%s" % (short_fn(st.fn), st.label), bad is None, st.fn.where(),
                     "%d stores of the in-flight record; %s" % (n_w, bad or "trader/vamm are the acting pair"))

    # ---------------------------------------------------------------- R10.3
    n3 = 0
    for f in sorted(w.crate_fns(ENG), key=lambda f: f.pretty):
        if f.derived or "::_::" in f.pretty:
            continue
        for bi in sorted(f.reachable()):
            for s in f.blocks[bi]["stmts"]:
                if s["k"] != "assign":
                    continue
                lhs = s["lhs"]
                if not lhs["p"]:
                    continue
                last = lhs["p"][-1]
                if isinstance(last, dict) and last.get("f") in ("vamm", "trader"):
                    # type of the base place
                    base_ty = None
                    # walk: the field's parent type is not in the facts directly; use the local's type when projection is one level
                    lt = f.locals[lhs["l"]]["ty"]
                    if "margined_perp::margined_engine::Position" in lt and len([e for e in lhs["p"] if e != "*"]) == 1:
                        n3 += 1
                        # evaluate: on every path through this function the assigned value is a parameter
                        ok = True
                        why = ""
                        for p in ix.ok_paths(f):
                            r = ix.inline(sym.field(p.ret, last["f"]))
                            # accepted: parameter of f (the requested key) or the loaded position's own field
                            if tag(r) == "param":
                                continue
                            o = idt.origin(r, last["f"], 6)
                            if tag(o) == "param":
                                continue
                            ok = False
                            why = "assigned %s" % sym.show(r, 5)
                        ctx.inst("R10.3", "assign:%s:%s" % (short_fn(f), last["f"]), ok, f.where(s["line"]),
                                 "Position.%s written in %s: %s" % (last["f"], f.pretty, why or "value is the key the position was requested with"))
    # aggregates constructing a Position outside the message package
    for f in w.crate_fns(ENG):
        if f.derived or "::_::" in f.pretty:
            continue
        built = False
        for bi in f.reachable():
            for s in f.blocks[bi]["stmts"]:
                if s["k"] == "assign" and "agg" in s["rv"] and s["rv"].get("adt", "").endswith("margined_engine::Position"):
                    built = True
        if not built:
            continue
        # `Position { margin: m, ..position }` rebuilds the record: fine as long as vamm and trader are copied from the
        # position it was built from (a load / the requested key), not chosen freshly
        bad = None
        try:
            for p in ix.ok_paths(f):
                for v in model.path_values(p):
                    for x in sym.walk(v):
                        if tag(x) == "agg" and payload(x)[0].endswith("margined_engine::Position"):
                            for fld in ("vamm", "trader"):
                                o = ix.inline(sym.field(x, fld))
                                copied = tag(o) == "field" and payload(o)[0] == fld
                                if not copied and tag(idt.origin(o, fld, 6)) != "param":
                                    bad = bad or "%s = %s" % (fld, sym.show(o, 4))
        except Exception as e:
            bad = "could not evaluate: %s" % e
        if bad:
            ctx.inst("R10.3", "construct:%s" % short_fn(f), False, f.where(), "a Position is constructed with a freshly chosen %s" % bad)
        else:
            # a record built with an explicitly given vamm / trader (not a copy of the record it was built from): the
            # given values are the requested key - counted like the field assignments above
            explicit = False
            try:
                for p in ix.ok_paths(f):
                    for v in model.path_values(p):
                        for x in sym.walk(v):
                            if tag(x) == "agg" and payload(x)[0].endswith("margined_engine::Position"):
                                for fld in ("vamm", "trader"):
                                    o = ix.inline(sym.field(x, fld))
                                    if not (tag(o) == "field" and payload(o)[0] == fld):
                                        explicit = True
            except Exception:
                explicit = False
            if explicit:
                ctx.inst("R10.3", "construct:%s" % short_fn(f), True, f.where(), "a Position is constructed with vamm / trader taken from the key it was requested with")

    # ---------------------------------------------------------------- R10.4
    for c in ("margined_engine", "margined_vamm", "margined_insurance_fund", "margined_fee_pool", "margined_pricefeed"):
        q = ix.entry(c, "query")
        if q is None:
            ctx.lost("R10.4", c + "::contract::query")
            continue
        tys = [q.locals[i + 1]["ty"] for i in range(q.arg_count)]
        ro = any(t.startswith("cosmwasm_std::Deps<") or t == "cosmwasm_std::Deps" for t in tys) and not any("DepsMut" in t for t in tys)
        ctx.inst("R10.4", "query-readonly:%s" % c, ro, q.where(), "query(%s)" % ", ".join(tys))
    prod = [u for u in w.unsafe if u[0] in ("margined_engine", "margined_vamm", "margined_insurance_fund", "margined_fee_pool",
                                           "margined_pricefeed", "margined_common", "margined_perp")]
    ctx.inst("R10.4", "no-unsafe", not prod, "", "unsafe blocks/fns in product crates: %s" % (prod or "none"))
    fx = [u for u in w.unsafe if u[0] == "mpcheck_fixture"]
    ctx.inst("R10.4", "fixture-unsafe-fires", bool(fx), "", "positive control: the fixture crate's unsafe block is %s" % ("reported" if fx else "NOT reported: the zero-count rule is blind"))

    # ---------------------------------------------------------------- R10.5
    try:
        a = arms.Arm(ix, ENG, "DepositMargin")
        bad = None
        n = 0
        for (q, alt) in a.alternatives():
            if not any(wr["item"] == POS for wr in a.writes(q)):
                continue
            n += 1
            ok = False
            for (at, o) in alt:
                if o is True and tag(at) == "op" and payload(at)[0] == "eq":
                    x, y = kids(at)
                    for u, v in ((x, y), (y, x)):
                        ui = ix.inline(u)
                        if v == a.sender and tag(ui) == "field" and payload(ui)[0] == "trader" and load_key(ix, kids(ui)[0]) is not None:
                            ok = True
            if not ok:
                bad = bad or q
        ctx.inst("R10.5", "deposit-ownership", bad is None and n > 0, a.fn.where(),
                 "%d storing alternatives; %s" % (n, "loaded position.trader == info.sender established before the store" if bad is None else
                    "a storing path does not prove the loaded position belongs to info.sender (an aliased key would credit another trader's position)"))
    except KeyError as e:
        ctx.lost("R10.5", str(e))
