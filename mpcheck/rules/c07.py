"""C07 — Under-margined positions can always be liquidated (necessary conditions only)."""
from .. import sym, guards, arms, model, norm
from ..sym import tag, payload, kids
from ..norm import N, match, hole, anyhole
from .common import *
from .em import *

EXPLANATION = ("Liveness over runtime states is not statically decidable. Decided are necessary conditions whose failure makes Liquidate "
               "fail for a whole class of states: R07.1 every in-repository query edge deserialises the type the queried contract "
               "serialises (Liquidate -> vAMM IsOverSpreadLimit -> price feed GetPrice is on this path); R07.2 the Liquidate chain is "
               "not gated by pause, restriction mode or the caller's identity; R07.3 if the full/partial selection looks at the "
               "magnitude of the signed margin ratio, the partial reply must not subtract loss and penalty from the margin with "
               "fallible unsigned arithmetic; R07.4 in the liquidation replies the helper that sizes an insurance top-up from the "
               "engine's current balance is not called after an outgoing vault transfer was queued in the same response; R07.5 the "
               "amount reported as already on its way from the insurance fund equals the amount of the Withdraw actually queued."
               " R07.8 the Liquidate handler never reads in-flight records; R07.5 (second half) the top-up sizing credits exactly the figure it is handed and the replies hand it the queued amount; R07.9 the compared ratio is the defined one (R06.2/R06.7/R06.8 evaluated in a C06 context).")
NOT_DECIDED = "everything else about liveness: that the swap can be filled, that arithmetic never overflows, insurance fund solvency."

CONTRACT_OF = {"margined_vamm": "margined_vamm", "margined_engine": "margined_engine", "margined_insurance_fund": "margined_insurance_fund",
               "margined_fee_pool": "margined_fee_pool", "margined_pricefeed": "margined_pricefeed"}


def qualify(ty, crate):
    ty = ty.strip()
    first = ty.split("::")[0].split("<")[0]
    known = ("margined_", "cosmwasm_std", "std", "core", "alloc", "cw20", "cw_", "bool", "u8", "u16", "u32", "u64", "u128", "usize", "i", "(", "&", "[")
    if first.startswith(known) or "::" not in ty:
        return ty
    return crate + "::" + ty


def run(ctx):
    ix = ctx.ix
    w = ctx.world
    em = EM(ctx)
    ctx.rule("R07.1", "query shape agreement on every in-repository query edge (reader type == writer type)", 15)
    ctx.rule("R07.2", "Liquidate chain not gated by pause / restriction mode / caller identity", 3)
    ctx.rule("R07.3", "full/partial selection vs arithmetic assumptions of the partial reply", 1)
    ctx.rule("R07.4", "no balance-sized insurance top-up after an outgoing vault transfer was queued", 2)
    ctx.rule("R07.5", "reported incoming insurance amount equals the queued Withdraw, the top-up sizing credits exactly the figure it is handed, and the liquidation replies hand it that amount", 3)
    ctx.rule("R07.6", "a price exactly on the band edge is not 'already outside': the vAMM's already-outside test is strict (same rule as R15.2)", 2)
    from .c15 import band_instances
    band_instances(ctx, "R07.6")

    # ---------------------------------------------------------------- writer types per (contract, query variant)
    writers = {}
    for c in CONTRACT_OF:
        t = ix.arms(c, "query")
        if t is None:
            ctx.lost("R07.1", c + "::contract::query")
            continue
        for variant, ps in t[2].items():
            us = set()
            for p in ps:
                for e in p.events:
                    if e.name == "cosmwasm_std::to_binary" and tag(e.result) == "call":
                        extra = payload(e.result)[3:]
                        if extra:
                            us.add(qualify(extra[-1], c))
            writers[(c, variant)] = us
    # ---------------------------------------------------------------- reader sites
    n_edges = 0
    for f in sorted(w.fns.values(), key=lambda f: f.pretty):
        if f.crate not in list(CONTRACT_OF) + ["margined_perp", "margined_common"] or f.derived or "::_::" in f.pretty or f.kind == "Closure":
            continue
        try:
            oks = ix.ok_paths(f)
        except Exception:
            continue
        seen_here = set()
        for p in oks:
            for e in p.events:
                if e.name != "cosmwasm_std::QuerierWrapper::query":
                    continue
                qq = ix.parse_query(e.result)
                if not qq or qq.get("msg") is None:
                    continue
                mv = ix.msg_variant(qq["msg"])
                if not mv:
                    continue
                adt, variant, _ = mv
                parts = adt.split("::")
                target = None
                for part in parts:
                    if part in CONTRACT_OF and adt.endswith("QueryMsg"):
                        target = part
                if target is None:
                    continue  # cw20 / bank: external
                T = qualify(qq["T"], f.crate)
                sig = (target, variant, T)
                if sig in seen_here:
                    continue
                seen_here.add(sig)
                n_edges += 1
                U = writers.get((target, variant))
                key = "query-edge:%s->%s::%s" % (short_fn(f), target, variant)
                if U is None or not U:
                    ctx.inst("R07.1", key, False, f.where(e.line), "the queried contract has no arm / no serialisation for %s" % variant)
                    continue
                ok = U == {T}
                ctx.inst("R07.1", key, ok, f.where(e.line), "reader deserialises %s; %s::query serialises %s" % (T, target, sorted(U)))

    # ---------------------------------------------------------------- R07.2
    liq_steps = [(k, sts) for k, sts in em.chains.items() if k.split(">")[0] == "Liquidate"]
    ex = em.exec_step("Liquidate")
    if ex is None:
        ctx.lost("R07.2", "Liquidate")
        return
    gated = {"pause": None, "restriction": None, "sender": None}
    for k, sts in liq_steps:
        for st in sts:
            for q in st.ok_paths():
                def scan(facts, st=st):
                    for (at, o) in facts:
                        for x in sym.walk(at):
                            if tag(x) == "field" and payload(x)[0] == "pause" and guards.loaded_item(ix, kids(x)[0], ENG) == STATE:
                                gated["pause"] = st.fn.pretty
                            if tag(x) == "field" and payload(x)[0] == "last_restriction_block":
                                gated["restriction"] = st.fn.pretty
                        if tag(at) == "op" and payload(at)[0] in ("eq", "ne") and st.sender is not None and st.sender in kids(at):
                            gated["sender"] = st.fn.pretty
                    return False
                guards.path_satisfies(ix, q, scan, st.m)
    for g, where in gated.items():
        ctx.inst("R07.2", "ungated:%s" % g, where is None, ex.fn.where(), "Liquidate chain %s" % ("does not consult it" if where is None else "IS GATED by %s in %s" % (g, where)))

    # ---------------------------------------------------------------- R07.3
    sign_dropped = None
    for q in ex.ok_paths():
        ids = {s.id_int() for s in em.emitted(q) if s.reply_on_name() == "Always"}
        for (at, o, _b, _l) in q.conds:
            ai = ix.inline(at)
            if tag(ai) == "op" and payload(ai)[0] in ("gt", "lt", "ge", "le") and len(kids(ai)) == 2 and any(em.cfg(k, "liquidation_fee") for k in kids(ai)):
                other = [k for k in kids(ai) if not em.cfg(k, "liquidation_fee")][0]
                oi = ix.inline(other)
                if tag(oi) == "field" and payload(oi)[0] == "value":
                    sign_dropped = True if sign_dropped is None else sign_dropped
                else:
                    sign_dropped = False
            if tag(ai) == "op" and payload(ai)[0] in ("gt", "lt", "ge", "le") and len(kids(ai)) == 2:
                nl = [N(ix, k) for k in kids(ai)]
                if any(n_ == ("pos", ("leaf", x)) for n_ in nl for x in [k for k in sym.walk(ai) if em.cfg(k, "liquidation_fee")]):
                    sign_dropped = False
    pst = em.reply_step("Liquidate>id7")
    fallible = None
    if pst is not None:
        for q in pst.ok_paths():
            for val in em.stored_position(pst, q):
                m_ = ix.inline(sym.field(val, "margin"))
                subs = [x for x in sym.walk(m_) if tag(x) == "op" and payload(x)[0] == "u.checked_sub"]
                base_is_margin = any(tag(ix.inline(k)) == "field" and payload(ix.inline(k))[0] == "margin" for x in subs for k in kids(x)[:1])
                fallible = bool(subs) and base_is_margin
    contradiction = bool(sign_dropped) and bool(fallible)
    ctx.inst("R07.3", "selection-vs-partial-arithmetic", not contradiction and sign_dropped is not None and fallible is not None, ex.fn.where(),
             "partial path selected on the magnitude of the signed ratio: %s; partial reply subtracts loss/penalty from the margin with fallible unsigned arithmetic: %s%s" % (
                 sign_dropped, fallible, " -> a position with negative equity is routed to a reply that underflows (Liquidate fails)" if contradiction else ""))

    # ---------------------------------------------------------------- R07.4
    from .c03 import transfers_of

    def sizes_from_balance(fn, depth=3):
        """does fn (transitively) read the engine's token balance and conditionally emit an insurance Withdraw?"""
        reads_bal = emits_w = False
        try:
            for p in ix.ok_paths(fn):
                for e in p.events:
                    qq = ix.parse_query(e.result)
                    if qq and (qq.get("bank") is not None or (qq.get("msg") is not None and (ix.msg_variant(qq["msg"]) or (0, ""))[1] == "Balance")):
                        reads_bal = True
                    if e.target is not None and depth > 0:
                        r2, e2 = sizes_from_balance(e.target, depth - 1)
                        reads_bal = reads_bal or r2
                        emits_w = emits_w or e2
                for s in model.path_submsgs(ix, p):
                    mv = ix.msg_variant(s.inner_msg()) if s.inner_msg() is not None else None
                    if mv and mv[1] == "Withdraw":
                        emits_w = True
        except Exception:
            pass
        return reads_bal, emits_w
    for ckey in ("Liquidate>id6", "Liquidate>id7"):
        st = em.reply_step(ckey)
        if st is None:
            ctx.lost("R07.4", ckey)
            continue
        bad = None
        n = 0
        for q in st.ok_paths():
            queued = []   # (event index, amount) of vault-out transfers constructed so far
            for i, e in enumerate(q.events):
                if e.target is None:
                    continue
                rb, ew = sizes_from_balance(e.target)
                if rb and ew:
                    n += 1
                    # amounts already queued must be visible to the sizing: passed as an argument other than
                    # the amount the helper itself pays out
                    pay_params = set()
                    for p2 in ix.ok_paths(e.target):
                        for s2 in model.path_submsgs(ix, p2):
                            for (_k, _payer, _recv, a2) in transfers_of(ix, s2):
                                if tag(ix.inline(a2)) == "param":
                                    pay_params.add(payload(ix.inline(a2))[1])
                    for (j, amt) in queued:
                        if N(ix, amt) == ("int", 0):
                            continue
                        told = [k for k, a in enumerate(e.args) if N(ix, a) == N(ix, amt) and k not in pay_params]
                        if not told:
                            bad = bad or (q, amt)
                else:
                    subs = model.reachable_submsgs(ix, e.target, ix.param_map(e.target, e.args))
                    for s in subs:
                        for (kind, payer, recv, amount) in transfers_of(ix, s):
                            if payer is None and not (st.s(recv) == st.self_addr):
                                queued.append((i, amount))
        ctx.inst("R07.4", "stale-balance:%s" % short_fn(st.fn), bad is None and n > 0, st.fn.where(),
                 "%d balance-sized payout calls on success paths; %s" % (n, "none follows an un-reported outgoing transfer" if bad is None else
                    "the payout helper reads the engine's balance after %s was already queued to leave the vault and is not told about it: the top-up is under-sized and the last transfer fails when the vault is short" % norm.show(N(ix, bad[1]))))

    # ---------------------------------------------------------------- R07.5
    n5 = 0
    for f in sorted(w.crate_fns(ENG), key=lambda f: f.pretty):
        if f.derived or "::_::" in f.pretty or f.kind == "Closure" or not f.locals[0]["ty"].endswith("Uint128"):
            continue
        try:
            oks = ix.ok_paths(f)
        except Exception:
            continue
        pushes = False
        bad = None
        for p in oks:
            drawn = []
            for s in model.path_submsgs(ix, p):
                mv = ix.msg_variant(s.inner_msg()) if s.inner_msg() is not None else None
                if mv and mv[1] == "Withdraw":
                    drawn.append(N(ix, mv[2]["amount"]))
            r = N(ix, p.ret)
            if any(c[1] is True and tag(c[0]) == "op" and payload(c[0])[0] == "is_zero" and kids(c[0]) and N(ix, kids(c[0])[0]) == r for c in p.conds):
                r = ("int", 0)   # the path has established that the returned figure is zero
            if drawn:
                pushes = True
                if r != drawn[0]:
                    bad = bad or "returns %s while it queues an insurance Withdraw of %s" % (norm.show(r), norm.show(drawn[0]))
            else:
                if r != ("int", 0) and any(model.path_submsgs(ix, p2) for p2 in oks):
                    bad = bad or "returns %s on a path that queues nothing" % norm.show(r)
        if pushes:
            n5 += 1
            ctx.inst("R07.5", "reported-equals-queued:%s" % short_fn(f), bad is None, f.where(), bad or "returned amount == amount of the Withdraw it queued (0 when none)")

    # ---------------------------------------------------------------- R07.5 (second half)
    # the figure is only useful if the function that sizes the top-up from the vault balance (a) credits exactly the
    # figure it was handed - `available = balance + <its own parameter>`, nothing re-derived from State, which the
    # realising helper has already changed - and (b) is handed, by both liquidation replies, either zero or the value
    # the realising helper returned (verified above to be the queued Withdraw)
    from .balance import sizing_instances
    verified = {k.split(":", 2)[2] for k in [i.key for i in ctx.insts if i.key.startswith("R07.5:reported-equals-queued:") and i.ok]}
    sizing_instances(ctx, em, "R07.5", verified=verified)

    # ---------------------------------------------------------------- R07.7
    # a zero-amount bank send / cw20 transfer / insurance Withdraw is rejected by the receiving module and the
    # sub-message failure reverts the whole Liquidate; so every token-moving message a liquidation reply can
    # emit needs an amount that is non-zero by the facts of the path that emits it
    from .nonzero import nonzero_instances
    nonzero_instances(ctx, em, "R07.7", "every token-moving message a liquidation reply can emit has an amount that is provably non-zero on the emitting path", 6,
                      lambda ckey: ckey.startswith("Liquidate>"), "the receiving module rejects a zero transfer and the Liquidate reverts")


    # ---------------------------------------------------------------- R07.8
    # a record left behind by an earlier transaction must not be able to block a liquidation: the Liquidate handler does
    # not read the in-flight singletons (it only overwrites them) - a "slot occupied" test would turn one residue into
    # a permanent denial
    from .em import EM as _EM8
    from .posflow import TMP as _TMP, LIQ as _LIQ
    from .em import FUNDS as _FUNDS
    ctx.rule("R07.8", "the Liquidate handler never reads the in-flight records (tmp-swap, tmp-liquidator, sent-funds): a leftover cannot block a liquidation", 1)
    em8 = _EM8(ctx)
    ex8 = em8.exec_step("Liquidate")
    if ex8 is None:
        ctx.lost("R07.8", "Liquidate execute step")
    else:
        bad8 = None
        for q in ex8.ok_paths() + [p_ for p_ in ix.paths(ex8.fn) if p_.kind() == "err"]:
            for e in q.events:
                may, _must = ix.event_effects(e)
                rd = sorted(it for (k, it) in may if k == "read" and it in (_TMP, _LIQ, _FUNDS))
                if rd:
                    bad8 = bad8 or "reads %s through %s" % (rd, e.name)
        ctx.inst("R07.8", "no-in-flight-reads:Liquidate", bad8 is None, ex8.fn.where(), bad8 or "the handler only writes the in-flight records")


    # ---------------------------------------------------------------- R07.9
    # "whenever a position's margin ratio (as defined for liquidation) is below the maintenance ratio ... succeeds": a
    # ratio that is computed too HIGH refuses a liquidation that is due.  The definition is decided by R06.2 (which ratio is
    # selected), R06.7 (ratio formula on the stored record, funding charged once) and R06.8 (valuation per calc option);
    # their instances are evaluated in a C06 context of their own and copied (round-10 seed C07n: the oracle ratio of the
    # over-spread branch counted accrued funding twice).
    from .. import core as _core
    from . import c06 as _c06
    ctx.rule("R07.9", "the margin ratio the Liquidate handler compares is the defined one (selection, formula on the stored record, valuation): too high a figure refuses a due liquidation", 6)
    sub9 = _core.Ctx("C06", ctx.world, ctx.tier)
    try:
        _c06.run(sub9)
        n9 = 0
        for i9 in sub9.insts:
            if i9.rule in ("R06.2", "R06.7", "R06.8"):
                n9 += 1
                ctx.inst("R07.9", i9.key.replace(":", "/", 1), i9.ok, i9.where, i9.detail)
        if n9 == 0:
            ctx.lost("R07.9", "margin-ratio instances")
    except Exception as e:
        ctx.undetermined("R07.9", "margin-ratio", str(e)[:200])
