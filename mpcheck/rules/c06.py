"""C06 — Liquidation only of under-margined positions, with exact payouts."""
from .. import sym, guards, arms, model, norm
from ..sym import tag, payload, kids
from ..norm import N, match, hole, anyhole
from .common import *
from .em import *

EXPLANATION = ("R06.1 Liquidate success paths establish ratio <= config.maintenance_margin_ratio for the ratio actually selected; "
               "R06.2 the selected ratio is the oracle one exactly when the vAMM is over the spread limit and (oracle - base) > 0, "
               "else the base margin-ratio query of (msg.vamm, msg.trader); R06.3 the margin-ratio and free-collateral computations use "
               "the TWAP figures exactly when |spot pnl| > |twap pnl|; R06.4 over-spread = |((market - oracle) * decimals) / oracle| >= "
               "decimals/10; R06.5 full liquidation: liquidator gets (output*liquidation_fee/decimals)/2, position removed on every "
               "success path; R06.6 partial liquidation swaps size*partial_ratio/decimals of the position and pays insurance fund and "
               "liquidator the same (output*fee/decimals)/2. R06.8 the valuation primitive per calc option (Twap -> OutputTwap, SpotPrice -> OutputAmount, Oracle -> price * |size| / decimals; pnl signed by direction)."
               " R06.9 the liquidator slot is written unconditionally with info.sender by the Liquidate handler.")
NOT_DECIDED = "numeric outcome; that a partial liquidation cannot overshoot (sign table is C02's); recipients are C03's."

VAMM = "margined_vamm"


def run(ctx):
    ix = ctx.ix
    em = EM(ctx)
    ctx.rule("R06.1", "Liquidate succeeds only with selected ratio <= maintenance", 1)
    ctx.rule("R06.2", "ratio selection: oracle iff over-spread and oracle - base > 0", 1)
    ctx.rule("R06.3", "spot/TWAP selection by |pnl| in margin ratio and free collateral (sibling agreement)", 2)
    ctx.rule("R06.4", "spread-limit formula", 1)
    ctx.rule("R06.5", "full liquidation: fee formula, position removed", 2)
    ctx.rule("R06.6", "partial liquidation: swapped amount and penalty split", 2)

    ex = em.exec_step("Liquidate")
    if ex is None:
        ctx.lost("R06.1", "Liquidate")
        return
    vamm_v, trader_v = ex.msgfield("vamm"), ex.msgfield("trader")

    # the base ratio is what the MarginRatio query answers: anchor by use (the ratio function that query arm calls)
    base_fns = set()
    try:
        _mra = arms.Arm(ix, ENG, "MarginRatio", entry="query")
        base_fns.add(_mra.fn.key)
    except KeyError:
        pass

    def is_base_ratio(v):
        vi = ix.inline(v)
        if not (tag(vi) == "unwrap" and tag(kids(vi)[0]) == "call"):
            return False
        t = ix.call_target(kids(vi)[0])
        return t is not None and t.key in base_fns and "Integer" in t.locals[0]["ty"] \
            and len(kids(kids(vi)[0])) == 3 and vamm_v in set(sym.walk(ex.s(vi))) and trader_v in set(sym.walk(ex.s(vi)))

    def is_oracle_ratio(v):
        vi = ix.inline(v)
        if tag(vi) == "unwrap" and tag(kids(vi)[0]) == "call" and len(kids(kids(vi)[0])) == 4:
            opt = kids(kids(vi)[0])[3]
            return tag(opt) == "agg" and payload(opt)[1] == "Oracle" and vamm_v in set(sym.walk(ex.s(vi))) and trader_v in set(sym.walk(ex.s(vi)))
        return False
    bad1 = bad2 = None
    classes = set()

    def is_ratio_fn(t):
        return t is not None and (t.locals[0]["ty"].replace(" ", "").endswith("Integer,cosmwasm_std::StdError>") or t.locals[0]["ty"].endswith("integer::Integer"))

    def handler_paths():
        """success paths of the Liquidate handler; a helper that picks the ratio (returns an Integer result and has
        several success paths) is spliced in, so the selection conditions are visible wherever they were moved"""
        out = []
        for q in ex.ok_paths():
            work = [q]
            for _round in range(2):
                nxt = []
                for w_ in work:
                    ev = None
                    for e in w_.events:
                        if e.target is not None and is_ratio_fn(e.target) and tag(e.result) == "call" and not is_base_ratio(sym.unwrap(e.result)) \
                                and not is_oracle_ratio(sym.unwrap(e.result)):
                            try:
                                if len(ix.ok_paths_at(e.target, ix.param_map(e.target, e.args))) >= 2:
                                    ev = e
                                    break
                            except Exception:
                                pass
                    nxt.extend(ix.expand_on(w_, ev) if ev is not None else [w_])
                work = nxt
            out.extend(work)
        return out
    hpaths = handler_paths()
    for q in hpaths:
        # which ratio is compared with maintenance on this path?
        selected = None

        def pm(facts):
            for (at, o) in facts:
                if tag(at) == "op" and len(kids(at)) == 2:
                    nm = payload(at)[0]
                    l, r = kids(at)
                    if ((nm == "gt" and o is False) or (nm == "le" and o is True)) and match(("pos", em.cfg_leaf("maintenance_margin_ratio")), N(ix, r)) is not None:
                        pm.sel = l
                        return True
            return False
        pm.sel = None
        if not guards.path_satisfies(ix, q, pm, None):
            bad1 = bad1 or q
            continue
        sel = pm.sel
        over = None
        diffpos = None
        for (at, o, _b, _l) in q.conds:
            ai = ix.inline(at)
            qq = ix.parse_query(ai)
            mv = ix.msg_variant(qq["msg"]) if qq and qq.get("msg") is not None else None
            if mv and mv[1] == "IsOverSpreadLimit":
                over = o
            if tag(ai) == "op" and payload(ai)[0] == "gt":
                n_ = N(ix, kids(ai)[0])
                if n_[0] == "isub" and N(ix, kids(ai)[1]) == ("pos", ("int", 0)):
                    a_, b_ = n_[1], n_[2]
                    if a_[0] == "leaf" and b_[0] == "leaf" and is_oracle_ratio(a_[1]) and is_base_ratio(b_[1]):
                        diffpos = o
                    else:
                        bad2 = bad2 or "override test is %s > 0, not (oracle ratio - base ratio) > 0" % norm.show(n_)
        want_oracle = (over is True and diffpos is True)
        if want_oracle and not is_oracle_ratio(sel):
            bad2 = bad2 or "over-spread and oracle higher, but the ratio compared is %s" % sym.show(ix.inline(sel), 4)
        if not want_oracle and not is_base_ratio(sel):
            bad2 = bad2 or "ratio compared is %s where the base margin ratio is required (over=%s, oracle-higher=%s)" % (sym.show(ix.inline(sel), 4), over, diffpos)
        classes.add((over, diffpos))
    ctx.inst("R06.1", "insufficient-margin-guard", bad1 is None and bool(hpaths), ex.fn.where(),
             "%d success paths; %s" % (len(hpaths), "each establishes ratio <= config.maintenance_margin_ratio" if bad1 is None else "a success path lacks the guard"))
    ctx.inst("R06.2", "ratio-selection", bad2 is None and (True, True) in classes and len(classes) >= 3, ex.fn.where(),
             bad2 or "classes (over-spread, oracle-higher) %s: oracle ratio iff both" % sorted(classes, key=str))

    # ---------------------------------------------------------------- R06.3
    fns = []
    for nm in ("MarginRatio", "FreeCollateral"):
        try:
            qa = arms.Arm(ix, ENG, nm, entry="query")
            fns.append((nm, qa))
        except KeyError as e:
            ctx.lost("R06.3", str(e))
    def pnl_chooser(e):
        """a helper that returns the (notional, pnl) pair but is not the per-option primitive itself"""
        t = e.target
        return "PositionUnrealizedPnlResponse" in t.locals[0]["ty"] and not any("PnlCalcOption" in t.locals[i + 1]["ty"] for i in range(t.arg_count))

    for nm, qa in fns:
        bad = None
        n = 0
        seen = set()
        for q in splice(ix, qa.ok_paths(), pnl_chooser):
            # pnl calls with Spot and Twap options
            pn = {}
            for e in q.events:
                if e.target is not None and "PositionUnrealizedPnlResponse" in e.target.locals[0]["ty"]:
                    for a in e.args:
                        if tag(a) == "agg" and payload(a)[0].endswith("PnlCalcOption"):
                            pn[payload(a)[1]] = sym.unwrap(e.result)
            if "SpotPrice" not in pn or "Twap" not in pn:
                continue
            n += 1
            sel = None
            for (at, o, _b, _l) in q.conds:
                if tag(at) == "op" and payload(at)[0] == "gt":
                    l, r = N(ix, kids(at)[0]), N(ix, kids(at)[1])
                    if l == ("abs", ("leaf", ix.inline(sym.field(pn["SpotPrice"], "unrealized_pnl")))) and r == ("abs", ("leaf", ix.inline(sym.field(pn["Twap"], "unrealized_pnl")))):
                        sel = "Twap" if o is True else "SpotPrice"
            if sel is None:
                bad = bad or "no |spot pnl| > |twap pnl| selection on a path"
                continue
            seen.add(sel)
            # the selected pnl is what the remain-margin / account value uses
            used = set()
            other = "SpotPrice" if sel == "Twap" else "Twap"
            for e in q.events:
                for a in e.args:
                    ai = ix.inline(a)
                    if ai == ix.inline(sym.field(pn[sel], "unrealized_pnl")):
                        used.add(sel)
                    if ai == ix.inline(sym.field(pn[other], "unrealized_pnl")) and not (e.name.endswith("::abs")):
                        used.add(other)
            if used != {sel}:
                bad = bad or "selected %s but the computation uses %s" % (sel, sorted(used))
        ctx.inst("R06.3", "least-favourable-pnl:%s" % nm, bad is None and seen == {"Twap", "SpotPrice"}, qa.fn.where(),
                 bad or "%d paths: TWAP figures iff |spot pnl| > |twap pnl|" % n)

    # ---------------------------------------------------------------- R06.8
    # the valuation primitive behind every ratio: per calc option the notional is the right vAMM figure for this position
    # (Twap -> OutputTwap, SpotPrice -> OutputAmount, both of (position.direction, |size|) at position.vamm; Oracle ->
    # underlying price * |size| / decimals) and the pnl is notional - open notional for a long, the reverse for a short
    ctx.rule("R06.8", "valuation per calc option: Twap -> vAMM OutputTwap, SpotPrice -> OutputAmount of (position.direction, |size|) at position.vamm, Oracle -> price*|size|/decimals; pnl signed by the position's direction", 3)
    prim = [f for f in ctx.world.crate_fns(ENG) if not f.derived and "::_::" not in f.pretty and f.kind != "Closure"
            and "PositionUnrealizedPnlResponse" in f.locals[0]["ty"] and any("PnlCalcOption" in f.locals[i + 1]["ty"] for i in range(f.arg_count))]
    def _branches_on_option(f):
        try:
            ps = ix.ok_paths(f)
        except Exception:
            return False
        ops = [sym.param(f.key, i, f.param_name(i)) for i in range(f.arg_count) if "PnlCalcOption" in f.locals[i + 1]["ty"]]
        return any(tag(at) == "op" and payload(at)[0] == "discr" and kids(at)[0] in ops for q in ps for (at, _o, _b, _l) in q.conds)
    prim = [f for f in prim if _branches_on_option(f)]
    if len(prim) != 1:
        ctx.lost("R06.8", "the valuation primitive (takes a PnlCalcOption, returns the notional/pnl pair): found %d" % len(prim))
    for f in prim:
        ctx.analysed["functions"].add(f.pretty)
        posp = [sym.param(f.key, i, f.param_name(i)) for i in range(f.arg_count) if f.locals[i + 1]["ty"].endswith("margined_engine::Position")]
        optp = [sym.param(f.key, i, f.param_name(i)) for i in range(f.arg_count) if "PnlCalcOption" in f.locals[i + 1]["ty"]]
        per = {}
        want_msg = {"Twap": "OutputTwap", "SpotPrice": "OutputAmount"}
        try:
            oks8 = ix.ok_paths(f)
        except Exception as e:
            ctx.undetermined("R06.8", f.pretty, str(e))
            oks8 = []
        if posp and optp:
            pos = posp[0]
            p_dir, p_vamm, p_notional = (ix.inline(sym.field(pos, n_)) for n_ in ("direction", "vamm", "notional"))
            p_size = ix.inline(sym.field(sym.field(pos, "size"), "value"))
            for q in oks8:
                var = None
                is_long = None
                for (at, o, _b, _l) in q.conds:
                    if tag(at) == "op" and payload(at)[0] == "discr" and kids(at)[0] == optp[0] and isinstance(o, tuple) and o[0] == "variant":
                        var = o[1]
                    if tag(at) == "op" and payload(at)[0] == "eq" and o in (True, False):
                        ks = [ix.inline(k) for k in kids(at)]
                        if p_dir in ks:
                            other = [k for k in ks if k != p_dir]
                            if other and tag(other[0]) == "agg":
                                is_long = (payload(other[0])[1] == "AddToAmm") == o
                    if tag(at) == "op" and payload(at)[0] == "discr" and ix.inline(kids(at)[0]) == p_dir and isinstance(o, tuple) and o[0] == "variant":
                        is_long = o[1] == "AddToAmm"
                # is the position known to be empty / non-empty on this path?
                size_zero = None
                p_sz = ix.inline(sym.field(pos, "size"))
                for (k9, x9, o9) in sign_tests(ix, q.conds):
                    if k9 == "is_zero" and ix.inline(x9) == p_sz:
                        size_zero = o9
                if var is None:
                    # the shortcut that values the position at (0, 0) without asking the vAMM: only for an empty position
                    if size_zero is not True:
                        per.setdefault("empty", []).append("a path answers without valuing the position although its size is not known to be zero")
                    else:
                        per.setdefault("empty", []).append(None)
                    continue
                r = sym.unwrap(q.ret)
                nv = ix.inline(sym.field(r, "position_notional"))
                bad = None
                if size_zero is True:
                    bad = "the position is valued only when its size IS zero: a live position gets notional 0 and pnl 0"
                if var in want_msg:
                    pq = ix.parse_query(nv)
                    mv = ix.msg_variant(pq["msg"]) if pq else None
                    if not mv or mv[1] != want_msg[var]:
                        bad = "the %s figure is obtained with vAMM query %s" % (var, mv[1] if mv else "?")
                    elif ix.inline(pq["addr"]) != p_vamm:
                        bad = "the %s figure is asked of %s, not of position.vamm" % (var, sym.show(ix.inline(pq["addr"]), 4))
                    elif ix.inline(mv[2].get("direction")) != p_dir or ix.inline(mv[2].get("amount")) != p_size:
                        bad = "the %s figure is asked for (%s, %s), not (position.direction, |position.size|)" % (var, sym.show(ix.inline(mv[2].get("direction")), 4), sym.show(ix.inline(mv[2].get("amount")), 4))
                elif var == "Oracle":
                    nn = N(ix, nv)
                    okn = False
                    if nn[0] == "div" and nn[1][0] == "mul":
                        fac = [nn[1][1], nn[1][2]]
                        qs = [x for x in fac if x[0] == "leaf" and isinstance(x[1], int) and ix.parse_query(x[1])]
                        sz = [x for x in fac if x == ("leaf", p_size)]
                        if len(qs) == 1 and len(sz) == 1:
                            pq = ix.parse_query(qs[0][1])
                            mv = ix.msg_variant(pq["msg"])
                            dec = nn[2]
                            okn = bool(mv) and mv[1] == "UnderlyingPrice" and ix.inline(pq["addr"]) == p_vamm and dec[0] == "leaf" and isinstance(dec[1], int) \
                                and guards.is_field_of_item(ix, dec[1], ENG, "margined_engine:config", "decimals")
                    if not okn:
                        bad = "the Oracle notional is %s, not underlying_price(position.vamm) * |size| / config.decimals" % norm.show(nn)[:120]
                if bad is None and is_long is not None:
                    pn = N(ix, sym.field(r, "unrealized_pnl"))
                    a_, b_ = ("pos", N(ix, nv)), ("pos", ("leaf", p_notional))
                    wantp = ("isub", a_, b_) if is_long else ("isub", b_, a_)
                    if pn != wantp:
                        bad = "pnl of a %s is %s" % ("long" if is_long else "short", norm.show(pn)[:140])
                elif bad is None:
                    bad = "the pnl's sign is not decided by the position's direction on this path"
                per.setdefault(var, []).append(bad)
        if "empty" in per:
            be = [x for x in per["empty"] if x]
            ctx.inst("R06.8", "valuation:empty-position-shortcut", not be, f.where(), be[0] if be else "%d paths answer (0, 0) unvalued, each with size == 0 established" % len(per["empty"]))
        for var in ("SpotPrice", "Twap", "Oracle"):
            res = per.get(var, [])
            b = [x for x in res if x]
            ctx.inst("R06.8", "valuation:%s" % var, bool(res) and not b, f.where(), b[0] if b else ("%d paths (long and short): right figure, pnl signed by direction" % len(res) if res else "no path for this option"))

    # ---------------------------------------------------------------- R06.7
    # both functions that produce a margin ratio (the MarginRatio query and the per-option one Liquidate uses for the
    # oracle price) return ((remain.margin - remain.bad_debt) * decimals) / notional, where remain is the remain-margin
    # result of (the loaded position, the pnl of the figures chosen) - funding owed is part of every ratio
    ctx.rule("R06.7", "every margin-ratio function returns ((remain_margin.margin - remain_margin.bad_debt) * decimals) / notional with remain_margin charged with the chosen pnl (funding included)", 2)
    n7 = 0
    # anchors by use: the ratio functions are the ones the MarginRatio query arm and the Liquidate handler call
    ratio_users = set()
    try:
        mra = arms.Arm(ix, ENG, "MarginRatio", entry="query")
        for q in mra.ok_paths():
            ratio_users.update(e.target.key for e in q.events if e.target is not None)
        ratio_users.add(mra.fn.key)
    except KeyError as e:
        ctx.lost("R06.7", str(e))
    def callees(fn, depth, acc):
        try:
            ps = ix.ok_paths(fn)
        except Exception:
            return
        for q in ps:
            for e in q.events:
                if e.target is not None and e.target.key not in acc:
                    acc.add(e.target.key)
                    if depth > 0:
                        callees(e.target, depth - 1, acc)
    callees(ex.fn, 2, ratio_users)
    for f in sorted(ctx.world.crate_fns(ENG), key=lambda f: f.pretty):
        if f.derived or "::_::" in f.pretty or f.kind == "Closure" or f.arg_count < 3 or f.key not in ratio_users:
            continue
        if not f.locals[0]["ty"].replace(" ", "").endswith("Integer,cosmwasm_std::StdError>"):
            continue
        tys = [f.locals[i + 1]["ty"] for i in range(f.arg_count)]
        if sum(1 for t in tys if t.endswith("String")) != 2 or not any("Deps" in t for t in tys):
            continue
        try:
            oks = ix.ok_paths(f)
        except Exception:
            continue
        bad = None
        live = 0
        def ratio_part(e, f=f):
            # helpers the ratio computation was split into: the pnl chooser, or a function that finishes the ratio
            t = e.target
            return t.key != f.key and (pnl_chooser(e) or (is_ratio_fn(t) and t.key not in base_fns and any("Deps" in t.locals[i + 1]["ty"] for i in range(t.arg_count))))
        for q in splice(ix, oks, ratio_part):
            r = N(ix, sym.unwrap(q.ret))
            if r == ("pos", ("int", 0)) or r == ("int", 0):
                continue   # the zero-size early return
            live += 1
            rms = em.remain_margin_calls(q)
            if not rms:
                bad = bad or "a path computes the ratio without the remain-margin (funding) computation: returns %s" % norm.show(r)[:200]
                continue
            rmv = ix.inline(sym.unwrap(rms[-1].result))
            mleaf = hole("rm.margin", lambda v, rmv=rmv: ix.inline(v) == ix.inline(sym.field(rmv, "margin")))
            bleaf = hole("rm.bad_debt", lambda v, rmv=rmv: ix.inline(v) == ix.inline(sym.field(rmv, "bad_debt")))
            WANT = ("idiv", ("imul", ("isub", ("pos", mleaf), ("pos", bleaf)), ("pos", em.cfg_leaf("decimals"))), ("pos", anyhole("notional")))
            b = match(WANT, r)
            if b is None:
                bad = bad or "returns %s" % norm.show(r)[:240]
                continue
            # the remain-margin call is charged with the pnl that belongs to the notional in the denominator
            pnl_arg = ix.inline(rms[-1].args[2]) if len(rms[-1].args) > 2 else None
            den = ix.inline(b["notional"]) if not isinstance(b["notional"], tuple) else None
            ok_pair = False
            for e in q.events:
                if e.target is not None and "PositionUnrealizedPnlResponse" in e.target.locals[0]["ty"]:
                    res = sym.unwrap(e.result)
                    if pnl_arg == ix.inline(sym.field(res, "unrealized_pnl")) and (den is None or den == ix.inline(sym.field(res, "position_notional"))):
                        ok_pair = True
            if not ok_pair:
                bad = bad or "remain-margin is not charged with the unrealized pnl of the figures whose notional is the denominator"
            # ... and computed on the STORED record (a copy already netted of funding would be charged twice)
            pa = [a_ for a_, i_ in zip(rms[-1].args, range(rms[-1].target.arg_count)) if "Position" in rms[-1].target.locals[i_ + 1]["ty"]]
            if pa:
                for fld in ("margin", "last_updated_premium_fraction", "size"):
                    fi = ix.inline(sym.field(pa[0], fld))
                    if not (tag(fi) == "field" and payload(fi)[0] == fld and load_key(ix, kids(fi)[0]) is not None):
                        bad = bad or "the ratio's settlement reads %s = %s, not the stored record's" % (fld, sym.show(fi, 4)[:120])
        if live == 0:
            continue
        n7 += 1
        ctx.inst("R06.7", "ratio-tree:%s" % short_fn(f), bad is None, f.where(), bad or "%d non-trivial paths return ((rm.margin - rm.bad_debt) * decimals) / notional, rm = remain-margin(position, pnl of the same figures)" % live)

    # ---------------------------------------------------------------- R06.4
    try:
        sa = arms.Arm(ix, VAMM, "IsOverSpreadLimit", entry="query")
        bad = None

        def vcfg(v, f):
            return guards.is_field_of_item(ix, v, VAMM, "margined_vamm:config", f)

        def oracle_price(v):
            qq = ix.parse_query(v)
            mv = ix.msg_variant(qq["msg"]) if qq and qq.get("msg") is not None else None
            return bool(mv and mv[1] == "GetPrice")
        orc = hole("oracle", oracle_price)
        dec = hole("decimals", lambda v: vcfg(v, "decimals"))
        mkt = anyhole("market")
        L = ("abs", ("idiv", ("imul", ("isub", ("pos", mkt), ("pos", orc)), ("pos", dec)), ("pos", orc)))
        R = ("idiv", ("pos", dec), ("pos", ("int", 10)))
        n = 0
        for q in sa.ok_paths():
            r = ix.inline(sym.unwrap(q.ret))
            n += 1
            if not (tag(r) == "op" and payload(r)[0] == "ge" and match(L, N(ix, kids(r)[0])) is not None and match(R, N(ix, kids(r)[1])) is not None):
                bad = bad or "returns %s" % (sym.show(r, 5))
            else:
                b = match(L, N(ix, kids(r)[0]))
                mk = b["market"]
                # market price = quote * decimals / base of the State
                MP = ("div", ("mul", hole("q", lambda v: guards.is_field_of_item(ix, v, VAMM, "margined_vamm:state", "quote_asset_reserve")), dec),
                      hole("b", lambda v: guards.is_field_of_item(ix, v, VAMM, "margined_vamm:state", "base_asset_reserve")))
                if match(MP, mk) is None:
                    bad = bad or "market price is %s" % norm.show(mk)
        ctx.inst("R06.4", "spread-limit-formula", bad is None and n > 0, sa.fn.where(), bad or "|((quote*D/base - oracle) * D) / oracle| >= D/10")
    except KeyError as e:
        ctx.lost("R06.4", str(e))

    # ---------------------------------------------------------------- R06.5 / R06.6
    from .c03 import transfers_of
    for ckey, rule, label in (("Liquidate>id6", "R06.5", "full"), ("Liquidate>id7", "R06.6", "partial")):
        st = em.reply_step(ckey)
        if st is None:
            ctx.lost(rule, ckey)
            continue
        inp, outp = em.reply_io(st)
        FEE = ("div", ("div", ("mul", hole("output", lambda v: v == outp), em.cfg_leaf("liquidation_fee")), em.cfg_leaf("decimals")), ("int", 2))
        bad = None
        n = 0
        for q in st.ok_paths():
            for s in em.emitted(q):
                for (kind, payer, recv, amount) in transfers_of(ix, s):
                    if payer is not None:
                        bad = bad or "a liquidation pulls funds from %s" % sym.show(ix.inline(payer), 4)
                    if guards.loaded_item(ix, recv, ENG) == LIQ:
                        n += 1
                        if match(FEE, N(ix, amount)) is None:
                            bad = bad or "liquidator receives %s" % norm.show(N(ix, amount))
                    elif label == "partial" and em.cfg(recv, "insurance_fund"):
                        if match(FEE, N(ix, amount)) is None:
                            bad = bad or "insurance fund receives %s" % norm.show(N(ix, amount))
                    elif label == "full" and em.cfg(recv, "insurance_fund"):
                        # the remaining margin: remain-margin result minus the liquidator's fee, nothing else
                        rms = em.remain_margin_calls(q)
                        rmv = ix.inline(sym.field(sym.unwrap(rms[0].result), "margin")) if rms else None
                        REST = ("sub", hole("rm.margin", lambda v: rmv is not None and ix.inline(v) == rmv), FEE)
                        if match(REST, N(ix, amount)) is None:
                            bad = bad or "insurance fund receives %s, not (remaining margin - liquidator fee)" % norm.show(N(ix, amount))
                    elif not em.cfg(recv, "insurance_fund"):
                        bad = bad or "a liquidation pays %s (only the liquidator and the insurance fund may receive)" % sym.show(ix.inline(recv), 4)
                    elif payer is not None:
                        bad = bad or "a liquidation pulls funds from %s" % sym.show(ix.inline(payer), 4)
        ctx.inst(rule, "liquidator-fee:%s" % label, bad is None and n > 0, st.fn.where(),
                 bad or "%d payout constructions: (output * liquidation_fee / decimals) / 2%s" % (n, " to both liquidator and insurance fund" if label == "partial" else ""))
        if label == "full":
            badr = [q for q in st.ok_paths() if not any(wr["must"] for wr in em.removed_position(st, q))]
            ctx.inst(rule, "position-removed:full", not badr and bool(st.ok_paths()), st.fn.where(), "position removed on %s success paths" % ("all" if not badr else "NOT all"))
    # partial: swapped amount in the execute step
    bad = None
    n = 0
    for q in ex.ok_paths():
        for s in em.emitted(q):
            if s.id_int() != 7:
                continue
            mv = ix.msg_variant(s.inner_msg())
            if not mv or mv[1] != "SwapOutput":
                continue
            n += 1
            amt = N(ix, mv[2]["base_asset_amount"])
            WANT = ("div", ("mul", hole("size", lambda v: tag(ix.inline(v)) == "field" and payload(ix.inline(v))[0] == "value"), em.cfg_leaf("partial_liquidation_ratio")), em.cfg_leaf("decimals"))
            if match(WANT, amt) is None:
                bad = bad or "partial liquidation swaps %s" % norm.show(amt)
    ctx.inst("R06.6", "partial-amount", bad is None and n > 0, ex.fn.where(), bad or "%d SwapOutput emissions: size.value * partial_liquidation_ratio / decimals" % n)


    # ---------------------------------------------------------------- R06.9
    # "pays the liquidator exactly half ..." - the liquidator is the caller of THIS Liquidate: the reply pays the address
    # in the in-flight slot, so the handler must have stored info.sender there on every success path, unconditionally
    # (same rule as R03.5; round-10 seed C06l kept an address left by an earlier fee-free liquidation)
    ctx.rule("R06.9", "the liquidator a liquidation reply pays is the sender of this Liquidate (slot written unconditionally with info.sender)", 1)
    liquidator_is_sender_instance(ctx, em, "R06.9")
