"""C15 — Per-block price band: opening trades cannot push the price past the limit."""
from .. import sym, guards, arms, model, norm
from ..norm import N, match, hole, anyhole
from ..sym import tag, payload, kids
from .common import *

EXPLANATION = ("R15.1 every SwapInput the OpenPosition chains emit (increase, reduce, chained increase after a reversal) carries the "
               "constant can_go_over_fluctuation=false; R15.2 in the vAMM the reserve write is preceded by the band check: the "
               "'already outside' test is unconditional and strict, the 'would leave' test is skipped only under the flag; "
               "R15.3 ClosePosition asks the fluctuation query about the position's own closing direction and whole size; "
               "R15.4 partial close is chosen exactly when the query says over-limit and ratio < 1, with amount size*ratio/decimals; "
               "R15.5 the reference snapshot is the previous one iff the latest is from the current block and is not the first, and "
               "both the execute-side check and the query pass their own Env unchanged. R15.6 the band formula p*(D -/+ r)/D around the reference snapshot and the compared current / post-trade prices.")
NOT_DECIDED = "the band arithmetic (price from reserves, +/- limit)."

VAMM = "margined_vamm"
ENG = "margined_engine"


def band_instances(ctx, rule):
    """vAMM band check before every reserve write (shared by C15 R15.2 and C07 R07.6)"""
    ix = ctx.ix
    w = ctx.world
    # ---------------------------------------------------------------- R15.2
    # the reserve writer: a vAMM function whose success paths write State reserves; its band check callee
    def vstate_write(e):
        may, _ = ix.event_effects(e)
        return ("write", "margined_vamm:state") in may
    for variant in ("SwapInput", "SwapOutput"):
        try:
            a = arms.Arm(ix, VAMM, variant)
        except KeyError as e:
            ctx.lost(rule, str(e))
            continue
        # predicate: limit==0, or (already-outside tests false) and (flag or would-leave tests false)
        flag_const = {"v": False}

        def band_pred(facts):
            zero = False
            cur_hi = cur_lo = new_hi = new_lo = False
            flag_true = False
            for (at, o) in facts:
                if tag(at) == "op":
                    nm = payload(at)[0]
                    ks = kids(at)
                    if nm == "is_zero" and o is True and guards.is_field_of_item(ix, ks[0], VAMM, "margined_vamm:config", "fluctuation_limit_ratio"):
                        zero = True
                    if nm in ("le", "ge") and o is True and len(ks) == 2:
                        # `p <= upper` / `p >= lower` established (a `contains` helper) is `p > upper` / `p < lower` refuted
                        nm, o = {"le": "gt", "ge": "lt"}[nm], False
                    if nm in ("gt", "lt") and o is False and len(ks) == 2:
                        l, r = ks
                        def _from_call(x):
                            if tag(x) != "field" or not kids(x):
                                return False
                            b0 = kids(x)[0]
                            while tag(b0) == "unwrap":
                                b0 = kids(b0)[0]
                            return tag(b0) == "call" and ix.call_target(b0) is not None
                        # a bound: a component of the value a workspace function returned (tuple .0/.1 or a named field
                        # of a band struct) - never a constant
                        is_limit = any(_from_call(x) for x in sym.walk(ix.inline(r)))
                        has_amount = any(tag(x) == "param" and payload(x)[2] in ("quote_asset_amount", "base_asset_amount") for x in sym.walk(l))
                        if not is_limit:
                            continue   # a comparison with a constant (0, MAX) is no band test: both real bounds are required
                        if nm == "gt":
                            if has_amount:
                                new_hi = True
                            else:
                                cur_hi = True
                        else:
                            if has_amount:
                                new_lo = True
                            else:
                                cur_lo = True
                if o is True and tag(at) == "param" and payload(at)[2] in ("can_go_over_limit", "can_go_over_fluctuation"):
                    flag_true = True
            if zero:
                return "limit==0"
            if cur_hi and cur_lo and ((new_hi and new_lo) or flag_true or flag_const["v"]):
                return "band"
            return False
        bad = None
        n = 0
        exempt = []
        for q in a.ok_paths():
            if not any(vstate_write(e) for e in q.events):
                continue
            n += 1
            if variant == "SwapOutput":
                for e in q.events:
                    if e.target is not None and vstate_write(e):
                        bools = [x for x in e.args if tag(ix.inline(x)) == "bool"]
                        exempt.append(bool(bools) and all(payload(ix.inline(x))[0] == 1 for x in bools))
            # the check lives in the writer's callee: evaluate writer paths
            ok = False
            for e in q.events:
                if e.target is not None and vstate_write(e):
                    cv = e.result
                    # a literal `true` flag handed to the writer (closing swaps may leave the band by design)
                    flag_const["v"] = variant == "SwapOutput" and any(tag(x) == "bool" and payload(x)[0] == 1 for x in e.args)
                    if guards.callee_all_satisfy(ix, cv, band_pred, 4):
                        ok = True
                    flag_const["v"] = False
            if not ok and not guards.path_satisfies(ix, q, band_pred, None):
                bad = bad or q
        if variant == "SwapOutput" and rule == "R07.6":
            # availability side (C07): the swap that closes or liquidates a position is not refused for leaving the band -
            # SwapOutput hands the reserve writer its "may go over" flag as the literal true
            ctx.inst(rule, "closing-swap-not-band-limited:SwapOutput", bool(exempt) and all(exempt), a.fn.where(),
                     "%d reserve-writer calls; the may-go-over flag is %s" % (len(exempt), "the literal true" if exempt and all(exempt) else "NOT the literal true: a liquidation that moves the price past the band is refused"))
        ctx.inst(rule, "band-before-write:%s" % variant, bad is None and n > 0, a.fn.where(),
                 "%d writing success paths; %s" % (n, "each reserve write is preceded by the strict already-outside tests and (flag or would-leave tests), or limit==0" if bad is None
                    else "a reserve write is not covered by the band check (or the check is not the strict/unconditional form)"))


def run(ctx):
    ix = ctx.ix
    w = ctx.world
    ctx.rule("R15.1", "SwapInput emitted on OpenPosition chains carries can_go_over_fluctuation = false", 3)
    ctx.rule("R15.2", "vAMM band check precedes every reserve write; already-outside is unconditional and strict; would-leave skipped only under the flag", 3)
    ctx.rule("R15.3", "ClosePosition's fluctuation query: direction follows the position, amount is the whole size", 2)
    ctx.rule("R15.4", "partial vs whole close decision and partial amount formula", 2)
    ctx.rule("R15.5", "reference snapshot choice; callers pass their Env unchanged", 3)

    # ---------------------------------------------------------------- R15.1
    chains = arms.engine_chains(ix, ENG)
    seen = {}
    for key, sts in chains.items():
        if key.split(">")[0] != "OpenPosition":
            continue
        for st in sts:
            for q in st.ok_paths():
                for s in model.path_submsgs(ix, q):
                    mv = ix.msg_variant(s.inner_msg())
                    if not mv or mv[1] != "SwapInput":
                        continue
                    flag = mv[2].get("can_go_over_fluctuation")
                    ok = flag is not None and tag(flag) == "bool" and payload(flag)[0] == 0
                    k = "flag-false:%s:id%s" % (short_fn(st.fn), s.id_int())
                    prev = seen.get(k)
                    seen[k] = (ok and (prev[0] if prev else True), st, flag)
    for k, (ok, st, flag) in sorted(seen.items()):
        ctx.inst("R15.1", k, ok, st.fn.where(), "can_go_over_fluctuation = %s" % (sym.show(flag, 4) if flag is not None else "missing"))

    # ... and the other way round: "otherwise it closes exactly the configured fraction" - the partial close must go
    # through although it may itself end outside the band, so the SwapInput the ClosePosition arm emits for it carries
    # can_go_over_fluctuation = true (blind sweep: the literal flipped to false refused the partial close)
    exc = None
    n_pc = 0
    for key, sts in chains.items():
        if key.split(">")[0] != "ClosePosition":
            continue
        for st in sts[:1]:
            for q in st.ok_paths():
                for s in model.path_submsgs(ix, q):
                    mv = ix.msg_variant(s.inner_msg())
                    if not mv or mv[1] != "SwapInput":
                        continue
                    n_pc += 1
                    flag = ix.inline(mv[2].get("can_go_over_fluctuation")) if mv[2].get("can_go_over_fluctuation") is not None else None
                    if not (flag is not None and tag(flag) == "bool" and payload(flag)[0]):
                        exc = exc or (st, flag)
    if n_pc:
        ctx.inst("R15.1", "flag-true:partial-close", exc is None, (exc[0] if exc else sts[0]).fn.where(),
                 "%d partial-close SwapInput emissions; can_go_over_fluctuation = %s" % (n_pc, "true" if exc is None else (sym.show(exc[1], 4) if exc[1] is not None else "missing")))
    else:
        ctx.lost("R15.1", "partial-close SwapInput of the ClosePosition arm")

    band_instances(ctx, "R15.2")

    def vstate_write(e):
        may, _ = ix.event_effects(e)
        return ("write", "margined_vamm:state") in may
    # flag plumbing: swap_output passes constant true, swap_input passes its message flag
    try:
        a = arms.Arm(ix, VAMM, "SwapInput")
        okf = True
        for q in a.ok_paths():
            for e in q.events:
                if e.target is not None and vstate_write(e):
                    if a.msgfield("can_go_over_fluctuation") not in [a.s(x) for x in e.args]:
                        okf = False
        ctx.inst("R15.2", "flag-plumbing:SwapInput", okf, a.fn.where(), "message flag %s the reserve writer unchanged" % ("reaches" if okf else "does NOT reach"))
    except KeyError as e:
        ctx.lost("R15.2", str(e))

    # ---------------------------------------------------------------- R15.3 / R15.4
    try:
        a = arms.Arm(ix, ENG, "ClosePosition")
    except KeyError as e:
        ctx.lost("R15.3", str(e))
        return
    POS = "margined_engine:position"
    dirs = {}
    amt_bad = None
    dec_bad = None
    n_part = n_whole = 0
    formula_bad = None
    for q in a.ok_paths():
        # the fluctuation query on this path
        fq = None
        for e in q.events:
            qq = ix.parse_query(e.result)
            if qq and qq.get("msg") is not None:
                mv = ix.msg_variant(qq["msg"])
                if mv and mv[1] == "IsOverFluctuationLimit":
                    fq = (e, mv)
        if fq is None:
            dec_bad = dec_bad or "a success path makes no IsOverFluctuationLimit query"
            continue
        e, mv = fq
        d = ix.inline(mv[2]["direction"])
        amount = ix.inline(mv[2]["base_asset_amount"])
        # position sign on this path
        sign = None
        for (at, o, _b, _l) in q.conds:
            ai = ix.inline(at)
            if tag(ai) == "op" and payload(ai)[0] == "gt" and len(kids(ai)) == 2:
                l, r = kids(ai)
                li = ix.inline(l)
                if tag(li) == "field" and payload(li)[0] == "size" and guards.loaded_item(ix, kids(li)[0], ENG) == POS:
                    sign = "long" if o is True else "short"
            if tag(ai) == "op" and payload(ai)[0] == "eq":
                for u, v in (kids(ai), kids(ai)[::-1]):
                    ui = ix.inline(u)
                    if tag(ui) == "field" and payload(ui)[0] == "direction" and guards.loaded_item(ix, kids(ui)[0], ENG) == POS and tag(v) == "agg":
                        isadd = (payload(v)[1] == "AddToAmm") == (o is True)
                        sign = "long" if isadd else "short"
        dname = payload(d)[1] if tag(d) == "agg" else ("position.direction" if (tag(d) == "field" and payload(d)[0] == "direction") else sym.show(d, 4))
        dirs.setdefault(sign, set()).add(dname)
        ai = amount
        ok_amt = tag(ai) == "field" and payload(ai)[0] == "value" and tag(kids(ai)[0]) == "field" and payload(kids(ai)[0])[0] == "size" \
            and guards.loaded_item(ix, kids(kids(ai)[0])[0], ENG) == POS
        if not ok_amt:
            amt_bad = amt_bad or sym.show(ai, 5)
        # decision
        ids = {s.id_int() for s in model.path_submsgs(ix, q) if s.reply_on_name() == "Always"}
        over = None
        ratio_lt = None
        for (at, o, _b, _l) in q.conds:
            if at == sym.unwrap(e.result) or ix.inline(at) == ix.inline(sym.unwrap(e.result)):
                over = o
            ai2 = ix.inline(at)
            if tag(ai2) == "op" and payload(ai2)[0] == "lt" and len(kids(ai2)) == 2:
                l, r = kids(ai2)
                if guards.is_field_of_item(ix, l, ENG, "margined_engine:config", "partial_liquidation_ratio") and \
                   guards.is_field_of_item(ix, r, ENG, "margined_engine:config", "decimals"):
                    ratio_lt = o
        partial = 5 in ids
        if partial:
            n_part += 1
            if not (over is True and ratio_lt is True):
                dec_bad = dec_bad or "partial close chosen with over=%s ratio<1=%s" % (over, ratio_lt)
            # amount formula: size.value * ratio / decimals flows into the output-amount query
            want_ok = False
            # the partial branch may live in a helper: open the engine helpers called on this path (two levels)
            deep = splice(ix, [q], lambda e_: e_.target.crate == ENG and any("DepsMut" in e_.target.locals[i + 1]["ty"] for i in range(e_.target.arg_count)), rounds=4)
            for e2 in [x for dq in deep for x in dq.events]:
                if e2.name == "cosmwasm_std::Uint128::checked_div" and len(e2.args) == 2:
                    num = e2.args[0]
                    if guards.is_field_of_item(ix, e2.args[1], ENG, "margined_engine:config", "decimals") and tag(num) == "unwrap":
                        m_ = kids(num)[0]
                        if tag(m_) == "op" and payload(m_)[0] == "u.checked_mul":
                            x, y = kids(m_)
                            if ix.inline(x) == amount and guards.is_field_of_item(ix, y, ENG, "margined_engine:config", "partial_liquidation_ratio"):
                                want_ok = True
            if not want_ok:
                formula_bad = formula_bad or "partial amount is not size.value * partial_liquidation_ratio / decimals"
        else:
            n_whole += 1
            if over is True and ratio_lt is True:
                dec_bad = dec_bad or "whole close chosen although over-limit and ratio < 1"
    ok_dir = dirs.get("long") == {"AddToAmm"} and dirs.get("short") == {"RemoveFromAmm"}
    ok_dir = ok_dir or (set(dirs.keys()) == {None} and dirs[None] == {"position.direction"})
    ctx.inst("R15.3", "close-direction:%s" % short_fn(a.fn), ok_dir, a.fn.where(),
             "direction asked per position sign: %s (required: long -> AddToAmm, short -> RemoveFromAmm, i.e. the closing swap's own direction)" %
             {k: sorted(v) for k, v in dirs.items()})
    ctx.inst("R15.3", "close-amount:%s" % short_fn(a.fn), amt_bad is None, a.fn.where(), "amount asked = %s" % ("position.size.value" if amt_bad is None else amt_bad))
    ctx.inst("R15.4", "close-decision:%s" % short_fn(a.fn), dec_bad is None and n_part > 0 and n_whole > 0, a.fn.where(),
             "%d partial and %d whole success paths; %s" % (n_part, n_whole, dec_bad or "partial iff (query says over) and (partial_liquidation_ratio < decimals)"))
    ctx.inst("R15.4", "partial-amount:%s" % short_fn(a.fn), formula_bad is None and n_part > 0, a.fn.where(), formula_bad or "size.value * partial_liquidation_ratio / decimals")

    # ---------------------------------------------------------------- R15.5
    pb = None
    for f in w.crate_fns(VAMM):
        if f.name == "price_boundaries_of_last_block":
            pb = f
    # anchor by behaviour, not by name: the function that loads snapshot[counter] and snapshot[counter-1]
    cands = []
    for f in w.crate_fns(VAMM):
        if f.derived or "::_::" in f.pretty or f.kind == "Closure":
            continue
        try:
            oks = ix.ok_paths(f)
        except Exception:
            continue
        keys = set()
        for p in oks:
            for e in p.events:
                for x in e.args:
                    for y in sym.walk(x):
                        if tag(y) == "op" and payload(y)[0] == "sub" and any(tag(k) == "int" and payload(k)[0] == "1" for k in kids(y)):
                            keys.add("minus1")
        if "minus1" in keys and any(("read", "margined_vamm:reserve_snapshot") in ix.event_effects(e)[0] for p in oks for e in p.events):
            cands.append(f)

    def reach(fn, acc):
        if fn.key in acc:
            return
        acc.add(fn.key)
        try:
            for p in ix.ok_paths(fn):
                for e in p.events:
                    if e.target is not None:
                        reach(e.target, acc)
        except Exception:
            pass
    ra, rb = set(), set()
    try:
        reach(arms.Arm(ix, VAMM, "SwapInput").fn, ra)
        reach(arms.Arm(ix, VAMM, "IsOverFluctuationLimit", entry="query").fn, rb)
    except KeyError as e:
        ctx.lost("R15.5", str(e))
    cands = [f for f in cands if f.key in ra and f.key in rb]
    if not cands:
        ctx.lost("R15.5", "vAMM function selecting the reference snapshot (loads snapshot[counter-1])")
    for f in cands:
        bad = None
        n_prev = n_last = 0
        envp = None
        for i in range(f.arg_count):
            if f.locals[i + 1]["ty"].endswith("cosmwasm_std::Env"):
                envp = sym.param(f.key, i, f.param_name(i))
        h = sym.field(sym.field(envp, "block"), "height") if envp is not None else None
        for p in ix.ok_paths(f):
            same_block = None
            not_first = None
            for (at, o, _b, _l) in p.conds:
                ai = ix.inline(at)
                if tag(ai) == "op" and payload(ai)[0] == "eq" and h in kids(ai):
                    other = [k for k in kids(ai) if k != h][0]
                    oi = ix.inline(other)
                    if tag(oi) == "field" and payload(oi)[0] == "block_height":
                        same_block = o
                if tag(ai) == "op" and payload(ai)[0] == "gt" and tag(kids(ai)[1]) == "int" and payload(kids(ai)[1])[0] == "1":
                    not_first = o
            uses_prev = any(tag(y) == "op" and payload(y)[0] == "sub" for e in p.events for x in e.args for y in sym.walk(x)
                            if e.target is not None or "load" in e.name)
            if uses_prev:
                n_prev += 1
                if not (same_block is True and not_first is True):
                    bad = bad or "previous snapshot used with same_block=%s not_first=%s" % (same_block, not_first)
            else:
                n_last += 1
                if same_block is True and not_first is True:
                    bad = bad or "latest snapshot used although it is from this block and not the first"
        ctx.inst("R15.5", "reference-snapshot:%s" % short_fn(f), bad is None and n_prev > 0 and n_last > 0, f.where(),
                 "%d paths use the previous snapshot, %d the latest; %s" % (n_prev, n_last, bad or "previous iff (latest.block_height == env.block.height and counter > 1)"))
        # callers pass their own env unchanged
        for g in w.crate_fns(VAMM):
            if g.derived or "::_::" in g.pretty or g.kind == "Closure":
                continue
            try:
                oks = ix.ok_paths(g)
            except Exception:
                continue
            genv = None
            for i in range(g.arg_count):
                if g.locals[i + 1]["ty"].endswith("cosmwasm_std::Env"):
                    genv = sym.param(g.key, i, g.param_name(i))
            calls = [(p, e) for p in oks for e in p.events if e.target is not None and e.target.key == f.key]
            if not calls:
                continue
            okc = all(genv is not None and genv in e.args for (_p, e) in calls)
            ctx.inst("R15.5", "env-unchanged:%s" % short_fn(g), okc, g.where(),
                     "%d call(s) to the reference-snapshot selector; env argument %s" % (len(calls), "is the caller's own Env" if okc else
                        "is NOT the caller's unmodified Env: %s" % "; ".join(sym.show(a, 4)[:80] for a in calls[0][1].args)))

    # ---------------------------------------------------------------- R15.6
    # the band itself: [p*(D - r)/D, p*(D + r)/D] around the reference snapshot's price p = quote*D/base with r the
    # configured limit ratio; and the price the check compares with it: the current (q*D/b) and the post-trade
    # ((q +/- x)*D/(b -/+ y)) price of the stored reserves
    ctx.rule("R15.6", "band and compared prices: bounds p*(D -/+ r)/D around the reference snapshot's quote*D/base; current price q*D/b and post-trade price (q +/- x)*D/(b -/+ y) of the stored reserves", 3)

    def cfgf(name):
        return hole("cfg." + name, lambda v, name=name: guards.is_field_of_item(ix, v, VAMM, "margined_vamm:config", name))

    def snapf(name):
        def pred(v, name=name):
            vi = ix.inline(v)
            return tag(vi) == "field" and payload(vi)[0] == name and guards.loaded_item(ix, kids(vi)[0], VAMM) == "margined_vamm:reserve_snapshot"
        return hole("snap." + name, pred)

    def statef(name):
        return hole("state." + name, lambda v, name=name: guards.is_field_of_item(ix, v, VAMM, "margined_vamm:state", name))
    roles = {}    # boundaries function -> {component name: 'upper' | 'lower'}

    def band_component(v):
        """'upper' / 'lower' when v is that component of a boundaries function's answer"""
        v0 = ix.inline(v)
        while tag(v0) in ("unwrap", "ok"):
            v0 = kids(v0)[0]
        if tag(v0) != "field":
            return None
        b0 = kids(v0)[0]
        while tag(b0) in ("unwrap", "ok"):
            b0 = kids(b0)[0]
        if tag(b0) == "call" and ix.call_target(b0) is not None and ix.call_target(b0).key in roles:
            return roles[ix.call_target(b0).key].get(payload(v0)[0])
        return None
    for f in cands:
        bad = None
        n_p = 0
        P = ("div", ("mul", snapf("quote_asset_reserve"), cfgf("decimals")), snapf("base_asset_reserve"))
        UP = ("div", ("mul", P, ("add", cfgf("decimals"), cfgf("fluctuation_limit_ratio"))), cfgf("decimals"))
        LO = ("div", ("mul", P, ("sub", cfgf("decimals"), cfgf("fluctuation_limit_ratio"))), cfgf("decimals"))
        for p in ix.ok_paths(f):
            r = ix.inline(sym.unwrap(p.ret))
            # the two components of the answer - a pair, or a band struct with two named fields: which is the upper and
            # which the lower bound is read off the formulas, not off positions or names
            names = list(payload(r)[2]) if tag(r) == "agg" else ["0", "1"]
            n_p += 1
            mu = ml = None
            prole = {}
            for nme in names:
                cv = N(ix, sym.field(r, nme))
                m1, m2 = match(UP, cv), match(LO, cv)
                if m1 is not None and mu is None:
                    mu, prole[nme] = m1, "upper"
                elif m2 is not None and ml is None:
                    ml, prole[nme] = m2, "lower"
            if len(names) != 2 or mu is None or ml is None:
                bad = bad or "the answer's components are %s - not one upper and one lower bound" % "; ".join("%s = %s" % (nme, norm.show(N(ix, sym.field(r, nme)))[:160]) for nme in names[:3])
            elif roles.setdefault(f.key, prole) != prole:
                bad = bad or "the paths disagree on which component is the upper bound"
            else:
                # both bounds around the same snapshot
                sq, sb = ix.inline(mu["snap.quote_asset_reserve"][1]), ix.inline(mu["snap.base_asset_reserve"][1])
                lq, lb = ix.inline(ml["snap.quote_asset_reserve"][1]), ix.inline(ml["snap.base_asset_reserve"][1])
                if not (kids(sq)[0] == kids(sb)[0] == kids(lq)[0] == kids(lb)[0]):
                    bad = bad or "the bounds mix reserves of different snapshots"
        ctx.inst("R15.6", "band-formula:%s" % short_fn(f), bad is None and n_p > 0, f.where(), bad or "%d paths: (p*(D+r)/D, p*(D-r)/D) with p = snapshot.quote*D/snapshot.base" % n_p)
        # the compared prices, in every function that compares something with this function's result
        for g in sorted(w.crate_fns(VAMM), key=lambda g: g.pretty):
            if g.derived or "::_::" in g.pretty or g.kind == "Closure" or g.key == f.key:
                continue
            try:
                oks = ix.ok_paths(g)
            except Exception:
                continue
            cmp_l = []
            wrong_way = []
            for p in oks:
                dirv = None
                for (at, o, _b, _l) in p.conds:
                    if tag(at) == "op" and payload(at)[0] == "eq" and o in (True, False):
                        for k in kids(at):
                            if tag(k) == "agg" and payload(k)[0].endswith("Direction") and not kids(k):
                                dirv = payload(k)[1] if o else ("RemoveFromAmm" if payload(k)[1] == "AddToAmm" else "AddToAmm")
                    if tag(at) == "op" and payload(at)[0] == "discr" and isinstance(o, tuple) and o[0] == "variant" and o[1] in ("AddToAmm", "RemoveFromAmm"):
                        dirv = o[1]
                for (at, o, _b, _l) in p.conds:
                    if tag(at) == "op" and payload(at)[0] in ("gt", "lt", "ge", "le") and len(kids(at)) == 2 and o in (True, False):
                        l_, r_ = kids(at)
                        for (x, y, flipped) in ((l_, r_, False), (r_, l_, True)):
                            role = band_component(y)
                            if role is not None:
                                cmp_l.append((dirv, N(ix, x)))
                                # which bound is tested which way round: price > upper / price < lower and their negations
                                nm_ = payload(at)[0]
                                if flipped:
                                    nm_ = {"lt": "gt", "le": "ge", "gt": "lt", "ge": "le"}[nm_]
                                if nm_ not in (("gt", "le") if role == "upper" else ("lt", "ge")):
                                    wrong_way.append("%s %s the %s bound" % (norm.show(N(ix, x))[:80], nm_, role))
            if not cmp_l:
                continue
            badg = None
            # a function only the IsOverFluctuationLimit query reaches simulates a SwapOutput of the asked direction, whose
            # reserve update runs in the opposite direction (vAMM table of C02 R02.1: SwapOutput AddToAmm -> net position -)
            flip = g.key in rb and g.key not in ra
            cur = ("div", ("mul", statef("quote_asset_reserve"), cfgf("decimals")), statef("base_asset_reserve"))
            kinds = set()
            for (dirv, n_) in cmp_l:
                if match(cur, n_) is not None:
                    kinds.add("current")
                    continue
                add_p = ("div", ("mul", ("add", statef("quote_asset_reserve"), anyhole("x")), cfgf("decimals")), ("sub", statef("base_asset_reserve"), anyhole("y")))
                rem_p = ("div", ("mul", ("sub", statef("quote_asset_reserve"), anyhole("x")), cfgf("decimals")), ("add", statef("base_asset_reserve"), anyhole("y")))
                ma, mr = match(add_p, n_), match(rem_p, n_)
                d_add, d_rem = ("RemoveFromAmm", "AddToAmm") if flip else ("AddToAmm", "RemoveFromAmm")
                if ma is not None and dirv in (None, d_add):
                    kinds.add("after:" + d_add)
                elif mr is not None and dirv in (None, d_rem):
                    kinds.add("after:" + d_rem)
                else:
                    badg = badg or "direction %s: compared price is %s" % (dirv, norm.show(n_)[:220])
            if badg is None and wrong_way:
                badg = "a bound is tested the wrong way round: %s (the band is price > upper / price < lower)" % wrong_way[0]
            if badg is None and not ({"after:AddToAmm", "after:RemoveFromAmm"} <= kinds):
                badg = "post-trade prices compared: %s (both directions expected)" % sorted(kinds)
            ctx.inst("R15.6", "compared-price:%s" % short_fn(g), badg is None, g.where(), badg or "compares %s with the band%s" % (sorted(kinds), " (SwapOutput convention)" if flip else ""))


    # ---------------------------------------------------------------- R15.7
    # the answer the engine's ClosePosition relies on: IsOverFluctuationLimit says `false` exactly when the limit is off or
    # the simulated price is inside the band - lower <= price <= upper, both ends included (R15.2's convention) - and `true`
    # only when one of the two bounds is violated.  (Blind sweep: `&&` -> `||`, swapped answers and a strict bound in the
    # final test were reported by nothing; R15.6 decides the operands, this decides what is answered.)
    ctx.rule("R15.7", "IsOverFluctuationLimit answers false iff the limit is zero or lower <= simulated price <= upper (inclusive), true otherwise", 1)
    try:
        qa7 = arms.Arm(ix, VAMM, "IsOverFluctuationLimit", entry="query")
        bad7 = None
        n_false = n_true = 0

        def bound_rel(at, o):
            """('upper'|'lower', price_inside_that_bound: bool) for a comparison of something with a band component"""
            a2 = ix.inline(qa7.c(at))
            if tag(a2) != "op" or payload(a2)[0] not in ("lt", "le", "gt", "ge") or len(kids(a2)) != 2 or o not in (True, False):
                return None
            nm = payload(a2)[0]
            l, r = (ix.inline(k) for k in kids(a2))

            cl, cr = band_component(l), band_component(r)
            if (cl is None) == (cr is None):
                return None
            if cr is not None:
                which, price_op = cr, nm            # price <op> bound
            else:
                which, price_op = cl, {"lt": "gt", "le": "ge", "gt": "lt", "ge": "le"}[nm]   # bound <op> price
            truth = {"lt": "<", "le": "<=", "gt": ">", "ge": ">="}[price_op]
            if not o:
                truth = {"<": ">=", "<=": ">", ">": "<=", ">=": "<"}[truth]
            return which, truth
        cases = []
        for q in qa7.ok_paths():
            r7 = ix.inline(qa7.c(sym.unwrap(q.ret)))
            base = [(at, o) for (at, o, _b, _l) in q.conds]
            if tag(r7) == "bool":
                cases.append((r7, base))
                continue
            # the answer is the last comparison itself (`Ok(a > u || a < l)`): both of its outcomes, as if branched on
            pol = True
            r8 = r7
            while tag(r8) == "op" and payload(r8)[0] == "not" and kids(r8):
                r8, pol = kids(r8)[0], not pol
            if tag(r8) == "bool":
                # `Ok(!band.contains(p))` with the helper's outcome already decided on this path
                cases.append((sym.boolc(bool(payload(r8)[0]) == pol), base))
            elif tag(r8) == "op" and payload(r8)[0] in ("lt", "le", "gt", "ge"):
                cases.append((sym.boolc(pol), base + [(r8, True)]))
                cases.append((sym.boolc(not pol), base + [(r8, False)]))
            else:
                bad7 = bad7 or "a success path answers %s, not the outcome of the band test" % sym.show(r7, 4)
        for (r7, conds7) in cases:
            rels = {}
            limit_off = False
            for (at, o) in conds7:
                br = bound_rel(at, o)
                if br:
                    rels[br[0]] = br[1]
                a3 = ix.inline(qa7.c(at))
                if tag(a3) == "op" and payload(a3)[0] == "is_zero" and o is True and guards.is_field_of_item(ix, kids(a3)[0], VAMM, "margined_vamm:config", "fluctuation_limit_ratio"):
                    limit_off = True
            if not payload(r7)[0]:
                n_false += 1
                if not limit_off and not (rels.get("upper") == "<=" and rels.get("lower") == ">="):
                    bad7 = bad7 or "answers false (inside the band) on a path with price %s upper, price %s lower" % (rels.get("upper", "?"), rels.get("lower", "?"))
            else:
                n_true += 1
                if limit_off:
                    bad7 = bad7 or "answers true although the fluctuation limit is zero"
                elif not (rels.get("upper") == ">" or rels.get("lower") == "<"):
                    bad7 = bad7 or "answers true (outside the band) on a path with price %s upper, price %s lower" % (rels.get("upper", "?"), rels.get("lower", "?"))
        ctx.inst("R15.7", "query-answer:IsOverFluctuationLimit", bad7 is None and n_false >= 2 and n_true >= 1, qa7.fn.where(),
                 bad7 or "%d paths answer false (limit off, or lower <= price <= upper), %d answer true (a bound violated)" % (n_false, n_true))
    except KeyError as e:
        ctx.lost("R15.7", str(e))
