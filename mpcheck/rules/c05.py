"""C05 — Trader actions never leave the trader under-margined."""
from .. import sym, guards, arms, model, norm
from ..sym import tag, payload, kids
from ..norm import N, match, hole, anyhole
from .common import *
from .em import *

EXPLANATION = ("R05.1 OpenPosition success paths establish leverage >= decimals and decimals^2/leverage >= config.initial_margin_ratio; "
               "R05.2 every Open chain that ends with a stored position ends in a handler where, after the position store, the margin "
               "ratio of that (vamm, trader) is queried and established >= config.maintenance_margin_ratio; R05.3 WithdrawMargin: "
               "bad-debt guard, signed free-collateral guard on (free - amount), payout = msg.amount to info.sender, stored margin = "
               "remain-margin(position, -amount).margin; R05.4 DepositMargin: stored margin = margin + msg.amount, the same amount is "
               "pulled (cw20) / asserted as sent (native). R05.5 the free-collateral formula min(margin, margin + pnl) - notional * initial_margin_ratio / decimals; R05.6 the margin it starts from is net of the funding owed since the checkpoint; R05.7 the increase reply credits and collects record.open_notional * decimals / record.leverage and the record holds msg.leverage, msg.margin_amount * msg.leverage / decimals."
               " R05.8 every reply path that stores a position advances its funding checkpoint; R05.9 the stored direction follows the sign of the stored size (R02.5, evaluated in a C02 context).")
NOT_DECIDED = "that the margin-ratio and free-collateral formulas are right beyond the operand selection checked in C06 (R06.3)."


def cmp_fact(facts, test):
    for (at, o) in facts:
        if tag(at) == "op" and len(kids(at)) == 2 and test(payload(at)[0], kids(at)[0], kids(at)[1], o):
            return True
    return False


def ge_established(opn, o):
    """(x opn y) == o  means  x >= y ?"""
    return (opn == "lt" and o is False) or (opn == "ge" and o is True)


def run(ctx):
    ix = ctx.ix
    em = EM(ctx)
    ctx.rule("R05.1", "OpenPosition leverage guards (>= 1 and <= 1/initial ratio)", 2)
    ctx.rule("R05.2", "maintenance check after the position store on every Open chain that leaves a position", 3)
    ctx.rule("R05.3", "WithdrawMargin guards, payout and stored margin", 4)
    ctx.rule("R05.4", "DepositMargin: stored margin and collected amount are the same msg.amount", 3)

    # ---------------------------------------------------------------- R05.1
    ex = em.exec_step("OpenPosition")
    if ex is None:
        ctx.lost("R05.1", "OpenPosition")
    else:
        lev = ex.msgfield("leverage")
        bad1 = bad2 = None
        for q in ex.ok_paths():
            def p1(facts):
                return cmp_fact(facts, lambda n, l, r, o: ge_established(n, o) and l == lev and em.cfg(r, "decimals"))

            def p2(facts):
                WANT = ("pos", ("div", ("mul", em.cfg_leaf("decimals"), em.cfg_leaf("decimals")), hole("leverage", lambda v: v == lev)))
                return cmp_fact(facts, lambda n, l, r, o: ge_established(n, o) and match(WANT, N(ix, l)) is not None and
                                match(("pos", em.cfg_leaf("initial_margin_ratio")), N(ix, r)) is not None)
            if not guards.path_satisfies(ix, q, p1, ex.m):
                bad1 = bad1 or q
            if not guards.path_satisfies(ix, q, p2, ex.m):
                bad2 = bad2 or q
        ctx.inst("R05.1", "leverage-at-least-one", bad1 is None and bool(ex.ok_paths()), ex.fn.where(),
                 "leverage >= config.decimals %s on every success path" % ("established" if bad1 is None else "NOT established"))
        ctx.inst("R05.1", "leverage-vs-initial-ratio", bad2 is None and bool(ex.ok_paths()), ex.fn.where(),
                 "decimals^2/leverage >= config.initial_margin_ratio %s on every success path" % ("established" if bad2 is None else "NOT established (wrong ratio or missing)"))

    # ---------------------------------------------------------------- R05.2
    n2 = 0
    for ckey, sts in sorted(em.chains.items()):
        if ckey.split(">")[0] != "OpenPosition" or len(sts) < 2:
            continue
        st = sts[-1]
        bad = None
        n = 0

        def is_ratio_call(e):
            return e.target is not None and "Integer" in e.target.locals[0]["ty"] and "Result" in e.target.locals[0]["ty"] and e.target.arg_count >= 3

        def wraps_ratio_check(e):
            # a helper the "query the ratio, compare with maintenance" pair was moved into
            if is_ratio_call(e):
                return False
            try:
                return any(is_ratio_call(e2) for p2 in ix.ok_paths(e.target) for e2 in p2.events)
            except Exception:
                return False
        for q in splice(ix, st.ok_paths(), wraps_ratio_check):
            # terminal paths only (no further swap) that store a position with non-reset size
            if any(s.reply_on_name() == "Always" for s in em.emitted(q)):
                continue
            store_idx = None
            for i, e in enumerate(q.events):
                if ("write", POS) in ix.event_effects(e)[0]:
                    store_idx = i
            if store_idx is None:
                continue
            vals = em.stored_position(st, q)
            if vals and all(N(ix, sym.field(sym.field(v, "size"), "value")) == ("int", 0) or N(ix, sym.field(v, "size")) == ("pos", ("int", 0)) for v in vals):
                continue  # position closed out by the reversal: nothing left to be under-margined
            n += 1
            ok = False
            for j, e in enumerate(q.events):
                if j <= store_idx or e.target is None:
                    continue
                # a margin-ratio computation of the stored position
                rv = ix.inline(sym.unwrap(e.result))
                args_ok = any(is_tmp_field(ix, ix.inline(a), "vamm") or "vamm" in sym.show(ix.inline(a), 3) for a in e.args) and \
                    any(is_tmp_field(ix, ix.inline(a), "trader") or "trader" in sym.show(ix.inline(a), 3) for a in e.args)
                if not args_ok or "Integer" not in e.target.locals[0]["ty"]:
                    continue
                for (at, o, _b, _l) in q.conds:
                    pass

                def pm(facts, rv=rv):
                    return cmp_fact(facts, lambda n_, l, r, o: ge_established(n_, o) and l == rv and
                                    match(("pos", em.cfg_leaf("maintenance_margin_ratio")), N(ix, r)) is not None)
                if guards.path_satisfies(ix, q, pm, None):
                    ok = True
            if not ok:
                bad = bad or q
        if n:
            n2 += 1
            ctx.inst("R05.2", "maintenance-after-store:%s" % ckey, bad is None, st.fn.where(),
                     "%d terminal success paths leave a position; %s" % (n, "each queries the margin ratio after the store and establishes ratio >= config.maintenance_margin_ratio"
                        if bad is None else "a path stores a live position without the maintenance check after the store"))

    # ---------------------------------------------------------------- R05.3
    wd = em.exec_step("WithdrawMargin")
    if wd is None:
        ctx.lost("R05.3", "WithdrawMargin")
    else:
        amt = wd.msgfield("amount")
        bad_bd = bad_fc = bad_pay = bad_store = None
        from .c03 import transfers_of
        for q in wd.ok_paths():
            rms = em.remain_margin_calls(q)
            rmv = wd.c(sym.unwrap(rms[0].result)) if rms else None
            # remain-margin called with -amount
            if not rms or N(ix, wd.c(rms[0].args[2])) != ("neg", ("leaf", amt)):
                bad_store = bad_store or "remain-margin not computed with -msg.amount"

            def pbd(facts):
                return any(o is True and tag(at) == "op" and payload(at)[0] == "is_zero" and rmv is not None and
                           ix.inline(kids(at)[0]) == ix.inline(sym.field(rmv, "bad_debt")) for (at, o) in facts)
            if not guards.path_satisfies(ix, q, pbd, wd.m):
                bad_bd = bad_bd or q

            def pfc(facts):
                for (at, o) in facts:
                    a2, o2 = at, o
                    while tag(a2) == "op" and payload(a2)[0] == "not":
                        a2, o2 = kids(a2)[0], (not o2)
                    if tag(a2) == "call" and payload(a2)[0].endswith("Integer::is_negative") and o2 is False:
                        n_ = N(ix, kids(a2)[0])
                        if n_[0] == "isub" and n_[2] == ("pos", ("leaf", amt)) and n_[1][0] == "leaf":
                            fc = ix.inline(n_[1][1])
                            if tag(fc) in ("unwrap", "call") and "Integer" in sym.show(fc, 1) or True:
                                # the minuend is the free-collateral query of (msg.vamm, info.sender)
                                s_ = sym.show(fc, 6)
                                if wd.sender in set(sym.walk(fc)) and wd.msgfield("vamm") in set(sym.walk(fc)):
                                    return True
                return False
            if not guards.path_satisfies(ix, q, pfc, wd.m):
                bad_fc = bad_fc or q
            pays = []
            for s in em.emitted(q):
                for (kind, payer, recv, amount) in transfers_of(ix, s):
                    rs = wd.s(recv)
                    if rs == wd.sender:
                        pays.append(N(ix, wd.c(amount)))
                    elif not (em.cfg(recv, "insurance_fund")):
                        bad_pay = bad_pay or "transfer to %s" % sym.show(rs, 4)
            if not pays or any(p != ("leaf", amt) for p in pays):
                bad_pay = bad_pay or "wallet receives %s" % [norm.show(p) for p in pays]
            for val in em.stored_position(wd, q):
                if rmv is None or ix.inline(sym.field(val, "margin")) != ix.inline(sym.field(rmv, "margin")):
                    bad_store = bad_store or "stored margin is not remain_margin.margin"
        ctx.inst("R05.3", "bad-debt-guard", bad_bd is None, wd.fn.where(), "remain_margin.bad_debt == 0 %s" % ("established" if bad_bd is None else "NOT established"))
        ctx.inst("R05.3", "free-collateral-guard", bad_fc is None, wd.fn.where(),
                 "(free_collateral(msg.vamm, info.sender) - msg.amount) not negative %s (signed test)" % ("established" if bad_fc is None else "NOT established"))
        ctx.inst("R05.3", "payout", bad_pay is None, wd.fn.where(), bad_pay or "info.sender receives exactly msg.amount")
        ctx.inst("R05.3", "stored-margin", bad_store is None, wd.fn.where(), bad_store or "stored margin = remain_margin(position, -msg.amount).margin")

    # ---------------------------------------------------------------- R05.4
    dp = em.exec_step("DepositMargin")
    if dp is None:
        ctx.lost("R05.4", "DepositMargin")
    else:
        amt = dp.msgfield("amount")
        bad_s = bad_c = None
        from .c03 import transfers_of
        kinds = set()

        def intake_helper(e):
            # the native/cw20 intake moved into a helper: it sees the attached funds (MessageInfo) and branches on the collateral kind
            t_ = e.target
            if t_.crate != ENG or not any("MessageInfo" in t_.locals[i + 1]["ty"] for i in range(t_.arg_count)):
                return False
            try:
                return any(tag(at) == "op" and payload(at)[0] == "discr" and isinstance(o, tuple) and (o[0] == "variant" and o[1] in ("NativeToken", "Token") or o[0] == "other")
                           for p_ in ix.ok_paths(t_) for (at, o, _b, _l) in p_.conds)
            except Exception:
                return False
        dpaths = splice(ix, dp.ok_paths(), intake_helper)
        for q in dpaths:
            for val in em.stored_position(dp, q):
                m_ = N(ix, dp.c(sym.field(val, "margin")))
                if not (m_[0] == "add" and ("leaf", amt) in m_[1:] and any(x[0] == "leaf" and tag(x[1]) == "field" and payload(x[1])[0] == "margin" for x in m_[1:])):
                    bad_s = bad_s or "stored margin = %s" % norm.show(m_)
            native = None
            for (at, o, _b, _l) in q.conds:
                if tag(at) == "op" and payload(at)[0] == "discr" and isinstance(o, tuple) and o[0] == "variant" and o[1] in ("NativeToken", "Token"):
                    native = o[1] == "NativeToken"
                if tag(at) == "op" and payload(at)[0] == "discr" and isinstance(o, tuple) and o[0] == "other" and len(o[1]) == 1 and o[1][0] in ("NativeToken", "Token"):
                    native = o[1][0] == "Token"      # `if let Token {..} = .. else ..` spells the same two-way decision
            if native is True:
                kinds.add("native")
                ok = False
                for e in q.events:
                    if e.target is not None and "assert_sent" in e.target.name or (e.target is not None and any(tag(ix.inline(a)) == "agg" and payload(ix.inline(a))[0].endswith("asset::Asset") for a in e.args)):
                        for a in e.args:
                            ai = ix.inline(a)
                            if tag(ai) == "agg" and payload(ai)[0].endswith("asset::Asset") and dp.c(sym.field(ai, "amount")) == amt and guards.propagated(q, e):
                                ok = True
                if not ok:
                    bad_c = bad_c or "native arm does not assert that exactly msg.amount was sent"
            elif native is False:
                kinds.add("cw20")
                pulls = [t for s in em.emitted(q) for t in transfers_of(ix, s) if t[0] == "cw20-transfer-from"]
                if not pulls or any(dp.c(t[3]) != amt or dp.s(t[1]) != dp.sender or dp.s(t[2]) != dp.self_addr for t in pulls):
                    bad_c = bad_c or "cw20 arm does not pull exactly msg.amount from info.sender into the engine"
        # the native assertion helper accepts equality only
        helper = None
        for q in dpaths:
            for e in q.events:
                if e.target is not None and any(tag(ix.inline(a)) == "agg" and payload(ix.inline(a))[0].endswith("asset::Asset") for a in e.args) \
                        and "MessageInfo" in " ".join(e.target.locals[i + 1]["ty"] for i in range(e.target.arg_count)):
                    helper = e.target
        if helper is None:
            ctx.lost("R05.4", "native sent-funds assertion helper")
        else:
            hb = None
            selfp = sym.param(helper.key, 0, helper.param_name(0))
            for p in ix.ok_paths(helper):
                ok = False
                for (at, o, _b, _l) in p.conds:
                    if o is True and tag(at) == "op" and payload(at)[0] == "eq":
                        l, r = kids(at)
                        for u, v in ((l, r), (r, l)):
                            if ix.inline(u) == sym.field(selfp, "amount") and any(tag(x) == "call" and payload(x)[0].endswith("must_pay") for x in sym.walk(v)):
                                ok = True
                if not ok:
                    hb = hb or p
            ctx.inst("R05.4", "native-assert-equality:%s" % short_fn(helper), hb is None and bool(ix.ok_paths(helper)), helper.where(),
                     "succeeds only when asset.amount == must_pay(info, denom)" if hb is None else "a success path of the sent-funds assertion is not the equality case (over- or under-payment accepted)")
        ctx.inst("R05.4", "stored-margin", bad_s is None, dp.fn.where(), bad_s or "stored margin = position.margin + msg.amount")
        ctx.inst("R05.4", "collected-amount", bad_c is None and kinds == {"native", "cw20"}, dp.fn.where(), bad_c or "native: sent == msg.amount asserted; cw20: TransferFrom(info.sender -> engine, msg.amount)")

    # ---------------------------------------------------------------- R05.5
    # "after a WithdrawMargin the free collateral is non-negative" is only as good as the figure itself:
    #   free = min(margin, margin + pnl) - notional_for_requirement * initial_margin_ratio / decimals
    # with the INITIAL ratio, margin alone exactly when the pnl is positive, and the requirement on the open notional
    # of a long / the current notional of a short
    ctx.rule("R05.5", "free collateral = min(margin, margin + pnl) - requirement notional * config.initial_margin_ratio / decimals (margin alone iff pnl > 0)", 1)
    try:
        fc = arms.Arm(ix, ENG, "FreeCollateral", entry="query")
    except KeyError as e:
        ctx.lost("R05.5", str(e))
        fc = None
    if fc is not None:
        ctx.analysed["functions"].add(fc.fn.pretty)
        bad5 = None
        n5 = 0
        seen_mc = set()
        cfgh = lambda name: hole("cfg." + name, lambda v, name=name: guards.is_field_of_item(ix, v, ENG, "margined_engine:config", name))

        def pos_margin(n_):
            return n_[0] == "leaf" and isinstance(n_[1], int) and tag(ix.inline(n_[1])) == "field" and payload(ix.inline(n_[1]))[0] == "margin"
        for q in fc.ok_paths():
            r = N(ix, sym.unwrap(q.ret))
            m = match(("isub", anyhole("MC"), ("pos", ("div", ("mul", anyhole("X"), cfgh("initial_margin_ratio")), cfgh("decimals")))), r)
            if m is None:
                bad5 = bad5 or "free collateral is %s" % norm.show(r)[:260]
                continue
            n5 += 1
            mc, x = m["MC"], m["X"]
            # which notional the requirement is charged on
            long_ = None
            for (at, o, _b, _l) in q.conds:
                ai = ix.inline(at)
                if tag(ai) == "call" and str(payload(ai)[0]).endswith(("Integer::is_positive", "Integer::is_negative")) and kids(ai) and o in (True, False):
                    a0 = ix.inline(kids(ai)[0])
                    if tag(a0) == "field" and payload(a0)[0] == "size":
                        long_ = o if str(payload(ai)[0]).endswith("is_positive") else (not o)
            xf = payload(ix.inline(x[1]))[0] if x[0] == "leaf" and isinstance(x[1], int) and tag(ix.inline(x[1])) == "field" else None
            if long_ is True and xf != "notional":
                bad5 = bad5 or "a long's requirement is charged on .%s, not on its open notional" % xf
            if long_ is False and xf != "position_notional":
                bad5 = bad5 or "a short's requirement is charged on .%s, not on its current notional" % xf
            if long_ is None:
                bad5 = bad5 or "the requirement notional is not selected by the sign of the position size"
            # minimum collateral
            if mc[0] == "pos" and pos_margin(mc[1]):
                kind, L, pnl = "margin", mc[1], None
            elif mc[0] == "iadd" and any(t_[0] == "pos" and pos_margin(t_[1]) for t_ in mc[1:]):
                kind = "margin+pnl"
                L = [t_[1] for t_ in mc[1:] if t_[0] == "pos" and pos_margin(t_[1])][0]
                pnl = [t_ for t_ in mc[1:] if not (t_[0] == "pos" and pos_margin(t_[1]))][0]
            else:
                bad5 = bad5 or "minimum collateral is %s" % norm.show(mc)[:200]
                continue
            seen_mc.add(kind)
            # the decision: pnl positive <=> margin alone
            decided = None
            for (at, o, _b, _l) in q.conds:
                ai = ix.inline(at)
                if tag(ai) == "call" and str(payload(ai)[0]).endswith(("Integer::is_positive", "Integer::is_negative")) and kids(ai) and o in (True, False):
                    an = N(ix, kids(ai)[0])
                    pos_ = o if str(payload(ai)[0]).endswith("is_positive") else (not o)
                    if an[0] == "isub" and an[2] == ("pos", L) and an[1][0] == "iadd" and ("pos", L) in an[1][1:]:
                        decided = pos_
                    elif pnl is not None and an == pnl:
                        decided = pos_
                    elif an[0] == "leaf" and isinstance(an[1], int) and tag(ix.inline(an[1])) == "field" and payload(ix.inline(an[1]))[0] == "unrealized_pnl":
                        decided = pos_
            if decided is None:
                bad5 = bad5 or "no sign test of the pnl selects the minimum collateral"
            elif decided != (kind == "margin"):
                bad5 = bad5 or "with the pnl %s the minimum collateral is %s" % ("positive" if decided else "not positive", kind)
        ctx.inst("R05.5", "free-collateral-formula:%s" % short_fn(fc.fn), bad5 is None and n5 > 0 and seen_mc == {"margin", "margin+pnl"}, fc.fn.where(),
                 bad5 or "%d paths: min(margin, margin + pnl) - notional * initial_margin_ratio / decimals" % n5)

    # ---------------------------------------------------------------- R05.6
    # the margin the free collateral starts from: the stored margin less the funding owed since the position's checkpoint,
    # floored at zero: max(0, margin - (latest cumulative fraction - checkpoint) * size / decimals)
    ctx.rule("R05.6", "the position the free collateral is computed on carries margin = max(0, stored margin - (latest cumulative fraction - checkpoint) * size / decimals)", 1)
    if fc is not None:
        from .c11 import is_last_of_list
        g = None
        for q in fc.ok_paths():
            for x in sym.walk(ix.inline(sym.unwrap(q.ret))):
                if tag(x) == "field" and payload(x)[0] == "margin":
                    b0 = kids(x)[0]
                    while tag(b0) in ("unwrap", "ok"):
                        b0 = kids(b0)[0]
                    if tag(b0) == "call" and ix.call_target(b0) is not None and "Position" in ix.call_target(b0).locals[0]["ty"]:
                        g = ix.call_target(b0)
        if g is None:
            ctx.lost("R05.6", "the function producing the position (with funding) the free collateral is computed on")
        else:
            ctx.analysed["functions"].add(g.pretty)
            bad6 = None
            seen6 = set()

            def stored_pos_field(v, name):
                vi = ix.inline(v)
                return tag(vi) == "field" and payload(vi)[0] == name and guards.loaded_item(ix, kids(vi)[0], ENG) == POS

            def latest_q(v):
                vi = ix.inline(v)
                while tag(vi) in ("unwrap", "ok"):
                    vi = ix.inline(kids(vi)[0])
                if is_last_of_list(ix, vi):
                    return True
                if tag(vi) == "call" and ix.call_target(vi) is not None:
                    outs = ix.ok_paths(ix.call_target(vi))
                    return bool(outs) and all(is_last_of_list(ix, sym.unwrap(p_.ret)) or N(ix, sym.unwrap(p_.ret)) == ("pos", ("int", 0)) for p_ in outs) \
                        and any(is_last_of_list(ix, sym.unwrap(p_.ret)) for p_ in outs)
                return False
            FUND = ("idiv", ("imul", ("isub", hole("latest", latest_q), hole("checkpoint", lambda v: stored_pos_field(v, "last_updated_premium_fraction"))),
                             hole("size", lambda v: stored_pos_field(v, "size"))), ("pos", em.cfg_leaf("decimals")))

            def owed_forms(n_):
                """normal forms n_ can take once pure helper calls in it are replaced by their outcomes"""
                if n_[0] == "leaf" and isinstance(n_[1], int) and tag(ix.inline(n_[1])) == "call" and ix.call_target(ix.inline(n_[1])) is not None:
                    outs = ix.outcomes(ix.inline(n_[1])) or []
                    return [N(ix, ret) for (_cp, ret, _m) in outs]
                return [n_]
            for p in ix.ok_paths(g):
                mg = N(ix, sym.field(sym.unwrap(p.ret), "margin"))
                if mg == ("int", 0):
                    seen6.add("zero")
                    continue
                if not (mg[0] == "mag" and mg[1][0] in ("iadd", "isub")):
                    bad6 = bad6 or "margin is %s" % norm.show(mg)[:200]
                    continue
                opn, a_, b_ = mg[1]
                if not (a_[0] == "pos" and a_[1][0] == "leaf" and stored_pos_field(a_[1][1], "margin")):
                    a_, b_ = b_, a_
                    if opn == "isub" or not (a_[0] == "pos" and a_[1][0] == "leaf" and stored_pos_field(a_[1][1], "margin")):
                        bad6 = bad6 or "margin is %s" % norm.show(mg)[:200]
                        continue
                okf = True
                nontrivial = False
                for form in owed_forms(b_):
                    if form in (("pos", ("int", 0)), ("int", 0)):
                        continue
                    nontrivial = True
                    # margin + (-owed)  or  margin - owed
                    if opn == "iadd":
                        okf = okf and form[0] == "inv" and match(FUND, form[1]) is not None
                    else:
                        okf = okf and match(FUND, form) is not None
                if not okf:
                    bad6 = bad6 or "the funding term of the margin is %s (expected -(latest - checkpoint) * size / decimals)" % "; ".join(norm.show(f_)[:160] for f_ in owed_forms(b_))
                seen6.add("net" if nontrivial else "flat")
            ctx.inst("R05.6", "margin-net-of-funding:%s" % short_fn(g), bad6 is None and "net" in seen6, g.where(),
                     bad6 or "margin = max(0, stored margin - (latest - checkpoint) * size / decimals) (%s)" % sorted(seen6))

    # ---------------------------------------------------------------- R05.7
    # the leverage guard (R05.1) is about the requested leverage; it bounds the position only if the margin the increase
    # reply credits - and collects - is the order's notional divided by that same leverage:
    #   credited margin = tmp.open_notional * decimals / tmp.leverage = increment of margin_to_vault,
    #   and the execute step records leverage = msg.leverage, open_notional = msg.margin_amount * msg.leverage / decimals
    ctx.rule("R05.7", "increase: margin credited to the position = margin collected = recorded open_notional * decimals / recorded leverage; the record holds msg.leverage and msg.margin_amount * msg.leverage / decimals", 3)
    MARG = ("div", ("mul", em.tmp_leaf("open_notional"), em.cfg_leaf("decimals")), em.tmp_leaf("leverage"))
    for ckey in ("OpenPosition>id1", "OpenPosition>id3>id1"):
        st7 = em.reply_step(ckey)
        if st7 is None:
            ctx.lost("R05.7", ckey)
            continue
        bad7 = None
        n7 = 0
        for q in st7.ok_paths():
            for e in em.remain_margin_calls(q):
                n7 += 1
                md = [a_ for a_, i_ in zip(e.args, range(e.target.arg_count)) if e.target.locals[i_ + 1]["ty"].endswith("Integer")]
                if not md:
                    bad7 = bad7 or "remain-margin call without a margin delta"
                    continue
                nd = N(ix, st7.c(md[0]))
                if match(("pos", MARG), nd) is None:
                    bad7 = bad7 or "margin credited is %s" % norm.show(nd)[:200]
            # what is collected: the stored/used margin_to_vault grows by the same amount
            for x in [v for v in model.path_values(q)]:
                pass
        # margin_to_vault: every cw20 pull / native requirement of this step that is the record's margin_to_vault carries the same increment
        seen_inc = False
        for q in st7.ok_paths():
            for v in model.path_values(q):
                for y in sym.walk(ix.inline(st7.c(v))):
                    ny = N(ix, y) if tag(y) in ("call", "op") else None
                    if ny and ny[0] == "iadd" and any(t_[0] == "leaf" and isinstance(t_[1], int) and em.tmp(t_[1], "margin_to_vault") for t_ in ny[1:]):
                        other = [t_ for t_ in ny[1:] if not (t_[0] == "leaf" and isinstance(t_[1], int) and em.tmp(t_[1], "margin_to_vault"))]
                        if other:
                            seen_inc = True
                            if match(("pos", MARG), other[0]) is None:
                                bad7 = bad7 or "margin_to_vault grows by %s" % norm.show(other[0])[:200]
        ctx.inst("R05.7", "credited-equals-collected:%s" % ckey, bad7 is None and n7 > 0 and seen_inc, st7.fn.where(),
                 bad7 or "%d settlements: margin delta = margin_to_vault increment = tmp.open_notional * decimals / tmp.leverage" % n7)
    ex7 = em.exec_step("OpenPosition")
    if ex7 is None:
        ctx.lost("R05.7", "OpenPosition execute step")
    else:
        bad7 = None
        n7 = 0
        for q in ex7.ok_paths():
            for tv in em.stored_tmp(ex7, q):
                n7 += 1
                lev = ix.inline(ex7.c(sym.field(tv, "leverage")))
                on = N(ix, ex7.c(sym.field(tv, "open_notional")))
                if lev != ex7.msgfield("leverage"):
                    bad7 = bad7 or "recorded leverage is %s" % sym.show(lev, 4)
                want = ("div", ("mul", ("leaf", ex7.msgfield("margin_amount")), ("leaf", ex7.msgfield("leverage"))), em.cfg_leaf("decimals"))
                if match(want, on) is None:
                    bad7 = bad7 or "recorded open_notional is %s" % norm.show(on)[:160]
        ctx.inst("R05.7", "record:OpenPosition", bad7 is None and n7 > 0, ex7.fn.where(), bad7 or "%d stores of the in-flight record: leverage = msg.leverage, open_notional = msg.margin_amount * msg.leverage / decimals" % n7)

    # ---------------------------------------------------------------- R05.8
    # "the stored margin falls by that amount plus funding owed": the margin and the funding checkpoint move together at
    # every position store (same rule as R11.4 / R04.6), otherwise funding is charged twice or skipped at the next action
    ctx.rule("R05.8", "margin and funding checkpoint move together at every position store (same rule as R11.4)", 6)
    pairing_instances(ctx, em, "R05.8")


    # ---------------------------------------------------------------- R05.9
    # the margin ratio and the free collateral value a position with the *stored* direction and sign its pnl by it: a
    # record whose direction disagrees with the sign of its size reads a loss as a profit, and the maintenance check of
    # an Open and the free-collateral guard of a Withdraw pass for a position that is under water (round-10 seed C05l).
    # The rule is R02.5 (evaluated with C02's sign-table engine in its own context, the instances are copied).
    from .. import core as _core
    from . import c02 as _c02
    ctx.rule("R05.9", "the direction stored with a changed size follows the sign of that size (the valuation behind every margin test is signed by it)", 5)
    sub = _core.Ctx("C02", ctx.world, ctx.tier)
    try:
        _c02.run(sub)
        n9 = 0
        for i9 in sub.insts:
            if i9.rule == "R02.5":
                n9 += 1
                ctx.inst("R05.9", i9.key.split(":", 1)[1], i9.ok, i9.where, i9.detail)
        if n9 == 0:
            ctx.lost("R05.9", "stored-direction instances")
    except Exception as e:
        ctx.undetermined("R05.9", "stored-direction", str(e)[:200])


    # ---------------------------------------------------------------- R05.6 (addition)
    # the funding-adjusted margin of R05.6 charges funding through a helper with a shortcut for an empty position
    funding_shortcut_instances(ctx, "R05.6")
