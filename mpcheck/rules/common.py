"""helpers shared by the rule modules"""
from .. import sym
from ..sym import tag, payload, kids


def short_fn(fn):
    """crate::module::name without the crate's 'margined_' prefix noise"""
    return fn.pretty


def count_before(f, bi, cname, strip):
    n = 0
    for i in sorted(f.reachable()):
        if i >= bi:
            break
        t = f.blocks[i]["term"]
        if t["k"] == "call" and t["callee"] and strip(t["callee"]["pretty"]) == cname:
            n += 1
    return n


def classify_result_use(f, uses, local, accept, reject, visited):
    if local in visited:
        return True, "cyclic"
    visited = visited | {local}
    us = uses.get(local, [])
    if not us:
        return False, "result is never read (dropped)"
    good = None
    for u in us:
        k = u[0]
        if k == "arg":
            if u[1] in reject:
                return False, "result passed to %s (error discarded)" % u[1]
            good = good or ("passed to %s" % u[1])
        elif k == "assign":
            if u[1] == 0:
                good = good or "returned"
            else:
                ok, why = classify_result_use(f, uses, u[1], accept, reject, visited)
                if not ok:
                    return False, why
                good = good or why
        elif k == "ref":
            ok, why = classify_result_use(f, uses, u[1], accept, reject, visited)
            if not ok:
                return False, why
            good = good or why
        elif k in ("discr", "switch"):
            good = good or "matched"
        elif k == "agg":
            good = good or "stored in aggregate"
        elif k == "proj":
            good = good or "destructured"
        else:
            good = good or k
    return True, good or "used"


def splice(ix, paths, want, rounds=3, min_paths=1):
    """paths with the success paths of selected multi-path workspace callees spliced in (see Inter.expand_on): `want(e)`
    picks the call events to open up - typically "returns the type the rule is about" - so that a block extracted
    into a helper is analysed like inline code"""
    work = list(paths)
    for _ in range(rounds):
        nxt = []
        changed = False
        for p in work:
            ev = None
            for e in p.events:
                if e.target is None or e.idx == -1 and False:
                    continue
                if tag(e.result) != "call" or e.opened or not want(e):
                    continue
                try:
                    if len(ix.ok_paths_at(e.target, ix.param_map(e.target, e.args))) >= min_paths:
                        ev = e
                        break
                except Exception:
                    continue
            if ev is None:
                nxt.append(p)
            else:
                ex = ix.expand_on(p, ev)
                changed = changed or not (len(ex) == 1 and ex[0] is p)
                nxt.extend(ex)
        work = nxt
        if not changed:
            break
    return work


def _negative_is_strict(ix):
    """Integer::is_negative(x) answers true only for x != 0 - decided from the function's own paths: every path that can
    return true either tests the magnitude non-zero or returns that test"""
    r = getattr(ix, "_neg_strict", None)
    if r is not None:
        return r
    r = False
    fs = [f for f in ix.world.fns.values() if f.pretty.endswith("::Integer::is_negative") and f.crate == "margined_common"]
    if len(fs) == 1:
        try:
            r = True
            n = 0
            for p in ix.ok_paths(fs[0]):
                ret = p.ret
                if tag(ret) == "bool" and not payload(ret)[0]:
                    continue
                n += 1
                self0 = sym.param(fs[0].key, 0, fs[0].param_name(0))
                mag_zero = sym.op("is_zero", sym.field(self0, "value"))
                tests = any(c[0] == mag_zero and c[1] is False for c in p.conds)
                if not (tests or ret == sym.op("not", mag_zero)):
                    r = False
            r = r and n > 0
        except Exception:
            r = False
    ix._neg_strict = r
    return r


def sign_tests(ix, conds):
    """canonical sign tests among branch decisions: [(kind, X, outcome)] with kind in is_negative / is_positive / is_zero
    and X the signed value tested.  Besides the predicate calls this reads a branch on the raw sign flag
    (`x.negative`, e.g. after destructuring `Integer { value, negative }`) as is_negative(x) and a zero test of the raw
    magnitude (`x.value.is_zero()`) as is_zero(x)."""
    out = []
    strict = _negative_is_strict(ix)
    for c in conds:
        at, o = c[0], c[1]
        if o not in (True, False):
            continue
        a = at
        neg = False
        while tag(a) == "op" and payload(a)[0] == "not" and kids(a):
            a, neg = kids(a)[0], not neg
        o2 = (not o) if neg else o
        if tag(a) == "call" and kids(a) and str(payload(a)[0]).endswith(("Integer::is_negative", "Integer::is_positive", "Integer::is_zero")):
            out.append((str(payload(a)[0]).split("::")[-1], kids(a)[0], o2))
            if strict and o2 is True and str(payload(a)[0]).endswith("Integer::is_negative"):
                # the sign predicate is strict by its own definition (read from the code): a negative value is not zero
                out.append(("is_zero", kids(a)[0], False))
        elif tag(a) == "field" and payload(a)[0] == "negative":
            out.append(("is_negative", kids(a)[0], o2))
        elif tag(a) == "op" and payload(a)[0] == "is_zero" and kids(a) and tag(kids(a)[0]) == "field" and payload(kids(a)[0])[0] == "value":
            out.append(("is_zero", kids(kids(a)[0])[0], o2))
        elif tag(a) == "op" and payload(a)[0] in ("lt", "gt", "le", "ge", "eq") and len(kids(a)) == 2:
            # comparisons of a signed value with the signed zero (also what `match x.cmp(&Integer::zero())` stands for)
            def _zero(z):
                zi = ix.inline(z)
                return (tag(zi) == "call" and str(payload(zi)[0]).endswith("Integer::zero")) or \
                       (tag(zi) == "constdef" and str(payload(zi)[0]).endswith("Integer::ZERO"))
            l, r = kids(a)
            nm = payload(a)[0]
            if _zero(l) and not _zero(r):
                l, r = r, l
                nm = {"lt": "gt", "gt": "lt", "le": "ge", "ge": "le", "eq": "eq"}[nm]
            if _zero(r) and not _zero(l):
                if nm == "lt":
                    out.append(("is_negative", l, o2))
                    if o2:
                        out.append(("is_zero", l, False))
                elif nm == "ge":
                    out.append(("is_negative", l, not o2))
                    if not o2:
                        out.append(("is_zero", l, False))
                elif nm == "gt":
                    if o2:
                        out.append(("is_negative", l, False))
                        out.append(("is_zero", l, False))
                elif nm == "le":
                    if not o2:
                        out.append(("is_negative", l, False))
                        out.append(("is_zero", l, False))
                elif nm == "eq":
                    out.append(("is_zero", l, o2))
    return out


def funding_shortcut_instances(ctx, rule):
    """helpers that compute a signed figure from a Position and answer zero for an empty one (anchored by behaviour: engine
    functions returning Integer, taking a Position and no Deps, with a zero answer and a formula answer): zero only where
    size == 0 is established, the formula wherever it is not.  (Blind sweep: the flipped test charged / credited nobody.)"""
    from ..norm import N
    ix, w = ctx.ix, ctx.world
    n_inst = 0
    for hf in sorted(w.crate_fns("margined_engine"), key=lambda f: f.pretty):
        if hf.derived or "::_::" in hf.pretty or hf.kind == "Closure" or not hf.locals[0]["ty"].endswith("Integer"):
            continue
        if not any("Position" in hf.locals[i + 1]["ty"] for i in range(hf.arg_count)) or any("Deps" in hf.locals[i + 1]["ty"] for i in range(hf.arg_count)):
            continue
        hp = [sym.param(hf.key, i, hf.param_name(i)) for i in range(hf.arg_count) if "Position" in hf.locals[i + 1]["ty"]]
        try:
            hps = ix.ev.paths(hf)
        except Exception:
            continue
        hbad = None
        n_formula = n_zero = 0
        psz = ix.inline(sym.field(hp[0], "size"))
        for hpth in hps:
            if hpth.kind() not in ("ok", "value"):
                continue
            rn = N(ix, hpth.ret)
            size_zero = None
            for (k9, x9, o9) in sign_tests(ix, hpth.conds):
                if k9 == "is_zero" and ix.inline(x9) == psz:
                    size_zero = o9
            if rn in (("pos", ("int", 0)), ("int", 0)):
                n_zero += 1
                if size_zero is not True:
                    hbad = hbad or "answers zero on a path where the position's size is not known to be zero"
            else:
                n_formula += 1
                if size_zero is True:
                    hbad = hbad or "computes its figure only for a position whose size IS zero"
        if n_zero:
            n_inst += 1
            ctx.inst(rule, "shortcut-only-for-empty:%s" % short_fn(hf), hbad is None and n_formula > 0, hf.where(),
                     hbad or "%d zero answers (size == 0 established), %d formula answers" % (n_zero, n_formula))
    return n_inst
