"""helpers shared by the rule modules"""
from .. import sym
from ..sym import tag, payload, kids


def short_fn(fn):
    """crate::module::name without the crate's 'margined_' prefix noise"""
    return fn.pretty


def count_before(f, bi, cname, strip):
    n = 0
    for i in sorted(f.reachable()):
        if i >= bi:
            break
        t = f.blocks[i]["term"]
        if t["k"] == "call" and t["callee"] and strip(t["callee"]["pretty"]) == cname:
            n += 1
    return n


def classify_result_use(f, uses, local, accept, reject, visited):
    if local in visited:
        return True, "cyclic"
    visited = visited | {local}
    us = uses.get(local, [])
    if not us:
        return False, "result is never read (dropped)"
    good = None
    for u in us:
        k = u[0]
        if k == "arg":
            if u[1] in reject:
                return False, "result passed to %s (error discarded)" % u[1]
            good = good or ("passed to %s" % u[1])
        elif k == "assign":
            if u[1] == 0:
                good = good or "returned"
            else:
                ok, why = classify_result_use(f, uses, u[1], accept, reject, visited)
                if not ok:
                    return False, why
                good = good or why
        elif k == "ref":
            ok, why = classify_result_use(f, uses, u[1], accept, reject, visited)
            if not ok:
                return False, why
            good = good or why
        elif k in ("discr", "switch"):
            good = good or "matched"
        elif k == "agg":
            good = good or "stored in aggregate"
        elif k == "proj":
            good = good or "destructured"
        else:
            good = good or k
    return True, good or "used"


def splice(ix, paths, want, rounds=3, min_paths=1):
    """paths with the success paths of selected multi-path workspace callees spliced in (see Inter.expand_on): `want(e)`
    picks the call events to open up - typically "returns the type the rule is about" - so that a block extracted
    into a helper is analysed like inline code"""
    work = list(paths)
    for _ in range(rounds):
        nxt = []
        changed = False
        for p in work:
            ev = None
            for e in p.events:
                if e.target is None or e.idx == -1 and False:
                    continue
                if tag(e.result) != "call" or e.opened or not want(e):
                    continue
                try:
                    if len(ix.ok_paths_at(e.target, ix.param_map(e.target, e.args))) >= min_paths:
                        ev = e
                        break
                except Exception:
                    continue
            if ev is None:
                nxt.append(p)
            else:
                ex = ix.expand_on(p, ev)
                changed = changed or not (len(ex) == 1 and ex[0] is p)
                nxt.extend(ex)
        work = nxt
        if not changed:
            break
    return work
