"""helpers shared by the rule modules"""
from .. import sym
from ..sym import tag, payload, kids


def short_fn(fn):
    """crate::module::name without the crate's 'margined_' prefix noise"""
    return fn.pretty


def count_before(f, bi, cname, strip):
    n = 0
    for i in sorted(f.reachable()):
        if i >= bi:
            break
        t = f.blocks[i]["term"]
        if t["k"] == "call" and t["callee"] and strip(t["callee"]["pretty"]) == cname:
            n += 1
    return n


def classify_result_use(f, uses, local, accept, reject, visited):
    if local in visited:
        return True, "cyclic"
    visited = visited | {local}
    us = uses.get(local, [])
    if not us:
        return False, "result is never read (dropped)"
    good = None
    for u in us:
        k = u[0]
        if k == "arg":
            if u[1] in reject:
                return False, "result passed to %s (error discarded)" % u[1]
            good = good or ("passed to %s" % u[1])
        elif k == "assign":
            if u[1] == 0:
                good = good or "returned"
            else:
                ok, why = classify_result_use(f, uses, u[1], accept, reject, visited)
                if not ok:
                    return False, why
                good = good or why
        elif k == "ref":
            ok, why = classify_result_use(f, uses, u[1], accept, reject, visited)
            if not ok:
                return False, why
            good = good or why
        elif k in ("discr", "switch"):
            good = good or "matched"
        elif k == "agg":
            good = good or "stored in aggregate"
        elif k == "proj":
            good = good or "destructured"
        else:
            good = good or k
    return True, good or "used"
