"""C08 — Engine transactions are all-or-nothing and leave no in-flight residue."""
from .. import sym, model
from ..sym import tag, payload, kids
from .common import *

EXPLANATION = ("R08.1 failure branch of reply() can only return Err; R08.2 every sub-message id/reply_on the engine constructs "
               "has its arms in reply(), other contracts use ReplyOn::Never and have no reply(); R08.3 no Result is dropped in "
               "engine code; R08.4 tmp-swap / sent-funds / tmp-liquidator typestate is empty at the end of every chain.")
NOT_DECIDED = "that other contracts' storage is untouched on failure is the platform's revert semantics (trusted)."

TMP_ITEMS = ("margined_engine:tmp-swap", "margined_engine:sent-funds", "margined_engine:tmp-liquidator")


def can_return_ok(ix, v, depth=4):
    """may this Result-typed value be Ok?  syntactic: Err aggregate / errfrom are not; calls to workspace
    functions are inspected"""
    t = tag(v)
    if t == "errfrom":
        return False
    if t == "agg" and payload(v)[0].endswith("result::Result"):
        return payload(v)[1] == "Ok"
    if t == "call" and depth > 0:
        fn = ix.call_target(v)
        if fn is not None:
            for p in ix.paths(fn):
                k = p.kind()
                if k in ("ok", "value"):
                    return True
                if k == "dep" and can_return_ok(ix, p.ret, depth - 1):
                    return True
            return False
    return True


def run(ctx):
    ix = ctx.ix
    w = ctx.world
    ENG = "margined_engine"

    # ---------------------------------------------------------------- R08.1
    ctx.rule("R08.1", "in reply(), no path through the SubMsgResult::Err branch can return Ok", 10)
    rt = model.ReplyTable(ix, ENG)
    if rt.fn is None or rt.msg is None:
        ctx.lost("R08.1", "margined_engine::contract::reply")
    else:
        ctx.analysed["functions"].add(rt.fn.pretty)
        # one obligation per reply id the engine can construct (and one for any other id), whatever the shape of the
        # dispatcher: an arm of its own for the id, or a generic failure branch that does not look at the id
        built = set()
        for root_ in (ix.entry(ENG, "execute"), ix.entry(ENG, "reply")):
            if root_ is not None:
                for s_ in model.reachable_submsgs(ix, root_):
                    if s_.reply_on_name() in ("Always", "Error", "Success") and s_.id_int() is not None:
                        built.add(str(s_.id_int()))
        generic = rt.err.get("other", []) + rt.err.get("any", [])
        # an arm reply() has of its own is an obligation too, whether or not a construction with that id was found
        # (an id can be assigned to a message after it was built)
        built |= {k for k in rt.err if k not in ("other", "any")}
        for ident in sorted(built, key=lambda x: int(x)) + ["other"]:
            ps = rt.err.get(ident) or generic if ident != "other" else generic
            bad = []
            for p in ps:
                k = p.kind()
                if k in ("ok", "value") or (k == "dep" and can_return_ok(ix, p.ret)):
                    bad.append(p)
            ctx.inst("R08.1", "reply-err-arm:id=%s" % ident, bool(ps) and not bad,
                     rt.fn.where(ps[0].conds[-1][3] if ps and ps[0].conds else None),
                     "failure of sub-message id %s: %d path(s), %s" % (ident, len(ps),
                        "all return Err" if ps and not bad else ("no failure branch applies to this id" if not ps else "a path RETURNS OK after the sub-message failed: ret=%s" % sym.show(bad[0].ret, 6))))
        for p in rt.unknown:
            if p.kind() in ("ok", "value", "dep"):
                ctx.inst("R08.1", "reply-undispatched-ok", False, rt.fn.where(), "reply() has a success path that does not test msg.result")

    # ---------------------------------------------------------------- R08.2
    ctx.rule("R08.2", "every (id, reply_on) the engine constructs has its arms in reply(); Always only with a success handler; "
             "other contracts construct ReplyOn::Never only and define no reply()", 9)
    handlers = [f for f in w.crate_fns(ENG) if not f.derived and "::_::" not in f.pretty]
    sites = {}
    fexec = ix.entry(ENG, "execute")
    freply = ix.entry(ENG, "reply")
    for root in (fexec, freply):
        if root is None:
            ctx.lost("R08.2", "%s::contract::execute/reply" % ENG)
            continue
        for s in model.reachable_submsgs(ix, root):
            sites[(s.v, s.fn.key)] = s
    ok_ids = set(rt.ok.keys()) - {"other", "any"} if rt.fn else set()
    err_ids = set(rt.err.keys()) - {"other", "any"} if rt.fn else set()
    grouped = {}
    for s in sites.values():
        grouped.setdefault("engine-submsg:%s:%s" % (short_fn(s.fn), s.describe()), []).append(s)
    for key, ss in sorted(grouped.items()):
        why = []
        undet = False
        for s in ss:
            ident = s.id_int()
            ro = s.reply_on_name()
            if ident is None or ro is None:
                undet = True
                why.append("id=%s reply_on=%s not constant after call-site substitution" % (sym.show(s.id, 4), sym.show(s.reply_on, 4)))
                continue
            if ro == "Always":
                if str(ident) not in ok_ids:
                    why.append("no success arm for id %d in reply()" % ident)
                if str(ident) not in err_ids and "other" not in rt.err and "any" not in rt.err:
                    why.append("no failure arm for id %d in reply()" % ident)
                if rt.fn and rt.handler(ix, ident) is None:
                    why.append("success arm of id %d calls no handler" % ident)
            elif ro == "Error":
                if str(ident) not in err_ids and "other" not in rt.err and "any" not in rt.err:
                    why.append("no failure arm for id %d" % ident)
                if str(ident) in ok_ids:
                    why.append("id %d is also a swap/funding id" % ident)
            elif ro != "Never":
                why.append("reply_on=%s is not used by the protocol (reply() rejects unknown successes)" % ro)
        if undet:
            ctx.undetermined("R08.2", key, "; ".join(sorted(set(why))))
        else:
            ctx.inst("R08.2", key, not why, ss[0].fn.where(), "; ".join(sorted(set(why))) or "%d call-site instantiation(s), arms present" % len(ss))
    for c in ("margined_vamm", "margined_insurance_fund", "margined_fee_pool", "margined_pricefeed"):
        has_reply = ix.entry(c, "reply") is not None
        ctx.inst("R08.2", "no-reply-entry:%s" % c, not has_reply, "", "contract defines %s reply()" % ("a" if has_reply else "no"))
        ex = ix.entry(c, "execute")
        if ex is None:
            ctx.lost("R08.2", c + "::contract::execute")
            continue
        for s in model.reachable_submsgs(ix, ex):
            ro = s.reply_on_name()
            ctx.inst("R08.2", "submsg-never:%s:%s" % (short_fn(s.fn), s.describe()), ro == "Never", s.fn.where(),
                     "reply_on=%s in a contract without reply()" % ro)

    # ---------------------------------------------------------------- R08.3
    ctx.rule("R08.3", "no Result-typed call result in engine product code is dropped, .ok()'ed or defaulted", 150)
    ACCEPT = {"std::ops::Try::branch", "std::result::Result::unwrap", "std::result::Result::expect",
              "std::result::Result::map_err", "std::result::Result::unwrap_err"}
    REJECT = {"std::result::Result::ok", "std::result::Result::unwrap_or", "std::result::Result::unwrap_or_default",
              "std::result::Result::unwrap_or_else", "std::result::Result::is_ok", "std::result::Result::is_err",
              "std::result::Result::err"}
    from ..paths import strip_generics
    for f in sorted(handlers, key=lambda f: f.pretty):
        if f.kind == "Closure":
            continue
        ctx.analysed["functions"].add(f.pretty)
        reach = f.reachable()
        # index uses of locals
        uses = {}

        def note(l, what):
            uses.setdefault(l, []).append(what)

        def scan_op(o, what):
            for k in ("copy", "move"):
                if k in o:
                    pl = o[k]
                    if not pl["p"]:
                        note(pl["l"], what)
                    else:
                        note(pl["l"], ("proj", what))
        for bi in reach:
            b = f.blocks[bi]
            for s in b["stmts"]:
                if s["k"] != "assign":
                    continue
                rv = s["rv"]
                lhs = s["lhs"]
                if "use" in rv:
                    scan_op(rv["use"], ("assign", lhs["l"], bool(lhs["p"])))
                elif "ref" in rv:
                    note(rv["ref"]["l"], ("ref", lhs["l"]))
                elif "discr" in rv:
                    note(rv["discr"]["l"], ("discr",))
                elif "agg" in rv:
                    for o in rv["ops"]:
                        scan_op(o, ("agg", rv.get("adt", rv["agg"]), rv.get("variant")))
                elif "cast" in rv:
                    scan_op(rv["cast"], ("assign", lhs["l"], bool(lhs["p"])))
                else:
                    for k in ("a", "b"):
                        if k in rv:
                            scan_op(rv[k], ("op",))
            t = b["term"]
            if t["k"] == "call":
                cname = strip_generics(t["callee"]["pretty"]) if t["callee"] else "<indirect>"
                for o in t["args"]:
                    scan_op(o, ("arg", cname))
            elif t["k"] == "switch":
                scan_op(t["discr"], ("switch",))
        for bi in sorted(reach):
            t = f.blocks[bi]["term"]
            if t["k"] != "call" or t["exp"]:
                continue
            dty = t["dest"]["ty"]
            if not (dty.startswith("std::result::Result<") or dty.startswith("core::result::Result<")):
                continue
            if t["dest"]["p"]:
                continue
            cname = strip_generics(t["callee"]["pretty"]) if t["callee"] else "<indirect>"
            if cname in ("std::ops::FromResidual::from_residual",):
                continue
            dest = t["dest"]["l"]
            if dest == 0:
                ctx.inst("R08.3", "result-use:%s:%s#%d" % (short_fn(f), sym.short(cname), count_before(f, bi, cname, strip_generics)),
                         True, f.where(t["line"]), "%s -> returned to the caller" % cname)
                ctx.analysed["call_sites"] += 1
                continue
            verdict, why = classify_result_use(f, uses, dest, ACCEPT, REJECT, set())
            key = "result-use:%s:%s#%d" % (short_fn(f), sym.short(cname), count_before(f, bi, cname, strip_generics))
            ctx.inst("R08.3", key, verdict, f.where(t["line"]), "%s -> %s" % (cname, why))
            ctx.analysed["call_sites"] += 1

    # ---------------------------------------------------------------- R08.4
    ctx.rule("R08.4", "over every chain execute-arm -> reply -> ... the set of in-flight records stored and not removed is empty "
             "when the chain ends", 8)
    if fexec is None or rt.fn is None:
        ctx.lost("R08.4", "engine execute/reply")
        return
    _fn, msgp, table = ix.arms(ENG, "execute")
    chains_seen = {}

    def item_effects(e):
        may, must = ix.event_effects(e)
        stores = {it for (k, it) in may if k == "write" and it in TMP_ITEMS}
        removes = {it for (k, it) in must if k == "remove" and it in TMP_ITEMS}
        may_removes = {it for (k, it) in may if k == "remove" and it in TMP_ITEMS}
        return stores, removes, may_removes

    def walk_handler(fn, state, chain, depth):
        """state: frozenset of stored items on entry"""
        results = {}
        for p in ix.ok_paths(fn):
            st = set(state)
            for e in p.events:
                stores, removes, may_removes = item_effects(e)
                # sequential within a callee is summarised: a callee that both stores and removes the
                # same item is treated as store-last unless removal is a must-effect and store is not
                for it in removes:
                    if it not in stores:
                        st.discard(it)
                for it in stores:
                    st.add(it)
            nxt = set()
            for s in model.path_submsgs(ix, p):
                if s.reply_on_name() == "Always":
                    ident = s.id_int()
                    nxt.add(ident if ident is not None else "?")
            results.setdefault((frozenset(st), frozenset(nxt)), p)
        for (st, nxt), p in results.items():
            if not nxt:
                key = "chain:" + ">".join(chain)
                prev = chains_seen.get(key)
                ok = not st
                if prev is None or (prev[0] and not ok):
                    chains_seen[key] = (ok, fn, p, st)
                continue
            for ident in sorted(nxt, key=str):
                if ident == "?":
                    chains_seen["chain:" + ">".join(chain + ["id?"])] = (False, fn, p, {"undetermined id"})
                    continue
                h = rt.handler(ix, ident)
                if h is None:
                    chains_seen["chain:" + ">".join(chain + ["id%s:no-handler" % ident])] = (False, fn, p, st)
                    continue
                if depth <= 0:
                    chains_seen["chain:" + ">".join(chain + ["id%s:depth" % ident])] = (False, fn, p, {"chain too long"})
                    continue
                walk_handler(h.target, st, chain + ["id%s" % ident], depth - 1)

    for variant, ps in sorted(table.items()):
        if variant == "<none>":
            continue
        h = ix.arm_handler(ps)
        if h is None:
            ctx.lost("R08.4", "engine execute arm %s handler" % variant)
            continue
        walk_handler(h.target, frozenset(), [variant], 5)
    for key, (ok, fn, p, st) in sorted(chains_seen.items()):
        ctx.inst("R08.4", key, ok, fn.where(), "chain ends in %s with in-flight records %s" % (short_fn(fn), sorted(st) if st else "none"))
