"""C17 — Quoted amounts equal executed amounts; slippage limits are honoured."""
from .. import sym, guards, arms, model, norm
from ..sym import tag, payload, kids
from ..norm import N
from .common import *

EXPLANATION = ("R17.1 the InputAmount/OutputAmount query arms and the SwapInput/SwapOutput execute arms call the same pricing function "
               "on (msg.direction, msg amount, State.quote_asset_reserve, State.base_asset_reserve) and use its result unchanged; "
               "R17.2 the reserve writer receives the requested amount on the requested side and the priced amount on the other; "
               "R17.3 limit table per swap kind and direction on every success path (receive: amount >= limit, owe: amount <= limit, "
               "zero limit: no test) and nothing else rejects on the limit; R17.5 the caller's limit reaches the vAMM message field "
               "unchanged on OpenPosition (increase, reduce), whole ClosePosition and full Liquidate."
               " R17.6 the reduce-vs-reverse decision compares the position's spot notional with the order; R17.7 every success path of SwapInput/SwapOutput stores the vAMM State.")
NOT_DECIDED = "the arithmetic of the pricing function (C01) and overflow behaviour."

VAMM = "margined_vamm"
ENG = "margined_engine"


def state_field(ix, v, name):
    return guards.is_field_of_item(ix, v, VAMM, "margined_vamm:state", name)


def pricing_calls(ix, step):
    """[(path, event)] calls to a workspace function that takes both reserves of the loaded State"""
    out = []
    for q in step.ok_paths():
        for e in q.events:
            if e.target is None:
                continue
            hasq = any(state_field(ix, a, "quote_asset_reserve") for a in e.args)
            hasb = any(state_field(ix, a, "base_asset_reserve") for a in e.args)
            if hasq and hasb:
                out.append((q, e))
    return out


def classify_arg(ix, step, a, amount_field):
    s = step.s(a)
    if s == step.msgfield("direction"):
        return "msg.direction"
    if s == step.msgfield(amount_field):
        return "msg.amount"
    if state_field(ix, a, "quote_asset_reserve"):
        return "state.quote_asset_reserve"
    if state_field(ix, a, "base_asset_reserve"):
        return "state.base_asset_reserve"
    if tag(ix.inline(a)) == "param" or "Deps" in sym.show(a, 2) or tag(a) == "param":
        return "deps"
    return "other:%s" % sym.show(s, 4)


def run(ctx):
    ix = ctx.ix
    ctx.rule("R17.1", "quote and execute paths price with the same function on the same operands and use the result unchanged", 4)
    ctx.rule("R17.2", "reserve writer gets (requested amount on the requested side, priced amount on the other side, direction plumbing)", 2)
    ctx.rule("R17.3", "limit tests on success paths match the table; zero limit skips the test; a zero-amount swap cannot satisfy a non-zero receive limit", 6)
    ctx.rule("R17.5", "engine forwards the caller's limit unchanged into the vAMM message", 4)

    pairs = [("SwapInput", "quote_asset_amount", "InputAmount", "amount", "base_asset_limit"),
             ("SwapOutput", "base_asset_amount", "OutputAmount", "amount", "quote_asset_limit")]
    for (xvar, xamt, qvar, qamt, limit_field) in pairs:
        try:
            xa = arms.Arm(ix, VAMM, xvar)
            qa = arms.Arm(ix, VAMM, qvar, entry="query")
        except KeyError as e:
            ctx.lost("R17.1", str(e))
            continue
        ctx.analysed["functions"].update([xa.fn.pretty, qa.fn.pretty])
        xc = pricing_calls(ix, xa)
        qc = pricing_calls(ix, qa)
        xt = {e.target.pretty for (_q, e) in xc}
        qt = {e.target.pretty for (_q, e) in qc}
        xsig = {tuple(classify_arg(ix, xa, a, xamt) for a in e.args) for (_q, e) in xc}
        qsig = {tuple(classify_arg(ix, qa, a, qamt) for a in e.args) for (_q, e) in qc}
        want = ("deps", "msg.direction", "msg.amount", "state.quote_asset_reserve", "state.base_asset_reserve")
        ok = len(xt) == 1 and xt == qt and xsig == {want} and qsig == {want}
        ctx.inst("R17.1", "same-pricing:%s/%s" % (xvar, qvar), ok, xa.fn.where(),
                 "execute calls %s with %s; query calls %s with %s" % (sorted(xt), sorted(xsig), sorted(qt), sorted(qsig)))
        # query returns the priced amount unchanged
        qok = True
        for q in qa.ok_paths():
            calls = [e for e in q.events if e.target is not None and e.target.pretty in qt]
            r = q.ret
            if not calls or sym.unwrap(r) != sym.unwrap(calls[0].result):
                qok = False
        ctx.inst("R17.1", "query-returns-priced:%s" % qvar, qok and bool(qa.ok_paths()), qa.fn.where(),
                 "query result is %s" % ("the pricing function's result" if qok else "NOT the unmodified pricing result"))

        # the execute arm does not call the pricing function for an amount of zero (it exchanges 0), the query always
        # does: the two agree only if the pricing function itself answers 0 for a zero amount - on a path that has
        # established the amount to be zero (round-15 seed C17q folded that guard into the rounding test: on reserves
        # that are not whole units a zero amount was quoted as 2)
        zb = None
        nz_ = 0
        bypass = any(not any(e.target is not None and e.target.pretty in xt for e in q.events) for q in xa.ok_paths())
        if bypass and len(xt) == 1:
            pf_ = ix.world.by_pretty.get(next(iter(xt)))
            amt_i = [i for i in range(pf_.arg_count) if pf_.locals[i + 1]["ty"].endswith("Uint128")]
            amt_p = sym.param(pf_.key, amt_i[0], pf_.param_name(amt_i[0])) if amt_i else None
            zero_answer = False
            pf_paths = ix.ok_paths(pf_)
            try:
                # (the public pricing function may be a thin wrapper: open the helper the amount is handed to)
                pf_paths = splice(ix, pf_paths, lambda e, amt_p=amt_p: amt_p is not None and any(ix.inline(a_) == amt_p for a_ in e.args), rounds=2)
            except Exception:
                pass
            for p_ in pf_paths:
                az = None
                for (at, o, _b, _l) in p_.conds:
                    a2 = ix.inline(at)
                    if tag(a2) == "op" and payload(a2)[0] == "is_zero" and ix.inline(kids(a2)[0]) == amt_p and o in (True, False):
                        az = o
                    if tag(a2) == "op" and payload(a2)[0] in ("eq", "ne") and len(kids(a2)) == 2 and o in (True, False):
                        ks = [ix.inline(k) for k in kids(a2)]
                        if amt_p in ks and any(N(ix, k) == ("int", 0) for k in ks):
                            az = ((payload(a2)[0] == "eq") == o)
                if az is True:
                    nz_ += 1
                    if N(ix, sym.unwrap(p_.ret)) == ("int", 0):
                        zero_answer = True
                    else:
                        zb = zb or "the pricing function answers %s for an amount established to be zero" % norm.show(N(ix, sym.unwrap(p_.ret)))[:100]
            if not zero_answer:
                zb = zb or "the pricing function has no path that answers 0 because the amount is zero, while the execute arm exchanges 0 without calling it: quote and execution differ for amount 0"
            ctx.inst("R17.1", "zero-amount-quote:%s/%s" % (xvar, qvar), zb is None, pf_.where(), zb or "%d zero-amount paths of the pricing function answer 0" % nz_)

        # ---- R17.2: reserve writer arguments
        bad = None
        n = 0
        for q in xa.ok_paths():
            pc = [e for e in q.events if e.target is not None and e.target.pretty in xt]
            priced = sym.unwrap(pc[0].result) if pc else None
            for e in q.events:
                if e.target is None:
                    continue
                may, _must = ix.event_effects(e)
                if ("write", "margined_vamm:state") not in may:
                    continue
                n += 1
                args = [xa.s(a) for a in e.args]
                req = xa.msgfield(xamt)
                if req not in args:
                    bad = bad or "requested amount %s is not passed to the reserve writer" % xamt
                zero_path = any(tag(c[0]) == "op" and payload(c[0])[0] == "is_zero" and xa.s(kids(c[0])[0]) == req and c[1] is True for c in q.conds)
                if priced is not None:
                    if xa.s(priced) not in args and priced not in e.args:
                        bad = bad or "priced amount is not passed unchanged to the reserve writer"
                elif not zero_path:
                    bad = bad or "no pricing call on a non-zero path"
                # direction plumbing
                d = xa.msgfield("direction")
                dirs = [a for a in args if a == d or (tag(a) == "agg" and payload(a)[0].endswith("margined_vamm::Direction"))]
                if xvar == "SwapInput":
                    if d not in args:
                        bad = bad or "swap_input does not hand its direction on unchanged"
                else:
                    # flipped: on a path with discr(direction)==X the writer gets the other variant
                    known = None
                    for (at, o, _b, _l) in q.conds:
                        if tag(at) == "op" and payload(at)[0] == "discr" and xa.s(kids(at)[0]) == d and o[0] == "variant":
                            known = o[1]
                    got = [payload(a)[1] for a in args if tag(a) == "agg" and payload(a)[0].endswith("margined_vamm::Direction")]
                    if known is None or not got or got[0] == known:
                        bad = bad or "swap_output passes direction %s to the writer on the %s path (must be flipped)" % (got, known)
        ctx.inst("R17.2", "writer-args:%s" % xvar, bad is None and n > 0, xa.fn.where(),
                 "%d reserve-writer calls on success paths; %s" % (n, bad or "requested side unchanged, other side priced, direction %s" % ("unchanged" if xvar == "SwapInput" else "flipped")))

        # ---- R17.3 limit table
        lim = xa.msgfield(limit_field)
        d = xa.msgfield("direction")
        bad = None
        seen = set()
        def limit_helper(e):
            # a helper the limit comparison was moved into: takes the limit and the priced amount, returns a Result
            t_ = e.target
            return t_.crate == VAMM and "Result" in t_.locals[0]["ty"] and t_.pretty not in xt and any(xa.s(a) == lim for a in e.args)
        for q in splice(ix, xa.ok_paths(), limit_helper):
            pc = [e for e in q.events if e.target is not None and e.target.pretty in xt]
            if not pc:
                continue
            priced = xa.s(sym.unwrap(pc[0].result))
            limit_zero = None
            direction = None
            tests = []
            for (at, o, _b, _l) in q.conds:
                a2 = xa.s(at)
                if tag(a2) == "op":
                    nm = payload(a2)[0]
                    ks = kids(a2)
                    if nm == "is_zero" and ks[0] == lim:
                        limit_zero = o
                    if nm == "discr" and ks[0] == d and o[0] == "variant":
                        direction = o[1]
                    if nm == "eq" and len(ks) == 2:
                        for u, v in ((ks[0], ks[1]), (ks[1], ks[0])):
                            if u == d and tag(v) == "agg":
                                direction = payload(v)[1] if o is True else ("RemoveFromAmm" if payload(v)[1] == "AddToAmm" else "AddToAmm")
                    if nm in ("lt", "gt", "le", "ge") and len(ks) == 2 and priced in ks and lim in ks:
                        # normalise to priced <op> limit
                        opn = nm if ks[0] == priced else {"lt": "gt", "gt": "lt", "le": "ge", "ge": "le"}[nm]
                        tests.append((opn, o))
            if limit_zero is True:
                if tests:
                    bad = bad or "a limit comparison is made although the limit is zero"
                seen.add(("zero-limit", direction))
                continue
            if limit_zero is None:
                bad = bad or "success path neither tests the limit for zero nor ... (conds: %s)" % "; ".join("%s=%s" % (sym.show(c[0], 4), c[1]) for c in q.conds[:6])
                continue
            # who receives? SwapInput: AddToAmm receives base. SwapOutput: AddToAmm (sell base) receives quote.
            receive = direction == "AddToAmm"
            need = ("lt", False) if receive else ("gt", False)
            alt = ("ge", True) if receive else ("le", True)
            if need not in tests and alt not in tests:
                bad = bad or "direction %s with a non-zero limit succeeds without establishing amount %s limit (tests seen: %s)" % (direction, ">=" if receive else "<=", tests)
            wrong = [t for t in tests if t not in (need, alt)]
            if wrong:
                bad = bad or "direction %s: unexpected limit test %s on a success path" % (direction, wrong)
            seen.add(("limit", direction))
        ctx.inst("R17.3", "limit-table:%s" % xvar, bad is None and ("limit", "AddToAmm") in seen and ("limit", "RemoveFromAmm") in seen, xa.fn.where(),
                 "success-path classes %s; %s" % (sorted(str(x) for x in seen), bad or "receive => amount >= limit, owe => amount <= limit, zero => untested"))
        # zero-amount swaps: nothing is exchanged, so a non-zero limit that demands to RECEIVE something cannot be met
        zbad = None
        zn = 0

        def zero_ok(fs):
            """facts (handler's own or of a limit helper it relies on, in entry terms) that make a zero amount acceptable:
            the limit is zero (also spelled `!(0 < limit)`), or the trader is on the owing side"""
            for (at, o) in fs:
                a2 = ix.inline(at)
                if tag(a2) != "op":
                    continue
                nm = payload(a2)[0]
                ks = kids(a2)
                if nm == "is_zero" and ks[0] == lim and o is True:
                    return True
                if nm in ("lt", "gt", "le", "ge") and len(ks) == 2 and o in (True, False):
                    zero_l = tag(ks[0]) == "int" and int(payload(ks[0])[0]) == 0
                    zero_r = tag(ks[1]) == "int" and int(payload(ks[1])[0]) == 0
                    # 0 < limit false / limit > 0 false / 0 >= limit true / limit <= 0 true  <=>  limit == 0
                    if zero_l and ks[1] == lim and ((nm == "lt" and o is False) or (nm == "ge" and o is True)):
                        return True
                    if zero_r and ks[0] == lim and ((nm == "gt" and o is False) or (nm == "le" and o is True)):
                        return True
                if nm == "discr" and ks[0] == d and isinstance(o, tuple):
                    if (o[0] == "variant" and o[1] == "RemoveFromAmm") or (o[0] == "other" and "AddToAmm" in o[1]):
                        return True
                if nm in ("eq", "ne") and len(ks) == 2 and o in (True, False):
                    for u, v in ((ks[0], ks[1]), (ks[1], ks[0])):
                        if u == d and tag(v) == "agg" and not kids(v):
                            same = (nm == "eq") == o
                            var = payload(v)[1]
                            if (var == "RemoveFromAmm" and same) or (var == "AddToAmm" and not same):
                                return True
            return False
        for q in xa.ok_paths():
            if any(e.target is not None and e.target.pretty in xt and N(ix, xa.c(sym.unwrap(e.result))) != ("int", 0) for e in q.events):
                # priced: unless the amount is known to be zero on this path
                if not any(tag(xa.s(at)) == "op" and payload(xa.s(at))[0] == "is_zero" and kids(xa.s(at))[0] == xa.msgfield(xamt) and o is True for (at, o, _b, _l) in q.conds):
                    continue
            zn += 1
            if not guards.path_satisfies(ix, q, zero_ok, xa.m):
                zbad = zbad or "a swap of amount zero succeeds with a non-zero limit on the receiving side: the trader receives 0 < limit"
        ctx.inst("R17.3", "limit-on-zero-amount:%s" % xvar, zbad is None and zn > 0, xa.fn.where(),
                 zbad or "%d zero-amount success paths: limit zero, or the trader is on the owing side (0 <= limit)" % zn)
        # ... and the other way round (availability): a swap of amount zero with NO limit is never refused, whichever the
        # direction - for each direction some zero-amount success alternative is consistent with (limit == 0, that direction)
        # (blind sweep: `!limit.is_zero() || direction == RemoveFromAmm` refused every zero-amount swap on the owing side)
        def consistent(fs, want_dir):
            for (at, o) in fs:
                a2 = ix.inline(at)
                if tag(a2) != "op":
                    continue
                nm = payload(a2)[0]
                ks = kids(a2)
                if nm == "is_zero" and ks[0] == lim and o is False:
                    return False
                if nm in ("lt", "gt", "le", "ge") and len(ks) == 2 and o in (True, False):
                    zero_l = tag(ks[0]) == "int" and int(payload(ks[0])[0]) == 0
                    zero_r = tag(ks[1]) == "int" and int(payload(ks[1])[0]) == 0
                    if zero_l and ks[1] == lim and ((nm == "lt" and o is True) or (nm == "ge" and o is False)):
                        return False
                    if zero_r and ks[0] == lim and ((nm == "gt" and o is True) or (nm == "le" and o is False)):
                        return False
                if nm == "discr" and ks[0] == d and isinstance(o, tuple):
                    if o[0] == "variant" and o[1] != want_dir:
                        return False
                    if o[0] == "other" and want_dir in o[1]:
                        return False
                if nm in ("eq", "ne") and len(ks) == 2 and o in (True, False):
                    for u, v in ((ks[0], ks[1]), (ks[1], ks[0])):
                        if u == d and tag(v) == "agg" and not kids(v):
                            same = (nm == "eq") == o
                            var = payload(v)[1]
                            if (same and var != want_dir) or ((not same) and var == want_dir):
                                return False
            return True
        avail = {}
        for q in xa.ok_paths():
            if any(e.target is not None and e.target.pretty in xt and N(ix, xa.c(sym.unwrap(e.result))) != ("int", 0) for e in q.events):
                if not any(tag(xa.s(at)) == "op" and payload(xa.s(at))[0] == "is_zero" and kids(xa.s(at))[0] == xa.msgfield(xamt) and o is True for (at, o, _b, _l) in q.conds):
                    continue
            for alt in guards.facts_dnf(ix, q):
                fs_ = [(xa.c(a_), o_) for (a_, o_) in alt]
                for wd in ("AddToAmm", "RemoveFromAmm"):
                    if consistent(fs_, wd):
                        avail[wd] = True
        missing = [wd for wd in ("AddToAmm", "RemoveFromAmm") if not avail.get(wd)]
        ctx.inst("R17.3", "zero-amount-no-limit-available:%s" % xvar, not missing, xa.fn.where(),
                 "a zero-amount swap without a limit succeeds in both directions" if not missing else
                 "no success path for a zero-amount swap with limit 0 and direction %s: wrongly refused" % missing)
        # strictness: rejecting paths reject only on strict violation
        strict_bad = None
        for p in ix.paths(xa.fn):
            if p.kind() != "err" or not ix.feasible(p, xa.m):
                continue
            last = p.conds[-1] if p.conds else None
            if last is None:
                continue
            a2 = xa.s(last[0])
            if tag(a2) == "op" and payload(a2)[0] in ("lt", "gt", "le", "ge") and lim in kids(a2):
                nm = payload(a2)[0]
                if (nm in ("le", "ge") and last[1] is True) or (nm in ("lt", "gt") and last[1] is False):
                    strict_bad = strict_bad or "rejects when %s(%s) is %s: a limit equal to the executed amount is refused" % (nm, ", ".join(sym.show(k, 3) for k in kids(a2)), last[1])
        ctx.inst("R17.3", "limit-boundary:%s" % xvar, strict_bad is None, xa.fn.where(), strict_bad or "rejection only on strict violation of the limit")

    # ---------------------------------------------------------------- R17.5
    def emitted(step, ids):
        out = []
        for q in step.ok_paths():
            for s in model.path_submsgs(ix, q):
                if s.id_int() in ids:
                    out.append((q, s))
        return out
    specs = [("OpenPosition", {1: "increase", 2: "reduce"}, "base_asset_limit", "base_asset_limit"),
             ("ClosePosition", {4: "whole close"}, "quote_asset_limit", "quote_asset_limit"),
             ("Liquidate", {6: "full liquidation"}, "quote_asset_limit", "quote_asset_limit")]
    for (variant, ids, msg_field, vamm_field) in specs:
        try:
            a = arms.Arm(ix, ENG, variant)
        except KeyError as e:
            ctx.lost("R17.5", str(e))
            continue
        for ident, what in ids.items():
            em = emitted(a, {ident})
            bad = None
            for (q, s) in em:
                mv = ix.msg_variant(s.inner_msg())
                if not mv or vamm_field not in mv[2]:
                    bad = bad or "message has no %s" % vamm_field
                    continue
                got = a.s(mv[2][vamm_field])
                if got != a.msgfield(msg_field):
                    bad = bad or "%s carries %s = %s instead of the caller's %s" % (mv[1], vamm_field, sym.show(got, 5), msg_field)
            ctx.inst("R17.5", "limit-forwarded:%s:%s" % (variant, what.replace(" ", "-")), bad is None and bool(em), a.fn.where(),
                     "%d emission(s) with id %d; %s" % (len(em), ident, bad or "limit is the message field unchanged"))

    # ---- the branch that drops the caller's limit (the reversing SwapOutput carries limit 0 by design) must only be
    # taken for a position that really exists: a stored zero-size position is a fresh open and keeps the limit
    try:
        a = arms.Arm(ix, ENG, "OpenPosition")
        n_drop = 0
        bad = None

        def size_nonzero(fs):
            for (at, o) in fs:
                if tag(at) in ("call", "op") and str(payload(at)[0]).split("::")[-1] == "is_zero" and o is False and len(kids(at)) == 1:
                    x = ix.inline(kids(at)[0])
                    # Integer::is_zero(position.size) or Uint128::is_zero(position.size.value)
                    if tag(x) == "field" and payload(x)[0] == "value":
                        x = ix.inline(kids(x)[0])
                    if tag(x) == "field" and payload(x)[0] == "size":
                        return True
            return False
        for q in a.ok_paths():
            drops = []
            for s2 in model.path_submsgs(ix, q):
                mv = ix.msg_variant(s2.inner_msg()) if s2.inner_msg() is not None else None
                if not mv or not mv[0].endswith("margined_vamm::ExecuteMsg") or mv[1] not in ("SwapInput", "SwapOutput"):
                    continue
                lim = mv[2].get("base_asset_limit" if mv[1] == "SwapInput" else "quote_asset_limit")
                if lim is None or a.s(lim) != a.msgfield("base_asset_limit"):
                    drops.append(mv[1])
            if not drops:
                continue
            n_drop += 1
            if not guards.path_satisfies(ix, q, size_nonzero, a.m):
                bad = bad or ("a success path can emit %s without the caller's base_asset_limit and nothing on it establishes that the stored position's size is "
                              "non-zero: a position closed out by an offsetting OpenPosition stays stored with size 0 and its old direction, and the next "
                              "opposite-side open takes this branch" % sorted(set(drops)))
        ctx.inst("R17.5", "limit-dropped-only-for-live-position:OpenPosition", bad is None and n_drop > 0, a.fn.where(),
                 bad or "%d success paths may emit a swap without the caller's limit (the reversal); each establishes position.size != 0 first" % n_drop)
    except KeyError as e:
        ctx.lost("R17.5", str(e))



    # ---------------------------------------------------------------- R17.6
    # "the engine applies the caller's limit unchanged on OpenPosition trades that reduce a position": the branch that
    # forwards the limit (the reducing SwapInput) is chosen by comparing the position's current SPOT notional - the quote
    # the vAMM will execute at - with the order; a TWAP / blended valuation would send a genuine reduction down the
    # reversing branch, which swaps the whole position out with no limit
    from .c02 import reduce_decision_instance
    ctx.rule("R17.6", "the reduce-vs-reverse decision (which selects the limit-carrying swap) compares the position's spot notional with the order notional", 1)
    reduce_decision_instance(ctx, "R17.6")

    # ---------------------------------------------------------------- R17.7
    # "the swap moves exactly the requested amount on the requested side": every success path of both swap arms stores
    # the updated State (a store skipped when, say, the base leg rounds to zero leaves the quote reserve where it was
    # although the swap reports it as moved)
    ctx.rule("R17.7", "every success path of SwapInput / SwapOutput stores the updated vAMM State (unconditionally)", 2)
    for xvar in ("SwapInput", "SwapOutput"):
        try:
            xa7 = arms.Arm(ix, VAMM, xvar)
        except KeyError as e:
            ctx.lost("R17.7", str(e))
            continue
        bad7 = None
        n7 = 0
        for q in xa7.ok_paths():
            n7 += 1
            if not any(ix.must_write_item(e7, "margined_vamm:state") for e7 in q.events):
                bad7 = bad7 or "a success path does not (unconditionally) store the State"
        ctx.inst("R17.7", "state-stored:%s" % xvar, bad7 is None and n7 > 0, xa7.fn.where(), bad7 or "%d success paths, each stores the State" % n7)
