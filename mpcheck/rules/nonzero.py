"""Shared rule: every token-moving message a chain step can emit has an amount that is non-zero by the facts of the path
that emits it (a zero-amount bank send / cw20 transfer / insurance-fund Withdraw is rejected by the receiving module,
and the failing sub-message reverts the whole transaction).  Used by C07 (liquidation replies) and C11 (funding reply)."""
from .. import sym, guards, model, norm
from ..sym import tag, payload, kids
from ..norm import N
from .common import *
from .posflow import ENG


def _mover_amount(ix, site):
    """amount tree of a token-moving SubMsg construction, None if it moves no tokens"""
    from .c03 import transfers_of
    for (k2, _payer, _recv, amount) in transfers_of(ix, site):
        if k2 in ("bank-send", "cw20-transfer", "cw20-transfer-from") and amount is not None:
            return amount
    im = site.inner_msg()
    mv = ix.msg_variant(im) if im is not None else None
    if mv and mv[0].endswith("margined_insurance_fund::ExecuteMsg") and mv[1] == "Withdraw":
        return mv[2]["amount"]
    return None


def movers_of(ctx):
    """{fn.key: index of the amount parameter} for the lowest-level engine functions that build a token-moving
    SubMsg whose amount is one of their parameters.  The SubMsg may be assembled through wrappers (a helper that
    fills in id / reply_on): constructions are collected with call-site substitution, and a candidate that merely
    forwards its parameter to another candidate is not a leaf."""
    ix, w = ctx.ix, ctx.world
    cand = {}
    for f in w.crate_fns(ENG):
        if f.derived or "::_::" in f.pretty or f.kind == "Closure":
            continue
        try:
            if not model.constructs_submsg(ix, f):
                continue
            sites = model.reachable_submsgs(ix, f, {})
        except Exception:
            continue
        for s in sites:
            amt = _mover_amount(ix, s)
            if amt is None:
                continue
            amt = ix.inline(amt)
            for i in range(f.arg_count):
                if amt == sym.param(f.key, i, f.param_name(i)):
                    cand.setdefault(f.key, set()).add(i)
    movers = {}
    for k, idxs in cand.items():
        f = w.fns[k]
        forwards = False
        try:
            for p in ix.ok_paths(f):
                for e in p.events:
                    if e.target is not None and e.target.key in cand and e.target.key != k:
                        forwards = True
        except Exception:
            pass
        if not forwards and len(idxs) == 1:
            movers[k] = next(iter(idxs))
    return movers


def nonzero(ix, amount, fs):
    """amount != 0 follows from the path facts fs: a literal, `!amount.is_zero()` (also of the signed value whose
    magnitude it is), or amount = x - y with y < x"""
    a = ix.inline(amount)
    if tag(a) == "int":
        return int(payload(a)[0]) != 0
    na = N(ix, a)
    strict = set()   # (smaller, larger) pairs of normal forms established by the path
    for (at, o) in fs:
        if tag(at) not in ("call", "op") or o not in (True, False):
            continue
        short = str(payload(at)[0]).split("::")[-1]
        ks = kids(at)
        if short == "is_zero" and len(ks) == 1 and o is False:
            nz = N(ix, ks[0])
            if nz == na or (isinstance(na, tuple) and len(na) == 2 and na[0] == "mag" and na[1] == nz):
                return True
        if short in ("is_ok", "is_some") and len(ks) == 1 and o is False and tag(ks[0]) in ("call", "op") \
                and str(payload(ks[0])[0]).split("::")[-1].split(".")[-1] == "checked_sub" and len(kids(ks[0])) == 2:
            # a.checked_sub(b) failed: a < b
            strict.add((N(ix, kids(ks[0])[0]), N(ix, kids(ks[0])[1])))
        if len(ks) == 2 and short in ("lt", "gt", "le", "ge"):
            l, r = N(ix, ks[0]), N(ix, ks[1])
            if (short, o) in (("lt", True), ("ge", False)):
                strict.add((l, r))
            elif (short, o) in (("gt", True), ("le", False)):
                strict.add((r, l))
    if isinstance(na, tuple) and len(na) == 3 and na[0] == "sub":
        return (na[2], na[1]) in strict
    # |X| with a fact X != 0 in any spelling (is_zero, raw flag / magnitude, comparison with the signed zero)
    signed_of = ix.inline(kids(a)[0]) if tag(a) == "field" and payload(a)[0] == "value" and kids(a) else None
    for (k_, x_, o_) in sign_tests(ix, list(fs)):
        if k_ == "is_zero" and o_ is False:
            nz = N(ix, x_)
            if nz == na or (isinstance(na, tuple) and len(na) == 2 and na[0] == "mag" and na[1] == nz):
                return True
            if signed_of is not None and (ix.inline(x_) == signed_of or N(ix, signed_of) == nz):
                return True   # the amount is `X.value` and the path knows X != 0
    return False


def nonzero_instances(ctx, em, rule, text, floor, chain_filter, consequence, select=None, facts_select=None, target_select=None):
    """select(amount value) -> bool: only emissions whose amount satisfies it are obligations (default: all);
    facts_select(path facts) -> bool: only emissions on paths whose facts satisfy it"""
    ix = ctx.ix
    ctx.rule(rule, text, floor)
    movers = movers_of(ctx)
    if len(movers) < 2:
        # (bank/cw20 transfer constructor(s) and the insurance-fund withdrawal; the engine may merge its transfer constructors)
        ctx.lost(rule, "token-moving message constructors (found %d)" % len(movers))

    def emitters(fn, m, inherited, chain, depth, out):
        try:
            ps = ix.ok_paths_at(fn, m)
        except Exception:
            out.append((chain, None, False, "could not enumerate %s" % fn.pretty))
            return
        for p in ps:
            fs = set(inherited) | guards._own_facts(ix, p, m)
            for e in p.events:
                if e.target is None:
                    continue
                args2 = tuple(sym.subst(a, m) for a in e.args) if m else tuple(e.args)
                if e.target.key in movers:
                    amt = args2[movers[e.target.key]]
                    if select is not None and not select(amt):
                        continue
                    if facts_select is not None and not facts_select(fs):
                        continue
                    if target_select is not None and not target_select(e.target, args2):
                        continue
                    out.append((chain + (short_fn(e.target).split("::")[-1],), amt, nonzero(ix, amt, fs), None))
                elif depth > 0 and model.constructs_submsg(ix, e.target):
                    emitters(e.target, ix.param_map(e.target, args2), fs, chain + (short_fn(e.target).split("::")[-1],), depth - 1, out)

    for ckey in sorted(em.chains):
        if not chain_filter(ckey):
            continue
        st = em.chains[ckey][-1]
        out = []
        emitters(st.fn, st.m, (), (), 4, out)
        by_chain = {}
        for (chain, amt, ok, err) in out:
            d = by_chain.setdefault(">".join(chain), {"ok": True, "amts": set(), "err": None})
            d["ok"] = d["ok"] and ok
            if amt is not None:
                d["amts"].add((norm.show(N(ix, amt)), ok))
            d["err"] = d["err"] or err
        for cname, d in sorted(by_chain.items()):
            badamts = sorted(a for (a, ok) in d["amts"] if not ok)
            ctx.inst(rule, "nonzero-amount:%s:%s" % (ckey, cname), d["ok"], st.fn.where(),
                     d["err"] or ("amount %s can be zero on an emitting path: %s" % ([b[:300] for b in badamts[:2]], consequence) if badamts
                                  else "%d emitting paths, amount non-zero by a path fact (is_zero test / strict comparison before the subtraction)" % len(d["amts"])))
