"""C11 — Funding settles on schedule, exactly, and is charged once per position."""
from .. import sym, guards, arms, model, norm
from ..sym import tag, payload, kids
from ..norm import N, match, hole, anyhole
from .common import *
from .em import *

EXPLANATION = ("R11.1 SettleFunding succeeds only with now >= next_funding_time; R11.2 premium fraction = (twap_vamm - twap_oracle) * "
               "funding_period / 86400 (the tree behind both the emitted attribute and the funding rate), next funding time = "
               "max(((now+period)/3600)*3600, now+buffer), buffer = period/2 written only at instantiate; R11.3 pay_funding_reply "
               "appends exactly once (cumulative = last + new), payment = total_position_size * fraction / decimals, negative -> "
               "insurance Withdraw(|p|), positive -> transfer min(balance, p) to the insurance fund, zero -> nothing; R11.4 at every "
               "position store the margin comes from a remain-margin result iff the checkpoint comes from the same result. R11.9 the funding transfer capped at the vault balance sends min(balance, amount).")
NOT_DECIDED = "TWAP values themselves (C18); numeric exactness beyond formula identity."

VAMM = "margined_vamm"


def is_last_of_list(ix, v, loaded=True):
    """v is the LAST element of a stored vAMM-map's cumulative_premium_fractions list: list[len(list) - 1] or list.last()"""
    vi = ix.inline(v)

    def zeroish(x):
        xi = ix.inline(x)
        return (tag(xi) == "fnref" and str(payload(xi)[0]).endswith("Integer::zero")) or N(ix, xi) == ("pos", ("int", 0))
    while True:
        if tag(vi) in ("unwrap", "ok"):
            vi = ix.inline(kids(vi)[0])
            continue
        if tag(vi) == "call" and kids(vi):
            nm_ = str(payload(vi)[0]).split("::")[-1]
            if nm_ in ("copied", "cloned", "clone") or nm_ == "unwrap_or_default" or \
               (nm_ in ("unwrap_or", "unwrap_or_else") and len(kids(vi)) == 2 and zeroish(kids(vi)[1])):
                # `last().copied().unwrap_or_else(Integer::zero)`: the last element, zero for an empty list
                vi = ix.inline(kids(vi)[0])
                continue
        break
    if tag(vi) != "call" or not kids(vi):
        return False
    nm = str(payload(vi)[0]).split("::")[-1]
    lst = ix.inline(kids(vi)[0])

    def is_list(x):
        # loaded=False: the list of whatever map value is being updated (a `&mut VammMap` parameter of an update closure)
        return tag(x) == "field" and payload(x)[0] == "cumulative_premium_fractions" and (not loaded or guards.loaded_item(ix, kids(x)[0], ENG) == VMAP)
    if not is_list(lst):
        return False
    if nm == "last":
        return True
    if nm == "index" and len(kids(vi)) == 2:
        i = ix.inline(kids(vi)[1])
        return tag(i) == "op" and payload(i)[0] == "sub" and len(kids(i)) == 2 and tag(kids(i)[1]) == "int" and payload(kids(i)[1])[0] == "1" \
            and tag(ix.inline(kids(i)[0])) == "op" and payload(ix.inline(kids(i)[0]))[0] == "len" and ix.inline(kids(ix.inline(kids(i)[0]))[0]) == lst
    return False


def run(ctx):
    ix = ctx.ix
    w = ctx.world
    em = EM(ctx)
    ctx.rule("R11.1", "SettleFunding: now < next_funding_time leads to Err on every path", 1)
    ctx.rule("R11.2", "premium fraction, funding rate and next funding time formulas; buffer = period/2 only at instantiate", 4)
    ctx.rule("R11.3", "pay_funding_reply: one append, cumulative = last + new, payment formula and direction table", 4)
    ctx.rule("R11.4", "charge/checkpoint pairing at every position store", 6)

    def vcfg(v, f):
        return guards.is_field_of_item(ix, v, VAMM, "margined_vamm:config", f)

    def vstate(v, f):
        return guards.is_field_of_item(ix, v, VAMM, "margined_vamm:state", f)
    try:
        a = arms.Arm(ix, VAMM, "SettleFunding")
    except KeyError as e:
        ctx.lost("R11.1", str(e))
        a = None
    if a is not None:
        ctx.analysed["functions"].add(a.fn.pretty)
        now_pred = lambda v: tag(ix.inline(v)) == "op" and payload(ix.inline(v))[0] == "ts.seconds"
        bad = None
        for (q, alt) in a.alternatives():
            ok = False
            for (at, o) in alt:
                if tag(at) == "op" and payload(at)[0] in ("lt", "ge") and len(kids(at)) == 2:
                    l, r = kids(at)
                    passing = (payload(at)[0] == "lt" and o is False) or (payload(at)[0] == "ge" and o is True)
                    if passing and now_pred(l) and vstate(r, "next_funding_time"):
                        ok = True
            if not ok:
                bad = bad or q
        ctx.inst("R11.1", "funding-time-guard", bad is None and bool(a.ok_paths()), a.fn.where(),
                 "%d success paths; %s" % (len(a.ok_paths()), "each established now >= State.next_funding_time" if bad is None else "a success path lacks the schedule guard"))
        # ---- R11.2
        def own_twap(v):
            """the vAMM's own time-weighted price over config.spot_price_twap_interval: a (possibly wrapped) call of a
            function that takes the block Env and a u64 interval, with that interval argument"""
            vi = ix.inline(v)
            while tag(vi) in ("unwrap", "ok"):
                vi = ix.inline(kids(vi)[0])
            if tag(vi) != "call" or "Querier" in sym.show(vi, 2):
                return False
            t = ix.call_target(vi)
            if t is None:
                return False
            iv = [ix.inline(k) for k, i in zip(kids(vi), range(t.arg_count)) if t.locals[i + 1]["ty"] == "u64"]
            has_env = any(t.locals[i + 1]["ty"].endswith("cosmwasm_std::Env") for i in range(t.arg_count))
            return has_env and len(iv) == 1 and vcfg(iv[0], "spot_price_twap_interval")
        twap_v = hole("twap_vamm", own_twap)
        def oracle_twap(v):
            qq = ix.parse_query(v)
            if not qq or qq.get("msg") is None:
                return False
            mv = ix.msg_variant(qq["msg"])
            return bool(mv and mv[1] == "GetTwapPrice" and vcfg(qq["addr"], "pricefeed") and
                        mv[2].get("interval") is not None and vcfg(mv[2]["interval"], "spot_price_twap_interval"))
        twap_o = hole("twap_oracle", oracle_twap)
        period = hole("period", lambda v: vcfg(v, "funding_period"))
        PF = ("idiv", ("imul", ("isub", ("pos", twap_v), ("pos", twap_o)), ("pos", period)), ("pos", ("int", 86400)))
        RATE = ("idiv", ("imul", PF, ("pos", hole("decimals", lambda v: vcfg(v, "decimals")))), ("pos", twap_o))
        pf_ok = rate_ok = True
        nft_bad = None
        attr_ok = True
        n = 0
        for q in a.ok_paths():
            n += 1
            st_val = None
            for wr in a.writes(q):
                if wr["item"] == "margined_vamm:state" and wr["value"] is not None:
                    st_val = ix.inline(wr["value"])
            if st_val is None:
                rate_ok = False
                continue
            fr = N(ix, sym.field(st_val, "funding_rate"))
            if match(RATE, fr) is None:
                rate_ok = False
            # the emitted attribute
            found = False
            for v in sym.walk(q.ret):
                if tag(v) == "tuple" and len(kids(v)) == 2 and tag(kids(v)[0]) == "const" and "premium_fraction" in payload(kids(v)[0])[1]:
                    found = True
                    if match(PF, N(ix, kids(v)[1])) is None:
                        pf_ok = False
            if not found:
                attr_ok = False
            # next funding time
            nft = N(ix, sym.field(st_val, "next_funding_time"))
            nowh = hole("now", lambda v: tag(v) == "op" and payload(v)[0] == "ts.seconds")
            A = ("mul", ("div", ("add", nowh, period), ("int", 3600)), ("int", 3600))
            isA = match(A, nft) is not None
            gtc = None
            # the same maximum written with max(): max(aligned, now + buffer) in either operand order
            sv = ix.inline(a.c(sym.field(st_val, "next_funding_time")))
            if tag(sv) in ("op", "call") and str(payload(sv)[0]).split("::")[-1] == "max" and len(kids(sv)) == 2:
                k0, k1 = kids(sv)
                for x, y in ((k0, k1), (k1, k0)):
                    if match(A, N(ix, x)) is not None and any(vcfg(z, "funding_buffer_period") for z in sym.walk(ix.inline(y))) \
                            and any(tag(z) == "op" and payload(z)[0] == "ts.seconds" for z in sym.walk(ix.inline(y))):
                        gtc = "max"
            if gtc == "max":
                continue
            for (at, o, _b, _l) in q.conds:
                at = a.c(at)
                if tag(at) == "op" and payload(at)[0] == "gt" and match(A, N(ix, kids(at)[0])) is not None:
                    gtc = o
                    other = kids(at)[1]
                    buf_ok = any(vcfg(x, "funding_buffer_period") for x in sym.walk(ix.inline(other)))
                    if not buf_ok:
                        nft_bad = nft_bad or "hour-aligned time is not compared with now + funding_buffer_period"
                    if o is False and N(ix, other) != nft and ix.inline(other) != ix.inline(sym.field(st_val, "next_funding_time")):
                        nft_bad = nft_bad or "when the aligned time is not later, something else than now+buffer is stored"
            if gtc is None:
                nft_bad = nft_bad or "no comparison max(aligned, now+buffer)"
            elif gtc is True and not isA:
                nft_bad = nft_bad or "aligned time later but not stored"
        ctx.inst("R11.2", "premium-fraction-attr", pf_ok and attr_ok and n > 0, a.fn.where(),
                 "emitted premium_fraction %s (twap_vamm - twap_oracle) * funding_period / 86400" % ("is" if pf_ok and attr_ok else "is NOT"))
        ctx.inst("R11.2", "funding-rate", rate_ok and n > 0, a.fn.where(), "stored funding_rate %s premium_fraction * decimals / twap_oracle" % ("is" if rate_ok else "is NOT"))
        ctx.inst("R11.2", "next-funding-time", nft_bad is None and n > 0, a.fn.where(), nft_bad or "max(((now+period)/3600)*3600, now+buffer)")
        # buffer written only at instantiate as period/2
        fi = ix.entry(VAMM, "instantiate")
        okb = False
        if fi is not None:
            for p in ix.ok_paths(fi):
                for wr in ix.writes_on_path(p):
                    if wr["item"] == "margined_vamm:config" and wr["value"] is not None:
                        val = ix.inline(wr["value"])
                        b = N(ix, sym.field(val, "funding_buffer_period"))
                        per = N(ix, sym.field(val, "funding_period"))
                        okb = b == ("div", per, ("int", 2))
        upd_ok = True
        try:
            ua = arms.Arm(ix, VAMM, "UpdateConfig")
            for q in ua.ok_paths()[:64]:
                for wr in ua.writes(q):
                    if wr["item"] == "margined_vamm:config" and wr["value"] is not None:
                        val = ix.inline(wr["value"])
                        for fld in ("funding_buffer_period", "funding_period"):
                            if not vcfg(sym.field(val, fld), fld):
                                upd_ok = False
        except KeyError:
            upd_ok = False
        ctx.inst("R11.2", "buffer-half-period", okb and upd_ok, fi.where() if fi else "", "instantiate stores buffer = period/2: %s; UpdateConfig preserves period and buffer: %s" % (okb, upd_ok))

    # ---------------------------------------------------------------- R11.3
    st = em.reply_step("PayFunding>id8")
    if st is None:
        ctx.lost("R11.3", "PayFunding>id8 chain")
    else:
        ctx.analysed["functions"].add(st.fn.pretty)
        pf_param = None
        for pv, mapped in st.m.items():
            if tag(mapped) == "field" and payload(mapped)[0] == "0":
                pf_param = pv
        appends_bad = None
        pay_bad = None
        table = {}

        def payment_dispatch(e):
            # a helper that turns the signed funding payment into (at most) one message: takes an Integer, builds sub-messages
            t_ = e.target
            return model.constructs_submsg(ix, t_) and any(t_.locals[i + 1]["ty"].endswith("integer::Integer") for i in range(t_.arg_count))
        for q in splice(ix, st.ok_paths(), payment_dispatch):
            ws = [e for e in q.events if ("write", VMAP) in ix.event_effects(e)[0]]
            if len(ws) != 1:
                appends_bad = appends_bad or "%d calls writing the vAMM map on a success path" % len(ws)
            # payment tree
            pay = None
            stests = sign_tests(ix, q.conds)
            for (_k, x_, _o) in stests:
                pay = x_
            if pay is None:
                pay_bad = pay_bad or "no sign test of the funding payment"
                continue
            tps = hole("tps", lambda v: tag(ix.inline(v)) == "field" and payload(ix.inline(v))[0] == "total_position_size" and ix.parse_query(kids(ix.inline(v))[0]) is not None)
            PAY = ("idiv", ("imul", tps, hole("pf", lambda v: v == pf_param)), ("pos", em.cfg_leaf("decimals")))
            if match(PAY, N(ix, pay)) is None:
                pay_bad = pay_bad or "payment is %s, not total_position_size * premium_fraction / decimals" % norm.show(N(ix, pay))
            # direction table
            neg = pos = zero = None
            for (k_, x_, o) in stests:
                if x_ == pay:
                    if k_ == "is_negative":
                        neg = o
                    if k_ == "is_positive":
                        pos = o
                    if k_ == "is_zero":
                        zero = o
            kinds = set()
            for s in em.emitted(q):
                mv = ix.msg_variant(s.inner_msg()) if s.inner_msg() is not None else None
                if mv and mv[1] == "Withdraw":
                    amt = N(ix, mv[2]["amount"])
                    kinds.add("if-withdraw" if amt == ("mag", N(ix, pay)) or amt == N(ix, sym.field(pay, "value")) else "if-withdraw(WRONG AMOUNT %s)" % norm.show(amt))
                else:
                    from .c03 import transfers_of
                    for (kind, payer, recv, amount) in transfers_of(ix, s):
                        if em.cfg(recv, "insurance_fund"):
                            kinds.add("to-if")
                        else:
                            kinds.add("transfer-to-OTHER")
            # sign class of the payment on this path, however the tests are ordered (is_positive() is "not negative")
            if zero is True:
                cls = "zero"
            elif neg is True:
                cls = "negative" if zero is False else "negative-or-zero"
            elif pos is True or neg is False:
                cls = "positive" if zero is False else "positive-or-zero"
            elif pos is False:
                cls = "negative" if zero is False else "negative-or-zero"
            else:
                cls = "unknown"
            table[cls] = table.get(cls, set()) | kinds
        ctx.inst("R11.3", "append-once", appends_bad is None, st.fn.where(), appends_bad or "exactly one vAMM-map write per success path")
        ctx.inst("R11.3", "payment-formula", pay_bad is None, st.fn.where(), pay_bad or "total_position_size * premium_fraction / decimals")
        # expected: negative & nonzero -> if-withdraw only ; positive & nonzero -> to-if ; otherwise nothing
        tb_bad = None
        for cls, kinds in table.items():
            k2 = {k for k in kinds if k in ("if-withdraw", "to-if") or "WRONG" in k or "OTHER" in k}
            if cls == "negative":
                if k2 != {"if-withdraw"}:
                    tb_bad = tb_bad or "negative payment emits %s" % sorted(kinds)
            elif cls == "positive":
                if not k2 <= {"to-if"} or "to-if" not in k2:
                    tb_bad = tb_bad or "positive payment emits %s" % sorted(kinds)
            elif cls == "zero":
                if k2:
                    tb_bad = tb_bad or "zero payment emits %s" % sorted(kinds)
            else:
                if k2:
                    tb_bad = tb_bad or "a path whose payment sign is %s emits %s" % (cls, sorted(kinds))
        ctx.inst("R11.3", "direction-table", tb_bad is None and {"negative", "positive"} <= set(table), st.fn.where(),
                 tb_bad or "negative -> insurance Withdraw(|p|); positive -> transfer to insurance fund; zero -> nothing (%d sign classes)" % len(table))
        # cumulative = last + new inside the appender
        cum_bad = None
        seen_push = 0
        for q in st.ok_paths()[:1]:
            for wr in ix.writes_on_path(q):
                if wr["item"] == VMAP and wr["value"] is not None:
                    pass
        for f in w.crate_fns(ENG):
            if f.derived or "::_::" in f.pretty:
                continue
            try:
                oks = ix.ok_paths(f)
            except Exception:
                continue

            def is_new(v):
                # the fraction being appended: a parameter, or a closure's captured parameter
                return tag(v) == "param" or (tag(v) == "field" and tag(kids(v)[0]) == "param" and f.kind == "Closure" and payload(kids(v)[0])[1] == 0)

            def is_last(v):
                # list[len - 1] / list.last() of the stored list (not just any index)
                return is_last_of_list(ix, v, loaded=False)
            for p in oks:
                for e in p.events:
                    if e.name == "std::vec::Vec::push" and any("cumulative_premium_fractions" in sym.show(x, 6) for x in e.raw[:1] + e.args[:1]):
                        seen_push += 1
                        pushed = N(ix, e.args[1])
                        is_first = any((tag(c[0]) == "op" and payload(c[0])[0] == "len" and c[1] in (False, ("eq", "0"))) or
                                       (tag(c[0]) == "op" and payload(c[0])[0] == "is_some" and c[1] is False and is_last(kids(c[0])[0])) for c in p.conds)
                        if is_first:
                            if pushed[0] != "leaf" or not is_new(pushed[1]):
                                cum_bad = cum_bad or "first element pushed is %s" % norm.show(pushed)
                        else:
                            if pushed[0] != "iadd":
                                cum_bad = cum_bad or "appended element is %s, not new + last" % norm.show(pushed)
                            else:
                                args = pushed[1:]
                                has_param = any(x[0] == "leaf" and is_new(x[1]) for x in args)
                                has_last = any(x[0] == "leaf" and is_last(x[1]) for x in args)
                                if not (has_param and has_last):
                                    cum_bad = cum_bad or "appended element %s is not premium_fraction + last element" % norm.show(pushed)
        ctx.inst("R11.3", "cumulative-sum", cum_bad is None and seen_push >= 2, "", cum_bad or "%d push sites: first = new, otherwise new + last" % seen_push)

    # ---------------------------------------------------------------- R11.4
    pairing_instances(ctx, em, "R11.4")

    # ---------------------------------------------------------------- R11.5
    ctx.rule("R11.5", "a position that ends (removed, or reset to size 0 with a zeroed checkpoint) is settled through a remain-margin result, so its pending funding is charged", 3)
    from .c03 import transfers_of
    for (st, root, depth, ckey) in sorted(em.steps.values(), key=lambda x: (x[3], x[2])):
        bad = None
        n = 0
        for q in st.ok_paths():
            ends = bool(em.removed_position(st, q))
            for val in em.stored_position(st, q):
                if N(ix, sym.field(val, "size")) == ("pos", ("int", 0)) and N(ix, sym.field(val, "last_updated_premium_fraction")) == ("pos", ("int", 0)):
                    ends = True
            if not ends:
                continue
            n += 1
            rms = em.remain_margin_calls(q)
            used = False
            for e in rms:
                rv = e.result
                # the settlement must depend on the result: a transfer amount, the re-stored in-flight record or State
                for s_ in em.emitted(q):
                    for (_k, _payer, _recv, amount) in transfers_of(ix, s_):
                        if amount is not None and rv in set(sym.walk(amount)):
                            used = True
                for wr in ix.writes_on_path(q):
                    if wr["value"] is not None and wr["item"] in (TMP, STATE) and rv in set(sym.walk(wr["value"])):
                        used = True
                for e2 in q.events:
                    if e2 is not e and any(rv in set(sym.walk(a)) for a in e2.args) and e2.target is not None:
                        used = True
                # or the payout decisions are taken on it (margin vs fee, bad debt present)
                for (at, o, _b, _l) in q.conds:
                    if rv in set(sym.walk(at)) and not (tag(at) == "op" and payload(at)[0] == "is_ok"):
                        used = True
            if not used:
                bad = bad or q
        if n:
            ctx.inst("R11.5", "settled-on-end:%s:%s" % (short_fn(st.fn), st.label), bad is None, st.fn.where(),
                     "%d success paths end the position; %s" % (n, "each settles it through a remain-margin result (funding charged)" if bad is None else
                        "a path ends the position WITHOUT a remain-margin computation: funding accrued since the checkpoint is neither charged nor paid"))

    # ---- R11.5 (sign): what the reversal settles.  The old position's equity is margin - funding owed + pnl; the record
    # handed to the second leg carries its negative, and the pure-close branch pays its magnitude:
    #     X = (-margin + funding) - unrealized_pnl      with funding = (latest - checkpoint) * size / decimals
    st_r = em.reply_step("OpenPosition>id3")
    if st_r is None:
        ctx.lost("R11.5", "OpenPosition>id3 chain")
    else:
        from .c03 import transfers_of as _tof
        plr = lambda name: em.pos_field_leaf(name)
        FUND_R = ("idiv", ("imul", ("isub", anyhole("latest"), plr("last_updated_premium_fraction")), plr("size")), ("pos", em.cfg_leaf("decimals")))
        XPAT = ("isub", ("iadd", ("neg", plr("margin")), FUND_R), em.tmp_leaf("unrealized_pnl"))
        bad_r = None
        n_r = 0
        for q in st_r.ok_paths():
            cands = []
            for tv in em.stored_tmp(st_r, q):
                cands.append(N(ix, st_r.c(sym.field(tv, "margin_to_vault"))))
            for s_ in em.emitted(q):
                for (k_, payer_, recv_, amt_) in _tof(ix, s_):
                    if amt_ is not None and k_ in ("cw20-transfer", "bank-send"):
                        na = N(ix, st_r.c(amt_))
                        if na[0] == "mag":
                            cands.append(na[1])
            for x_ in cands:
                if x_ in (("pos", ("int", 0)), ("int", 0)):
                    continue
                n_r += 1
                # the funding term may still be the remain-margin result's field when that function is not expanded
                if match(XPAT, x_) is None:
                    alt = ("isub", ("iadd", ("neg", plr("margin")), hole("rm.funding_payment", lambda v: tag(ix.inline(v)) == "field" and payload(ix.inline(v))[0] == "funding_payment")), em.tmp_leaf("unrealized_pnl"))
                    if match(alt, x_) is None:
                        bad_r = bad_r or "the reversal settles %s" % norm.show(x_)[:220]
        ctx.inst("R11.5", "reversal-settlement-sign", bad_r is None and n_r > 0, st_r.fn.where(),
                 bad_r or "%d settlements: -(margin) + funding owed - pnl (funding owed lowers what the trader gets back)" % n_r)

    # ---------------------------------------------------------------- R11.8
    # the function every settlement goes through: funding = (latest cumulative fraction - checkpoint) * size / decimals,
    # latest = the cumulative fraction queried for the position's vAMM on EVERY path (a new position must start from it),
    # margin = max(0, margin_delta - funding + margin), bad_debt = the clamped remainder
    ctx.rule("R11.8", "remain-margin function: funding = (latest cumulative fraction - checkpoint) * size / decimals, latest queried on every path, margin / bad debt = clamped (margin_delta - funding + margin)", 1)
    # anchor: returns the remain-margin record AND can query (takes Deps) - pure post-processors of the record do not count
    rmf = [f for f in w.crate_fns(ENG) if "RemainMarginResponse" in f.locals[0]["ty"] and not f.derived and "::_::" not in f.pretty and f.kind != "Closure"
           and any("Deps" in f.locals[i + 1]["ty"] for i in range(f.arg_count))]
    if len(rmf) != 1:
        ctx.lost("R11.8", "the remain-margin function (found %d candidates)" % len(rmf))
    else:
        f = rmf[0]
        ctx.analysed["functions"].add(f.pretty)
        pos_p = [sym.param(f.key, i, f.param_name(i)) for i in range(f.arg_count) if "Position" in f.locals[i + 1]["ty"]]
        md_p = [sym.param(f.key, i, f.param_name(i)) for i in range(f.arg_count) if f.locals[i + 1]["ty"].endswith("Integer")]
        bad = None
        if len(pos_p) != 1 or len(md_p) != 1:
            bad = "unexpected parameters"
        else:
            P, MD = pos_p[0], md_p[0]

            def cum_query(v):
                """the cumulative premium fraction of the position's vAMM: the last element of the stored list (or zero)"""
                vi = ix.inline(v)
                if tag(vi) == "unwrap":
                    vi = ix.inline(kids(vi)[0])
                if is_last_of_list(ix, vi):
                    # the reader was a one-liner and has been inlined: last-or-zero of the list stored for position.vamm
                    pv_ = ix.inline(sym.field(P, "vamm"))
                    return pv_ in set(sym.walk(vi)) or sym.field(P, "vamm") in set(sym.walk(vi))
                if tag(vi) != "call":
                    return False
                t = ix.call_target(vi)
                if t is None:
                    return False
                args = [ix.inline(a) for a in kids(vi)]
                if not any(sym.field(P, "vamm") in set(sym.walk(a)) or a == ix.inline(sym.field(P, "vamm")) for a in args):
                    return False
                outs = ix.ok_paths(t)
                return bool(outs) and all(is_last_of_list(ix, sym.unwrap(p.ret)) or N(ix, sym.unwrap(p.ret)) == ("pos", ("int", 0)) for p in outs) \
                    and any(is_last_of_list(ix, sym.unwrap(p.ret)) for p in outs)
            latest = hole("latest", cum_query)
            pl = lambda name: hole("position." + name, lambda v, name=name: ix.inline(v) == ix.inline(sym.field(P, name)))
            FUND = ("idiv", ("imul", ("isub", latest, pl("last_updated_premium_fraction")), pl("size")), ("pos", em.cfg_leaf("decimals")))
            REM = ("iadd", ("isub", hole("margin_delta", lambda v: ix.inline(v) == MD), FUND), ("pos", pl("margin")))
            paths = ix.ok_paths(f)
            seen = set()
            for p in paths:
                r = sym.unwrap(p.ret)
                fp = N(ix, sym.field(r, "funding_payment"))
                mg = N(ix, sym.field(r, "margin"))
                bd = N(ix, sym.field(r, "bad_debt"))
                lt = sym.field(r, "latest_premium_fraction")
                if match(FUND, fp) is None:
                    bad = bad or "funding_payment = %s" % norm.show(fp)[:200]
                if not cum_query(lt):
                    bad = bad or "latest_premium_fraction = %s is not the queried cumulative fraction on a path" % sym.show(ix.inline(lt), 5)
                neg = None
                for (at, o, _b, _l) in p.conds:
                    if tag(at) in ("call", "op") and str(payload(at)[0]).split("::")[-1] == "is_negative" and match(REM, N(ix, kids(at)[0])) is not None:
                        neg = o
                if neg is True:
                    seen.add("neg")
                    if mg != ("int", 0) or match(("mag", REM), bd) is None:
                        bad = bad or "negative remainder: margin = %s, bad_debt = %s" % (norm.show(mg)[:80], norm.show(bd)[:120])
                elif neg is False:
                    seen.add("nonneg")
                    if match(("mag", REM), mg) is None or bd != ("int", 0):
                        bad = bad or "non-negative remainder: margin = %s, bad_debt = %s" % (norm.show(mg)[:120], norm.show(bd)[:80])
                else:
                    bad = bad or "a path does not branch on the sign of (margin_delta - funding + margin)"
            if bad is None and seen != {"neg", "nonneg"}:
                bad = "paths seen: %s" % sorted(seen)
        ctx.inst("R11.8", "remain-margin-tree:%s" % short_fn(f), bad is None, f.where(), bad or "funding, latest fraction, margin and bad debt have the required trees on both sign branches")
    funding_shortcut_instances(ctx, "R11.8")

    # ---------------------------------------------------------------- R11.7
    # a position stored with the margin of a remain-margin result has been charged at most its margin; what exceeds it is
    # that result's bad_debt, and a path that stores the margin and the advanced checkpoint must not drop it silently
    ctx.rule("R11.7", "wherever a remain-margin result's (clamped) margin is stored with the advanced checkpoint, that result's bad_debt is consumed on the path (tested, accounted or carried)", 3)
    for (st, root, depth, ckey) in sorted(em.steps.values(), key=lambda x: (x[3], x[2])):
        bad = None
        n = 0
        for q in st.ok_paths():
            rms = em.remain_margin_calls(q)
            for val in em.stored_position(st, q):
                m_ = ix.inline(sym.field(val, "margin"))
                for e in rms:
                    rv = ix.inline(sym.unwrap(e.result))
                    if m_ != st.c(sym.field(sym.unwrap(e.result), "margin")):
                        continue
                    n += 1
                    bdv = ix.inline(sym.field(rv, "bad_debt"))
                    bds = st.c(sym.field(sym.unwrap(e.result), "bad_debt"))
                    used = False
                    for (at, o, _b, _l) in q.conds:
                        ws = set(sym.walk(ix.inline(at)))
                        if bdv in ws or bds in ws:
                            used = True
                    for e2 in q.events:
                        if e2 is e:
                            continue
                        for a in e2.args:
                            ws = set(sym.walk(ix.inline(a)))
                            if bdv in ws or bds in ws:
                                used = True
                    for wr in st.writes(q):
                        if wr["value"] is not None:
                            ws = set(sym.walk(ix.inline(wr["value"])))
                            if bdv in ws or bds in ws:
                                used = True
                    if not used:
                        bad = bad or "stores remain-margin(..).margin and the new checkpoint but never looks at that result's bad_debt: funding (or loss) beyond the margin is forgiven while the checkpoint moves on"
        if n:
            ctx.inst("R11.7", "bad-debt-consumed:%s:%s" % (short_fn(st.fn), st.label), bad is None, st.fn.where(),
                     bad or "%d stores of a remain-margin margin, bad_debt consumed on each path" % n)

    # ---------------------------------------------------------------- R11.6
    # the funding settlement must not fail on a zero-amount token message: the vault-to-fund transfer is capped at the
    # vault balance, which can be zero
    from .nonzero import nonzero_instances
    nonzero_instances(ctx, em, "R11.6", "every token-moving message the funding reply can emit has an amount that is provably non-zero on the emitting path", 2,
                      lambda ckey: ckey.startswith("PayFunding>"), "a zero transfer is rejected and the whole funding settlement reverts (no cumulative fraction, no new funding time)")

    # ---------------------------------------------------------------- R11.9
    # "the transfer to the insurance fund is capped only by the vault balance": wherever a funding-chain function sends
    # either the requested amount X or the vault balance B, it sends the smaller one: B only under B <= X, X only under
    # X <= B (or min(B, X)).  Swapped branches would drain the vault / overdraw it.
    from .balance import is_balance_value
    from .nonzero import movers_of
    ctx.rule("R11.9", "a funding transfer that is capped at the vault balance sends min(balance, amount): the balance only when it is the smaller, the amount only when the balance covers it", 1)
    movers = movers_of(ctx)
    # the cap concerns what LEAVES the vault: the constructor of the insurance-fund Withdraw (money coming in) is not one
    for k_ in list(movers):
        try:
            sites_ = model.reachable_submsgs(ix, w.fns[k_], {})
        except Exception:
            sites_ = []
        for s_ in sites_:
            im_ = s_.inner_msg()
            mv_ = ix.msg_variant(im_) if im_ is not None else None
            if mv_ and mv_[1] == "Withdraw":
                movers.pop(k_, None)
    n9 = 0

    def le_facts(fs):
        """set of (smaller-or-equal, larger) normal-form pairs and strict pairs established by the path"""
        le = set()
        for (at, o) in fs:
            if tag(at) != "op" or o not in (True, False) or len(kids(at)) != 2:
                continue
            nm = payload(at)[0]
            l, r = N(ix, kids(at)[0]), N(ix, kids(at)[1])
            if (nm, o) in (("lt", True), ("le", True), ("gt", False), ("ge", False)):
                le.add((l, r))          # l < r, l <= r, !(l > r), !(l >= r)  =>  l <= r
            if (nm, o) in (("gt", True), ("ge", True), ("lt", False), ("le", False)):
                le.add((r, l))
        return le

    def capped(fn, m, inherited, depth, seen):
        nonlocal n9
        if fn.key in seen:
            return
        try:
            ps = ix.ok_paths_at(fn, m)
        except Exception:
            return
        # does this function send a balance value anywhere?
        sends = []
        for p in ps:
            fs = set(inherited) | guards._own_facts(ix, p, m)
            for e in p.events:
                if e.target is None:
                    continue
                args2 = tuple(sym.subst(a, m) for a in e.args) if m else tuple(e.args)
                if e.target.key in movers:
                    sends.append((p, fs, ix.inline(args2[movers[e.target.key]]), e))
                elif depth > 0 and model.constructs_submsg(ix, e.target):
                    capped(e.target, ix.param_map(e.target, args2), fs, depth - 1, seen | {fn.key})
        if not any(is_balance_value(ctx, a) or (tag(a) == "op" and payload(a)[0] == "min") for (_p, _fs, a, _e) in sends):
            return
        n9 += 1
        bad = None
        for (p, fs, a, e) in sends:
            if tag(a) == "op" and payload(a)[0] == "min" and any(is_balance_value(ctx, k) for k in kids(a)):
                continue
            le = le_facts(fs)
            na = N(ix, a)
            if is_balance_value(ctx, a):
                # B is sent: some X with B <= X must be known (the requested amount)
                if not any(l == na and r != na for (l, r) in le):
                    bad = bad or "the vault balance is sent on a path that does not establish balance <= requested amount"
            else:
                # X is sent: X <= B for a balance value B
                okx = False
                for (at, _o) in fs:
                    for k in (kids(at) if tag(at) == "op" else ()):
                        if is_balance_value(ctx, ix.inline(k)) and (na, N(ix, k)) in le:
                            okx = True
                if not okx:
                    bad = bad or "the requested amount %s is sent on a path that does not establish amount <= vault balance" % norm.show(na)[:80]
        ctx.inst("R11.9", "capped-at-balance:%s" % short_fn(fn), bad is None, fn.where(), bad or "%d sending paths: balance only when balance <= amount, amount only when amount <= balance" % len(sends))

    for ckey in sorted(em.chains):
        if ckey.startswith("PayFunding>"):
            st9 = em.chains[ckey][-1]
            capped(st9.fn, st9.m, (), 4, set())
    if n9 == 0:
        ctx.lost("R11.9", "the funding-chain function that sends the vault balance or the requested amount")
