"""C14 — Pause, closed markets and emergency shutdown stop trading."""
from .. import sym, guards, arms, model
from ..sym import tag, payload, kids
from .common import *

EXPLANATION = ("R14.1 pause guard on every success path of Open/Close/Deposit/Withdraw and pause flag not consulted by Liquidate/PayFunding; "
               "R14.2 vAMM open guard in SwapInput/SwapOutput/SettleFunding; R14.3 registered-and-open guard (insurance-fund registry "
               "membership of msg.vamm and that vAMM's open flag) in Open/Liquidate/Withdraw/PayFunding; R14.4 registry push guarded by "
               "duplicate and capacity (=3) tests on the same item the membership query reads; R14.5 shutdown only sends SetOpen{false} "
               "to vAMMs whose status was just read as open (or the callee is idempotent). R14.5 also: the registry is read whole (limit = capacity constant).")
NOT_DECIDED = ("ClosePosition on a closed vAMM fails through the vAMM's own open guard (R14.2) when the swap is dispatched; that "
               "cross-contract consequence is by R14.2 + C08, not re-derived here.")

ENG = "margined_engine"
VAMM = "margined_vamm"
IF = "margined_insurance_fund"


def mentions_field(alt, fieldname, pred=None):
    for (a, o) in alt:
        for x in sym.walk(a):
            if tag(x) == "field" and payload(x)[0] == fieldname:
                if pred is None or pred(x):
                    return True
    return False


def fact_field_is(ix, alt, fieldname, want, base_pred):
    """alt contains (v, want) with v == field(base, fieldname) and base_pred(base)"""
    for (a, o) in alt:
        if o is not want:
            continue
        ai = ix.inline(a)
        if tag(ai) == "field" and payload(ai)[0] == fieldname and base_pred(kids(ai)[0]):
            return True
        if tag(a) == "field" and payload(a)[0] == fieldname and base_pred(kids(a)[0]):
            return True
    return False


def query_pred(ix, msg_adt_suffix, variant, addr_pred, field_preds=None):
    def pred(base):
        q = ix.parse_query(base)
        if not q or q.get("msg") is None:
            return False
        mv = ix.msg_variant(q["msg"])
        if not mv:
            return False
        adt, var, flds = mv
        if not adt.endswith(msg_adt_suffix) or var != variant:
            return False
        if not addr_pred(ix.inline(q["addr"])):
            return False
        for fname, fp in (field_preds or {}).items():
            if fname not in flds or not fp(ix.inline(flds[fname])):
                return False
        return True
    return pred


def contains(v, needle):
    return needle in set(sym.walk(v))


def run(ctx):
    ix = ctx.ix
    w = ctx.world
    ctx.rule("R14.1", "pause guard (State.pause tested false) on every success path of Open/Close/Deposit/Withdraw; Liquidate and PayFunding never consult the flag", 6)
    ctx.rule("R14.2", "vAMM State.open tested true on every success path of SwapInput, SwapOutput and SettleFunding", 3)
    ctx.rule("R14.3", "registered (insurance fund IsVamm{msg.vamm} on config.insurance_fund) and open (that vAMM's State.open) on every success path of Open, Liquidate, Withdraw, PayFunding", 8)
    ctx.rule("R14.4", "registry: duplicate and capacity guards precede every store of the list; capacity constant is 3; membership query reads the same item", 4)
    ctx.rule("R14.5", "shutdown sends SetOpen{false} only to vAMMs just observed open, or the vAMM accepts a redundant close; a closed vAMM does not end the iteration; the registry is read whole", 3)

    # ---------------------------------------------------------------- R14.1
    def state_load(base):
        return guards.loaded_item(ix, base, ENG) == "margined_engine:state"
    for variant, must in (("OpenPosition", True), ("ClosePosition", True), ("DepositMargin", True), ("WithdrawMargin", True),
                          ("Liquidate", False), ("PayFunding", False)):
        try:
            a = arms.Arm(ix, ENG, variant)
        except KeyError as e:
            ctx.lost("R14.1", str(e))
            continue
        ctx.analysed["functions"].add(a.fn.pretty)
        alts = a.alternatives()
        ctx.note_paths(len(a.ok_paths()))
        if must:
            bad = [q for (q, alt) in alts if not fact_field_is(ix, alt, "pause", False, state_load)]
            ctx.inst("R14.1", "pause-guard:%s" % variant, not bad and bool(alts), a.fn.where(),
                     "%d alternatives over %d success paths; %s" % (len(alts), len(a.ok_paths()),
                        "State.pause == false established on all" if not bad else "a success path does not test State.pause: %s" %
                        "; ".join("%s=%s" % (sym.show(c[0], 4), c[1]) for c in bad[0].conds[:8])))
        else:
            # whole chain: the arm and its reply handlers
            chains = arms.engine_chains(ix, ENG)
            steps = {}
            for key, sts in chains.items():
                if key.split(">")[0] == variant:
                    for st in sts:
                        steps[(st.fn.key, st.label)] = st
            bad = None
            for st in steps.values():
                for (q, alt) in st.alternatives():
                    if mentions_field(alt, "pause", lambda x: state_load(kids(x)[0])):
                        bad = bad or st
            ctx.inst("R14.1", "pause-free:%s" % variant, bad is None and bool(steps), a.fn.where(),
                     "%d handler steps; %s" % (len(steps), "pause flag not consulted" if bad is None else "pause flag is tested in %s: liquidation / funding must stay available while paused" % bad.fn.pretty))

    # ---------------------------------------------------------------- R14.2
    def vstate_load(base):
        return guards.loaded_item(ix, base, VAMM) == "margined_vamm:state"
    for variant in ("SwapInput", "SwapOutput", "SettleFunding"):
        try:
            a = arms.Arm(ix, VAMM, variant)
        except KeyError as e:
            ctx.lost("R14.2", str(e))
            continue
        ctx.analysed["functions"].add(a.fn.pretty)
        alts = a.alternatives()
        bad = [q for (q, alt) in alts if not fact_field_is(ix, alt, "open", True, vstate_load)]
        ctx.inst("R14.2", "open-guard:%s" % variant, not bad and bool(alts), a.fn.where(),
                 "%d alternatives; %s" % (len(alts), "State.open == true established on all" if not bad else "a success path does not require the vAMM to be open"))

    # ---------------------------------------------------------------- R14.3
    def cfg_if(v):
        return guards.is_field_of_item(ix, v, ENG, "margined_engine:config", "insurance_fund")
    for variant in ("OpenPosition", "Liquidate", "WithdrawMargin", "PayFunding"):
        try:
            a = arms.Arm(ix, ENG, variant)
        except KeyError as e:
            ctx.lost("R14.3", str(e))
            continue
        vamm_v = a.msgfield("vamm")
        is_reg = query_pred(ix, "margined_insurance_fund::QueryMsg", "IsVamm", cfg_if, {"vamm": lambda v: contains(v, vamm_v)})
        is_open = query_pred(ix, "margined_vamm::QueryMsg", "State", lambda addr: contains(addr, vamm_v))
        alts = a.alternatives()
        bad_reg = [q for (q, alt) in alts if not fact_field_is(ix, alt, "is_vamm", True, is_reg)]
        bad_open = [q for (q, alt) in alts if not fact_field_is(ix, alt, "open", True, is_open)]
        ctx.inst("R14.3", "registered:%s" % variant, not bad_reg and bool(alts), a.fn.where(),
                 "%d alternatives; %s" % (len(alts), "IsVamm{msg.vamm} on config.insurance_fund answered true on all" if not bad_reg else
                                          "a success path does not check registration of msg.vamm with config.insurance_fund"))
        ctx.inst("R14.3", "open:%s" % variant, not bad_open and bool(alts), a.fn.where(),
                 "%d alternatives; %s" % (len(alts), "State{}.open of msg.vamm answered true on all" if not bad_open else
                                          "a success path does not check that msg.vamm is open"))

    # ---------------------------------------------------------------- R14.4
    LIST = "margined_insurance_fund:vamm-list"
    limit = w.consts_by_pretty.get("margined_insurance_fund::state::VAMM_LIMIT")
    ctx.inst("R14.4", "capacity-constant", bool(limit) and limit.get("int") == "3", "", "VAMM_LIMIT = %s" % (limit.get("int") if limit else "missing"))
    def is_list(v):
        """the registry as loaded from its item, or the empty list used when the item does not exist yet"""
        if tag(v) == "vec" and not kids(v):
            return True
        return guards.loaded_item(ix, v, IF) == LIST or any(guards.loaded_item(ix, x, IF) == LIST for x in sym.walk(v))
    try:
        a = arms.Arm(ix, IF, "AddVamm")
        alts = a.alternatives()
        bad = None
        n_store = 0
        for (q, alt) in alts:
            stores = [wr for wr in a.writes(q) if wr["item"] == LIST and wr["kind"] == "write"]
            if not stores:
                continue
            n_store += 1
            dup = cap = False
            for (at, o) in alt:
                ai = at
                if o is False and tag(ai) == "call" and payload(ai)[0].endswith("contains"):
                    lst = kids(ai)[0]
                    if is_list(lst):
                        dup = True
                if tag(ai) == "op" and payload(ai)[0] in ("ge", "gt", "lt", "le") and len(kids(ai)) == 2:
                    l, r = kids(ai)
                    opn = payload(ai)[0]
                    if tag(l) == "op" and payload(l)[0] == "len" and tag(r) == "int":
                        n = int(payload(r)[0])
                        # accepted: (len >= 3) false, (len > 2) false, (len < 3) true, (len <= 2) true
                        if (opn == "ge" and n == 3 and o is False) or (opn == "gt" and n == 2 and o is False) or \
                           (opn == "lt" and n == 3 and o is True) or (opn == "le" and n == 2 and o is True):
                            if is_list(kids(l)[0]):
                                cap = True
            if not dup:
                # a registry that did not exist yet: the list stored is the one-element list built from the empty one -
                # membership in the empty list is decided (never), there is nothing to test
                vals = [ix.inline(a.c(wr["value"])) for wr in stores if wr.get("value") is not None]
                absent = False
                for (at2, o2) in alt:
                    if tag(at2) == "op" and payload(at2)[0] in ("is_some", "is_none") and o2 is (payload(at2)[0] == "is_none") and \
                            any(tag(x) == "call" and str(payload(x)[0]).endswith("::may_load") and guards.admin_const(kids(x)[0]) is not None or
                                (tag(x) == "call" and str(payload(x)[0]).endswith("::may_load") and "VAMM_LIST" in sym.show(kids(x)[0], 2)) for x in sym.walk(at2)):
                        absent = True
                if absent and any(tag(v_) == "vec" and len(kids(v_)) == 1 for v_ in vals):
                    dup = True
            if not (dup and cap):
                bad = bad or (q, dup, cap)
        ctx.inst("R14.4", "push-guards:AddVamm", bad is None and n_store > 0, a.fn.where(),
                 "%d storing alternatives; %s" % (n_store, "duplicate test and len<3 test hold before every store" if bad is None else
                                                  "a storing path lacks %s" % ("the duplicate test" if not bad[1] else "the capacity test (len < 3)")))
    except KeyError as e:
        ctx.lost("R14.4", str(e))
    # membership query reads the same item
    try:
        qa = arms.Arm(ix, IF, "IsVamm", entry="query")
        reads = set()
        may, _must = ix.event_effects(qa.event)
        reads = {it for (k, it) in may if k == "read"}
        ctx.inst("R14.4", "membership-item:IsVamm", LIST in reads, qa.fn.where(), "IsVamm reads %s" % sorted(reads))
        qa2 = arms.Arm(ix, IF, "GetAllVamm", entry="query")
        may2, _ = ix.event_effects(qa2.event)
        ctx.inst("R14.4", "membership-item:GetAllVamm", LIST in {it for (k, it) in may2 if k == "read"}, qa2.fn.where(), "GetAllVamm reads the registry item")
    except KeyError as e:
        ctx.lost("R14.4", str(e))

    # membership answer: `contains(registry, asked address)` when the registry exists, false when it does not
    try:
        qa_m = arms.Arm(ix, IF, "IsVamm", entry="query")
        asked = qa_m.msgfield("vamm")
        badm = None
        n_m = 0
        for q in qa_m.ok_paths():
            r_ = ix.inline(qa_m.s(sym.unwrap(q.ret)))
            ans = ix.inline(sym.field(r_, "is_vamm"))
            outs = ix.outcomes(ans) if tag(ans) == "call" and ix.call_target(ans) is not None else [(q, ans, {})]
            for (p_, ret_, m_) in outs:
                n_m += 1
                rv = ix.inline(ret_)
                exists = None
                for (at, o, _b, _l) in p_.conds:
                    a2 = ix.inline(sym.subst(at, m_)) if m_ else ix.inline(at)
                    if tag(a2) == "op" and payload(a2)[0] == "is_some" and o in (True, False) and guards.loaded_item(ix, kids(a2)[0], IF) == LIST:
                        exists = o
                # `registry_opt.map(|r| r.contains(&x)).unwrap_or(false)`: the same answer in combinator form
                if tag(rv) == "call" and str(payload(rv)[0]).split("::")[-1] == "unwrap_or" and len(kids(rv)) == 2 and \
                        tag(ix.inline(kids(rv)[1])) == "bool" and not payload(ix.inline(kids(rv)[1]))[0]:
                    inner = ix.inline(kids(rv)[0])
                    if tag(inner) == "call" and str(payload(inner)[0]).split("::")[-1] == "map" and len(kids(inner)) == 2 and tag(kids(inner)[1]) == "closure":
                        opt, clo = kids(inner)
                        cf = w.fn_named(payload(clo)[0])
                        cps = [p2 for p2 in ix.ok_paths(cf)] if cf is not None else []
                        if len(cps) == 1 and cf.arg_count == 2:
                            mm = {sym.param(cf.key, 0, cf.param_name(0)): clo, sym.param(cf.key, 1, cf.param_name(1)): sym.unwrap(opt)}
                            rv = ix.inline(sym.subst(cps[0].ret, mm))
                            exists = True
                if tag(rv) == "bool":
                    if bool(payload(rv)[0]) or exists is not False:
                        badm = badm or "the membership answer is the constant %s %s" % (bool(payload(rv)[0]), "when no registry is stored" if exists is False else "")
                elif tag(rv) == "call" and str(payload(rv)[0]).endswith("contains") and len(kids(rv)) == 2:
                    if not is_list(ix.inline(kids(rv)[0])) or asked not in set(sym.walk(ix.inline(kids(rv)[1]))):
                        badm = badm or "the membership test is %s" % sym.show(rv, 4)[:160]
                else:
                    badm = badm or "the membership answer is %s" % sym.show(rv, 4)[:160]
        ctx.inst("R14.4", "membership-answer:IsVamm", badm is None and n_m > 0, qa_m.fn.where(),
                 badm or "%d outcomes: registry.contains(msg.vamm), false when no registry is stored" % n_m)
    except KeyError as e:
        ctx.lost("R14.4", str(e))

    # ---------------------------------------------------------------- R14.5
    try:
        a = arms.Arm(ix, IF, "ShutdownVamms")
        # (b) is the vAMM's SetOpen idempotent for a redundant close?
        so = arms.Arm(ix, VAMM, "SetOpen")
        redundant_rejected = False
        for p in ix.paths(so.fn):
            if p.kind() != "err":
                continue
            for (at, o, _b, _l) in p.conds:
                if o is True and tag(at) == "op" and payload(at)[0] == "eq":
                    x, y = kids(at)
                    for u, v in ((x, y), (y, x)):
                        ui = ix.inline(u)
                        if tag(ui) == "field" and payload(ui)[0] == "open" and tag(v) == "param":
                            redundant_rejected = True
        sites = 0
        wrong_flag = False   # the message sent is SetOpen{open: false}
        bad = None
        # a helper the iteration was moved into (returns the messages) is opened, so that the open-filter is seen
        # where it is written

        def builds_msgs(e):
            rt = e.target.locals[0]["ty"]
            # the helper that assembles the message list - and, when the list is built by an iterator adaptor, the
            # closure that decides per registry entry (its decisions are the loop body's)
            return "SubMsg" in rt and (rt.count("Vec<") >= 1 or e.target.kind == "Closure")
        shut_paths = splice(ix, a.ok_paths(), builds_msgs)
        for q in shut_paths:
            for s in model.path_submsgs(ix, q):
                im = s.inner_msg()
                mv = ix.msg_variant(im) if im is not None else None
                if not mv or mv[1] != "SetOpen":
                    continue
                sites += 1
                ov = ix.inline(mv[2].get("open")) if mv[2].get("open") is not None else None
                if not (ov is not None and tag(ov) == "bool" and not payload(ov)[0]):
                    wrong_flag = True
                k, inner = s.wasm_msg()
                target = ix.inline(sym.field(inner, "contract_addr"))
                # the filter: a fact (State.open of <target>, True) on this path
                alts = guards.facts_dnf(ix, q)
                for alt in alts:
                    def same_target(addr, target=target):
                        ai = ix.inline(addr)
                        return ai == target or bool(set(sym.walk(ai)) & {x for x in sym.walk(target) if tag(x) == "call"})
                    is_open = query_pred(ix, "margined_vamm::QueryMsg", "State", same_target)
                    if not fact_field_is(ix, alt, "open", True, is_open):
                        bad = bad or q
        # every registered vAMM is visited: observing a closed vAMM must not end the iteration
        stops = None
        for q in shut_paths:
            seen_closed_at = None
            for i, (kind, x) in enumerate(q.items):
                if kind == "c" and x[1] is False:
                    xi = ix.inline(x[0])
                    if tag(xi) == "field" and payload(xi)[0] == "open" and ix.parse_query(kids(xi)[0]):
                        seen_closed_at = i
                if kind == "c" and x[1] is False and tag(x[0]) == "unwrap" and tag(kids(x[0])[0]) == "call":
                    tgt = ix.call_target(kids(x[0])[0])
                    if tgt is not None:
                        xi = ix.inline(x[0])
                        if tag(xi) == "field" and payload(xi)[0] == "open":
                            seen_closed_at = i
            if seen_closed_at is not None:
                later_next = any(kind == "e" and x.name == "std::iter::Iterator::next" for (kind, x) in q.items[seen_closed_at + 1:])
                if not later_next:
                    stops = q
        # the registry is read whole: a limit handed to the reader is the capacity constant itself (or not smaller)
        lim_c = w.consts_by_pretty.get("margined_insurance_fund::state::VAMM_LIMIT")
        cap = None
        if lim_c is not None:
            import re as _re
            mm = _re.search(r"(\d+)", lim_c.get("val", ""))
            cap = int(mm.group(1)) if mm else None
        short_read = None
        n_reads = 0
        for q in a.ok_paths():
            for e in q.events:
                if e.target is None or ("read", LIST) not in ix.event_effects(e)[0]:
                    continue
                n_reads += 1
                for i, arg in enumerate(e.args):
                    if i < e.target.arg_count and e.target.locals[i + 1]["ty"] in ("usize", "u32", "u64"):
                        v = ix.inline(a.s(arg))
                        okv = (tag(v) == "constdef" and payload(v)[0].endswith("::VAMM_LIMIT")) or \
                              (tag(v) == "int" and cap is not None and int(payload(v)[0]) >= cap)
                        if not okv:
                            short_read = short_read or sym.show(v, 4)
        ctx.inst("R14.5", "shutdown-reads-whole-registry:%s" % short_fn(a.fn), short_read is None and n_reads > 0, a.fn.where(),
                 ("the registry is read with limit %s (capacity %s): vAMMs beyond it are never closed" % (short_read, cap)) if short_read else
                 "%d registry reads on the success paths, none truncated below the capacity" % n_reads)
        ctx.inst("R14.5", "shutdown-visits-all:%s" % short_fn(a.fn), stops is None, a.fn.where(),
                 "after observing a closed vAMM the loop %s" % ("advances to the next registry entry" if stops is None else
                 "EXITS: vAMMs registered after an already-closed one are never closed"))
        ok = sites > 0 and (bad is None or not redundant_rejected) and not wrong_flag
        ctx.inst("R14.5", "shutdown-robust:%s" % short_fn(a.fn), ok, a.fn.where(),
                 "%d SetOpen{false} emission(s) on the (bounded) success paths; vAMM rejects a redundant close: %s; %s" % (
                     sites, redundant_rejected, "the shutdown sends SetOpen with open != false: it does not close the vAMM" if wrong_flag else
                     ("each emission is preceded by State.open==true of the same vAMM" if bad is None else
                      "an emission is NOT conditioned on the vAMM being open: one already-closed vAMM aborts the whole shutdown")))
    except KeyError as e:
        ctx.lost("R14.5", str(e))


    # ---------------------------------------------------------------- R14.6
    # the emergency shutdown is sent by the insurance fund, which is not the vAMM's owner: the vAMM's SetOpen must have
    # a success path for a sender that is its configured insurance fund and NOT its owner (an `&&` where the role test
    # needs `||` would demand both roles at once and every shutdown would be refused)
    ctx.rule("R14.6", "the vAMM accepts SetOpen from its configured insurance fund alone (a success alternative with owner test false and sender == config.insurance_fund); the fund's owner alone may trigger ShutdownVamms", 2)
    fund_alone_instance(ctx, "R14.6")

    # the owner alone can trigger the shutdown (the tabled role is owner OR the fund itself - not both at once)
    try:
        sh6 = arms.Arm(ix, IF, "ShutdownVamms")
        found_o = False
        n_alt = 0
        self_addr = sh6.self_addr
        for (q, alt) in sh6.alternatives():
            n_alt += 1
            admin_true = any(o is True and (("is_admin" in sym.show(at, 3)) or ("assert_admin" in sym.show(at, 3)) or tag(at) == "happened") for (at, o) in alt)
            self_required = False
            for (at, o) in alt:
                a2, o2 = at, o
                while tag(a2) == "op" and payload(a2)[0] == "not" and o2 in (True, False):
                    a2, o2 = kids(a2)[0], (not o2)
                if tag(a2) == "op" and payload(a2)[0] in ("eq", "ne") and len(kids(a2)) == 2:
                    is_eq = (payload(a2)[0] == "eq") == bool(o2)
                    ks = [ix.inline(k) for k in kids(a2)]
                    if is_eq and sh6.sender in ks and self_addr in ks:
                        self_required = True
            if admin_true and not self_required:
                found_o = True
        ctx.inst("R14.6", "owner-alone-may-shut-down:ShutdownVamms", found_o, sh6.fn.where(),
                 "%d success alternatives; %s" % (n_alt, "one of them needs the owner test only" if found_o else
                    "NONE succeeds for the owner unless the sender is also the fund itself: nobody can trigger the shutdown"))
    except KeyError as e:
        ctx.lost("R14.6", str(e))


def fund_alone_instance(ctx, rule):
    """the vAMM's SetOpen has a success alternative for a sender that is its configured insurance fund and NOT its owner,
    and that alternative does not depend on the requested value: the fund may close AND re-open (shared by C14 / C09)"""
    ix = ctx.ix
    try:
        so6 = arms.Arm(ix, VAMM, "SetOpen")
        found = False
        n_alt = 0
        unpinned = False
        pins = set()
        for (q, alt) in so6.alternatives():
            n_alt += 1
            admin_false = any(o is False and (("is_admin" in sym.show(at, 3)) or ("assert_admin" in sym.show(at, 3))) for (at, o) in alt)
            fund_true = False
            pin = set()
            for (at, o) in alt:
                a2, o2 = at, o
                while tag(a2) == "op" and payload(a2)[0] == "not" and o2 in (True, False):
                    a2, o2 = kids(a2)[0], (not o2)
                if tag(a2) == "op" and payload(a2)[0] in ("eq", "ne") and len(kids(a2)) == 2:
                    is_eq = (payload(a2)[0] == "eq") == bool(o2)
                    ks = [ix.inline(k) for k in kids(a2)]
                    if is_eq and so6.sender in ks and any(guards.is_field_of_item(ix, k, VAMM, "margined_vamm:config", "insurance_fund") for k in ks):
                        fund_true = True
                a3 = ix.inline(a2)
                if o2 in (True, False) and ((tag(a3) == "param" and payload(a3)[2] == "open") or (tag(a3) == "field" and payload(a3)[0] == "open" and tag(kids(a3)[0]) in ("param", "as", "field") and "state" not in sym.show(a3, 4))):
                    pin.add(bool(o2))   # the alternative branches on the requested value itself
            if admin_false and fund_true:
                found = True
                if pin:
                    pins |= pin
                else:
                    unpinned = True
        both = unpinned or pins == {True, False}
        ctx.inst(rule, "fund-alone-may-close:SetOpen", found and both, so6.fn.where(),
                 "%d success alternatives; %s" % (n_alt, "one of them has the owner test false and info.sender == config.insurance_fund, whatever value is requested" if found and both else
                    ("the fund alone succeeds only for open == %s: the role holder is refused the other transition" % sorted(pins) if found else
                    "NONE succeeds for a sender that is the insurance fund but not the owner: ShutdownVamms would always be refused")))
    except KeyError as e:
        ctx.lost(rule, str(e))
