"""C01 — vAMM curve conservation: trades never take value out of the curve."""
from .. import sym, guards, arms, model, norm
from ..sym import tag, payload, kids
from ..norm import N, match, hole, anyhole
from .common import *

EXPLANATION = ("R01.1 single writer: State.quote_asset_reserve / base_asset_reserve / total_position_size change only in code reached "
               "from SwapInput/SwapOutput (and instantiate); SetOpen and SettleFunding store them as loaded; R01.2 paired update in the "
               "reserve writer: base' = base -/+ b and total_position_size' = tps +/- Integer(b) with the same b, quote' = quote +/- q "
               "with the opposite sign of base; R01.4 rounding direction of both pricing functions: k = floor(q*b/D), side' = side +/- "
               "amount, other' = k*D/side', result = |other' - other| adjusted by -1 (AddToAmm) / +1 (RemoveFromAmm) exactly when the "
               "remainder of (k*D) by side' is non-zero, the remainder being computed from the same k and side'; R01.5 both initial "
               "reserves are validated to be >= one whole unit before the first State store.")
NOT_DECIDED = ("the inequality floor(q'b'/D) >= floor(qb/D) itself: it follows from R01.2 + R01.4 by arithmetic "
               "(side' * ceil(k*D/side') >= k*D); that lemma is stated, not machine-checked. Overflow behaviour is not analysed.")

VAMM = "margined_vamm"
ST = "margined_vamm:state"


def run(ctx):
    ix = ctx.ix
    w = ctx.world
    ctx.rule("R01.1", "reserves and net position are written only by the swap arms", 4)
    ctx.rule("R01.2", "paired update of base reserve and total position size (same operand), quote with the opposite sign", 2)
    ctx.rule("R01.4", "rounding direction and remainder operands of both pricing functions", 4)
    ctx.rule("R01.5", "initial reserves validated (>= one whole unit) before the first State store", 2)

    def sfield(v, f):
        return guards.is_field_of_item(ix, v, VAMM, ST, f)
    FIELDS = ("quote_asset_reserve", "base_asset_reserve", "total_position_size")
    # ---------------------------------------------------------------- R01.1
    t = ix.arms(VAMM, "execute")
    if t is None:
        ctx.lost("R01.1", "margined_vamm::contract::execute")
        return
    for variant in sorted(v for v in t[2] if v != "<none>"):
        a = arms.Arm(ix, VAMM, variant)
        changed = set()
        n = 0
        for q in a.ok_paths():
            for wr in ix.writes_on_path(q):
                if wr["item"] == ST and wr["kind"] == "write" and wr["value"] is not None:
                    n += 1
                    val = ix.inline(wr["value"])
                    for f in FIELDS:
                        if not sfield(sym.field(val, f), f):
                            changed.add(f)
        is_swap = variant in ("SwapInput", "SwapOutput")
        if n == 0 and not is_swap:
            continue
        ok = (changed == set(FIELDS)) if is_swap else (not changed)
        ctx.inst("R01.1", "state-writer:%s" % variant, ok, a.fn.where(),
                 "%d State stores; curve fields changed: %s (%s)" % (n, sorted(changed) or "none", "swap arm must update all three" if is_swap else "non-swap arm must store them as loaded"))

    # ---------------------------------------------------------------- R01.2 (the reserve writer, anchored by behaviour)
    writers = []
    for f in w.crate_fns(VAMM):
        if f.derived or "::_::" in f.pretty or f.kind == "Closure":
            continue
        try:
            oks = ix.ok_paths(f)
        except Exception:
            continue
        for p in oks:
            for e in p.events:
                pw = ix.prim_write(e)
    for f in w.crate_fns(VAMM):
        if f.derived or "::_::" in f.pretty or f.kind == "Closure":
            continue
        try:
            oks = ix.ok_paths(f)
        except Exception:
            continue
        hit = False
        for p in oks:
            for wr in ix.writes_on_path(p):
                if wr["item"] == ST and wr["value"] is not None and len(wr["chain"]) <= 1:
                    val = ix.inline(wr["value"])
                    if any(not sfield(sym.field(val, fl), fl) for fl in FIELDS) and not f.pretty.endswith("contract::instantiate"):
                        hit = True
        if hit and "Direction" in " ".join(f.locals[i + 1]["ty"] for i in range(f.arg_count)):
            writers.append(f)
    if not writers:
        ctx.lost("R01.2", "vAMM reserve writer (stores State with changed reserves, takes a Direction)")
    for f in writers:
        ctx.analysed["functions"].add(f.pretty)
        dparam = [sym.param(f.key, i, f.param_name(i)) for i in range(f.arg_count) if f.locals[i + 1]["ty"].endswith("Direction")][0]
        uparams = [sym.param(f.key, i, f.param_name(i)) for i in range(f.arg_count) if f.locals[i + 1]["ty"].endswith("Uint128")]
        table = {}

        def mutates_state(e):
            # the update may have been moved into a helper / method that takes the State by `&mut`
            t_ = e.target
            return any(t_.locals[i + 1]["ty"].startswith("&mut ") and "State" in t_.locals[i + 1]["ty"] for i in range(t_.arg_count))
        for p in splice(ix, ix.ok_paths(f), mutates_state):
            d = None
            for (at, o, _b, _l) in p.conds:
                if tag(at) == "op" and payload(at)[0] == "discr" and ix.inline(kids(at)[0]) == dparam and isinstance(o, tuple) and o[0] == "variant":
                    d = o[1]
            for wr in ix.writes_on_path(p):
                if wr["item"] == ST and wr["value"] is not None:
                    val = ix.inline(wr["value"])
                    table[d] = tuple(N(ix, sym.field(val, fl)) for fl in FIELDS)
        bad = None
        for d, (qn, bn, tn) in table.items():
            qh = hole("quote", lambda v: sfield(v, "quote_asset_reserve"))
            bh = hole("base", lambda v: sfield(v, "base_asset_reserve"))
            th = hole("tps", lambda v: sfield(v, "total_position_size"))
            qa = hole("q_amt", lambda v: v in uparams)
            ba = hole("b_amt", lambda v: v in uparams)
            if d == "AddToAmm":
                m1 = match(("add", qh, qa), qn)
                m2 = match(("sub", bh, ba), bn)
                m3 = match(("iadd", th, ("pos", ba)), tn)
            elif d == "RemoveFromAmm":
                m1 = match(("sub", qh, qa), qn)
                m2 = match(("add", bh, ba), bn)
                m3 = match(("isub", th, ("pos", ba)), tn)
            else:
                bad = bad or "direction %s" % d
                continue
            if not (m1 and m2 and m3):
                bad = bad or "%s: quote'=%s base'=%s tps'=%s" % (d, norm.show(qn), norm.show(bn), norm.show(tn))
            elif m2["b_amt"] != m3["b_amt"] or m1["q_amt"] == m2["b_amt"]:
                bad = bad or "%s: base reserve and net position move by different operands" % d
        ctx.inst("R01.2", "paired-update:%s" % short_fn(f), bad is None and set(table) == {"AddToAmm", "RemoveFromAmm"}, f.where(),
                 bad or "AddToAmm: q+=x, b-=y, tps+=y; RemoveFromAmm: q-=x, b+=y, tps-=y (same y)")
    ctx.inst("R01.2", "single-reserve-writer", len(writers) == 1, "", "reserve writers: %s" % [x.pretty for x in writers])

    # ---------------------------------------------------------------- R01.4 pricing functions
    pricing = {}
    for variant in ("SwapInput", "SwapOutput"):
        a = arms.Arm(ix, VAMM, variant)
        for q in a.ok_paths():
            for e in q.events:
                if e.target is not None and any(sfield(x, "quote_asset_reserve") for x in e.args) and any(sfield(x, "base_asset_reserve") for x in e.args):
                    pricing[variant] = e.target
    for variant, f in sorted(pricing.items()):
        ctx.analysed["functions"].add(f.pretty)
        params = {f.param_name(i): sym.param(f.key, i, f.param_name(i)) for i in range(f.arg_count)}
        dparam = [sym.param(f.key, i, f.param_name(i)) for i in range(f.arg_count) if "Direction" in f.locals[i + 1]["ty"]][0]
        us = [sym.param(f.key, i, f.param_name(i)) for i in range(f.arg_count) if f.locals[i + 1]["ty"].endswith("Uint128")]
        if len(us) != 3:
            ctx.undetermined("R01.4", "pricing:%s" % variant, "expected (amount, quote_reserve, base_reserve)")
            continue
        amount, qres, bres = us
        own, other = (qres, bres) if variant == "SwapInput" else (bres, qres)

        def vcfg(v):
            return guards.is_field_of_item(ix, v, VAMM, "margined_vamm:config", "decimals")
        D = hole("D", vcfg)
        K = ("div", ("mul", ("leaf", qres), ("leaf", bres)), D)
        bad = None
        classes = set()
        # the pricing function may be split into helpers (invariant, shifted reserve, rounded difference): open them all
        for p in splice(ix, ix.ok_paths(f), lambda e: e.target.crate == VAMM and "integer::Integer" not in e.target.pretty, rounds=6):
            d = None
            rem_nz = None
            grew = None
            rem_tree = None
            for (at, o, _b, _l) in p.conds:
                at = ix.inline(at)
                if tag(at) == "op" and payload(at)[0] == "discr" and kids(at)[0] == dparam and isinstance(o, tuple) and o[0] == "variant":
                    d = o[1]
                if tag(at) == "op" and payload(at)[0] == "is_zero" and o in (True, False) and kids(at)[0] != amount:
                    # `rem.is_zero()` spells `rem == 0`
                    rem_nz = (o is False)
                    rem_tree = N(ix, kids(at)[0])
                if tag(at) == "op" and payload(at)[0] == "eq" and any(tag(k) == "agg" for k in kids(at)) and dparam in kids(at):
                    v_ = [k for k in kids(at) if tag(k) == "agg"][0]
                    d2 = payload(v_)[1] if o is True else ("RemoveFromAmm" if payload(v_)[1] == "AddToAmm" else "AddToAmm")
                    d = d or d2
                if tag(at) == "op" and payload(at)[0] in ("eq", "ne") and any(tag(k) == "int" and payload(k)[0] == "0" for k in kids(at)):
                    x = [k for k in kids(at) if not (tag(k) == "int" and payload(k)[0] == "0")]
                    if x and x[0] not in (amount,):
                        isne = (payload(at)[0] == "ne") == (o is True)
                        rem_nz = isne
                        rem_tree = N(ix, x[0])
                if tag(at) == "op" and payload(at)[0] == "gt" and len(kids(at)) == 2 and kids(at)[1] == other:
                    grew = o
            r = N(ix, sym.unwrap(p.ret))
            # is the requested amount known to be zero / non-zero on this path?
            amt_zero = None
            for (at, o, _b, _l) in p.conds:
                at_ = ix.inline(at)
                if tag(at_) == "op" and payload(at_)[0] == "is_zero" and kids(at_)[0] == amount and o in (True, False):
                    amt_zero = o
                if tag(at_) == "op" and payload(at_)[0] in ("eq", "ne") and amount in kids(at_) and o in (True, False) and \
                        any(tag(k) == "int" and payload(k)[0] == "0" for k in kids(at_)):
                    amt_zero = (payload(at_)[0] == "eq") == o
            if r == ("int", 0):
                # the zero-amount shortcut: nothing is exchanged for nothing - and only for nothing
                if amt_zero is not True:
                    bad = bad or "a path answers 0 although the requested amount is not established to be zero"
                continue
            if amt_zero is True:
                bad = bad or "the priced result is computed only when the requested amount IS zero"
                continue
            if rem_nz is False and d is None:
                # no correction on this path: the result does not depend on the direction beyond side'; take the direction
                # that makes side' match (an early return before the direction is looked at)
                for d_try in ("AddToAmm", "RemoveFromAmm"):
                    s2 = ("add", ("leaf", own), ("leaf", amount)) if d_try == "AddToAmm" else ("sub", ("leaf", own), ("leaf", amount))
                    if match(("absdiff", ("div", ("mul", K, D), s2), ("leaf", other)), r) is not None:
                        d = d_try
            if d is None or rem_nz is None:
                bad = bad or "a non-zero path lacks the direction / remainder decision (d=%s rem=%s grew=%s)" % (d, rem_nz, grew)
                continue
            side2 = ("add", ("leaf", own), ("leaf", amount)) if d == "AddToAmm" else ("sub", ("leaf", own), ("leaf", amount))
            AFTER = ("div", ("mul", K, D), side2)
            if grew is None:
                diff = ("absdiff", AFTER, ("leaf", other))   # |after - other| spelled with abs_diff: no growth branch
            else:
                diff = ("sub", AFTER, ("leaf", other)) if grew else ("sub", ("leaf", other), AFTER)
            if rem_nz:
                want = ("sub", diff, ("int", 1)) if d == "AddToAmm" else ("add", diff, ("int", 1))
            else:
                want = diff
            if match(want, r) is None:
                bad = bad or "%s, remainder %s: returns %s" % (d, "non-zero" if rem_nz else "zero", norm.show(r))
            # remainder = k*D - side' * ((k*D)/side')
            KD = ("mul", K, D)
            REM = ("sub", KD, ("mul", side2, ("div", KD, side2)))
            REM2 = ("rem", KD, side2)  # the same remainder written with the remainder operator
            if match(REM, rem_tree) is None and match(REM2, rem_tree) is None:
                bad = bad or "%s: the remainder tested is %s, not (k*D) mod side' with the same k and side'" % (d, norm.show(rem_tree))
            classes.add((d, rem_nz))
        need = {("AddToAmm", True), ("AddToAmm", False), ("RemoveFromAmm", True), ("RemoveFromAmm", False)}
        ctx.inst("R01.4", "rounding:%s:%s" % (variant, short_fn(f)), bad is None and need <= classes, f.where(),
                 bad or "|k*D/side' - other| with -1 (AddToAmm) / +1 (RemoveFromAmm) iff (k*D) mod side' != 0; classes %s" % sorted(classes))
        ctx.inst("R01.4", "remainder-operands:%s" % variant, bad is None or "remainder tested" not in (bad or ""), f.where(),
                 "remainder computed from the same invariant k and post-swap side'" if not (bad and "remainder tested" in bad) else bad)

    # ---------------------------------------------------------------- R01.5
    fi = ix.entry(VAMM, "instantiate")
    if fi is None:
        ctx.lost("R01.5", "margined_vamm::contract::instantiate")
        return
    ep = arms.entry_params(fi)
    for fld in ("base_asset_reserve", "quote_asset_reserve"):
        bad = None
        n = 0
        for p in ix.ok_paths(fi):
            stored = None
            for wr in ix.writes_on_path(p):
                if wr["item"] == ST and wr["value"] is not None:
                    stored = ix.inline(sym.field(ix.inline(wr["value"]), fld))
            if stored is None:
                bad = bad or "no State store"
                continue
            n += 1

            def pv(facts, stored=stored):
                for (at, o) in facts:
                    if tag(at) == "op" and payload(at)[0] in ("lt", "ge") and len(kids(at)) == 2:
                        l, r = kids(at)
                        if l == stored and ((payload(at)[0] == "lt" and o is False) or (payload(at)[0] == "ge" and o is True)):
                            return True
                return False
            if not guards.path_satisfies(ix, p, pv, None):
                bad = bad or "stored %s is not validated against the decimals unit" % fld
        ctx.inst("R01.5", "initial-%s" % fld, bad is None and n > 0, fi.where(), bad or "msg.%s >= decimals established before the State store" % fld)
