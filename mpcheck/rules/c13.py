"""C13 — Outcomes do not depend on whether collateral is native or cw20."""
from .. import sym, guards, arms, model, norm
from ..sym import tag, payload, kids
from ..norm import N, match, hole, anyhole
from .common import *
from .em import *

EXPLANATION = ("A relation between two runs is not statically decidable; decided is the sibling-arm clause it rests on. R13.1 every "
               "function that branches on the collateral kind and constructs transfers builds the same (receiver, amount) pairs in its "
               "native and cw20 arms (engine transfer constructors, insurance-fund withdraw, fee-pool transfer, Asset::into_msg); "
               "R13.1b in the trade replies the native arm raises SentFunds.required by exactly the multiset of amounts the cw20 arm "
               "pulls from the trader on the path with the same other conditions; R13.2 native terminal paths of those replies pass the "
               "exact-match check on the updated record, the check accepts equality only, SentFunds is created only by OpenPosition "
               "with required = 0 and re-stored unchanged-asset by the reversal."
               " R13.6 every fee message of an Open/Close chain has a non-zero amount by a path fact; R13.5 (second kind) no step makes balance-sized payouts on paths that all forward attached fee coins in the same response."
               " R13.7 the top-up sizing is payout - (balance + the figure handed over), nothing collateral-kind dependent.")
NOT_DECIDED = "equality of the two runs' outcomes as such (a 2-run relation); bank vs cw20 failure modes (allowance, balance)."


def kind_outcome(at, o):
    """'NativeToken' | 'Token' | None for one branch decision"""
    if tag(at) == "op" and payload(at)[0] == "discr" and isinstance(o, tuple):
        if o[0] == "variant" and o[1] in ("NativeToken", "Token"):
            return o[1]
        if o[0] == "other" and tuple(o[1]) == ("NativeToken",):
            return "Token"
        if o[0] == "other" and tuple(o[1]) == ("Token",):
            return "NativeToken"
    return None


def kind_of_path(ix, p):
    """'NativeToken' | 'Token' | None: the collateral-kind decision taken on path p (first one)"""
    for (at, o, _b, _l) in p.conds:
        k = kind_outcome(at, o)
        if k:
            return k
    return None


def direct_transfers(ix, v):
    """(receiver, amount, payer) triples of transfer messages inside value v"""
    out = []
    for x in sym.walk(v):
        if tag(x) != "agg":
            continue
        adt, var = payload(x)[0], payload(x)[1]
        if adt.endswith("cosmwasm_std::BankMsg") and var == "Send":
            amt = None
            for y in sym.walk(sym.field(x, "amount")):
                if tag(y) == "agg" and payload(y)[0].endswith("cosmwasm_std::Coin"):
                    amt = sym.field(y, "amount")
            out.append(("native", sym.field(x, "to_address"), amt, None))
        if adt.endswith("cw20::Cw20ExecuteMsg") and var in ("Transfer", "TransferFrom"):
            out.append(("cw20", sym.field(x, "recipient"), sym.field(x, "amount"), sym.field(x, "owner") if var == "TransferFrom" else None))
    return out


def run(ctx):
    ix = ctx.ix
    w = ctx.world
    em = EM(ctx)
    # floor: the engine may merge its two constructors into one; coverage is asserted per (crate, transfer kind) below
    ctx.rule("R13.1", "transfer constructors: native and cw20 arms build the same (receiver, amount)", 4)
    ctx.rule("R13.1b", "trade replies: native required increments == amounts the cw20 arm pulls from the trader", 3)
    ctx.rule("R13.2", "exact-match check on native terminal paths; SentFunds lifecycle", 5)

    # ---------------------------------------------------------------- R13.1
    # A transfer constructor is a function that RETURNS a message (SubMsg / CosmosMsg; in the insurance fund and the fee
    # pool the handler's Response) and branches on the collateral kind.  Only what flows into the returned value counts.
    # Where the cw20 message is handed in as a parameter (one builder shared by Transfer and TransferFrom) the arms are
    # compared at every call site, with the argument substituted.
    n = 0
    covered = set()
    MSG_TYPES = ("Cw20ExecuteMsg", "cosmwasm_std::CosmosMsg", "cosmwasm_std::BankMsg", "cosmwasm_std::WasmMsg")

    def is_constructor(f, crate):
        rt = f.locals[0]["ty"]
        if "SubMsg" in rt or "CosmosMsg" in rt:
            return True
        return crate in ("margined_insurance_fund", "margined_fee_pool") and "cosmwasm_std::Response" in rt

    def arm_sets(f, mapping):
        arms_ = {"NativeToken": set(), "Token": set()}
        try:
            oks = ix.ok_paths_at(f, mapping) if mapping else ix.ok_paths(f)
        except Exception:
            return None
        for p in oks:
            k = kind_of_path(ix, p)
            if k is None:
                continue
            rv = sym.subst(p.ret, mapping) if mapping else p.ret
            for (kind, recv, amt, payer) in direct_transfers(ix, ix.inline(rv)):
                if (k == "NativeToken") != (kind == "native"):
                    arms_[k].add(("WRONG-KIND-IN-ARM", kind))
                covered.add((f.crate, "native" if kind == "native" else ("cw20-transfer-from" if payer is not None else "cw20-transfer")))
                arms_[k].add((ix.inline(recv), N(ix, amt) if amt is not None else None))
        return arms_

    def show_arm(a_):
        return sorted((sym.show(r, 3) if isinstance(r, int) else str(r), norm.show(a) if isinstance(a, tuple) and a and a[0] in ("leaf", "int", "add", "sub", "mul", "div") else str(a)) for (r, a) in a_)
    for crate in ("margined_engine", "margined_insurance_fund", "margined_fee_pool", "margined_common"):
        fns_c = sorted(w.crate_fns(crate), key=lambda f: f.pretty)
        for f in fns_c:
            if f.derived or "::_::" in f.pretty or f.kind == "Closure" or not is_constructor(f, crate):
                continue
            try:
                oks = ix.ok_paths(f)
            except Exception:
                continue
            if not any(kind_of_path(ix, p) for p in oks):
                continue
            msg_params = [i for i in range(f.arg_count) if any(t_ in f.locals[i + 1]["ty"] for t_ in MSG_TYPES)]
            contexts = []
            if msg_params:
                for g in fns_c:
                    if g.derived or "::_::" in g.pretty or g.kind == "Closure":
                        continue
                    try:
                        gps = ix.ok_paths(g)
                    except Exception:
                        continue
                    seen_bb = set()
                    for gp in gps:
                        for e in gp.events:
                            if e.target is not None and e.target.key == f.key and e.bb not in seen_bb:
                                seen_bb.add(e.bb)
                                contexts.append(("%s@%s" % (short_fn(f), short_fn(g)), ix.param_map(f, e.args)))
            else:
                contexts.append((short_fn(f), None))
            for (label, mapping) in contexts:
                arms_ = arm_sets(f, mapping)
                if arms_ is None or (not arms_["NativeToken"] and not arms_["Token"]):
                    continue
                n += 1
                same = arms_["NativeToken"] == arms_["Token"]
                ctx.inst("R13.1", "arms-agree:%s" % label, same, f.where(),
                         "native arm builds %s; cw20 arm builds %s" % (show_arm(arms_["NativeToken"]), show_arm(arms_["Token"])))

    # every transfer kind of every contract is built by some two-armed constructor that was compared (merging or splitting
    # constructors changes the number of instances above, not this set)
    want_cov = {("margined_engine", "native"), ("margined_engine", "cw20-transfer"), ("margined_engine", "cw20-transfer-from"),
                ("margined_insurance_fund", "native"), ("margined_insurance_fund", "cw20-transfer"),
                ("margined_fee_pool", "native"), ("margined_fee_pool", "cw20-transfer")}
    ctx.inst("R13.1", "covers-all-transfer-kinds", want_cov <= covered, "",
             "two-armed constructors compared cover %s%s" % (sorted(covered), "" if want_cov <= covered else "; MISSING %s" % sorted(want_cov - covered)))

    # ---------------------------------------------------------------- R13.1b / R13.2
    from .c03 import transfers_of

    def required_terms(nf, base_pred):
        """flatten an add-tree; returns (terms, has_base)"""
        terms = []
        has_base = False

        def rec(x):
            nonlocal has_base
            if x[0] == "add":
                rec(x[1])
                rec(x[2])
            elif x[0] == "leaf" and base_pred(x[1]):
                has_base = True
            else:
                terms.append(x)
        rec(nf)
        return terms, has_base

    def funds_required_loaded(v):
        vi = ix.inline(v)
        return tag(vi) == "field" and payload(vi)[0] == "required" and guards.loaded_item(ix, kids(vi)[0], ENG) == FUNDS

    for ckey in ("OpenPosition>id1", "OpenPosition>id2", "OpenPosition>id3", "OpenPosition>id3>id1"):
        st = em.reply_step(ckey)
        if st is None:
            ctx.lost("R13.1b", ckey)
            continue
        by_key = {}
        term_bad = None

        def funds_helper(e):
            # a helper the native-funds bookkeeping was moved into: takes the SentFunds record next to other things
            # (the one-argument exact-match check itself stays a call)
            t_ = e.target
            return t_.arg_count >= 2 and any("SentFunds" in t_.locals[i + 1]["ty"] for i in range(t_.arg_count))
        for q in splice(ix, st.ok_paths(), funds_helper, rounds=4):
            kind = None
            rest = []
            for (at, o, _b, _l) in q.conds:
                s_ = sym.show(at, 3)
                ko = kind_outcome(at, o)
                if ko:
                    kind = kind or ko
                    continue
                if "are_sufficient" in s_ or "to_binary" in s_:
                    continue
                # conditions evaluated inside one arm only (accounting arithmetic) do not distinguish histories
                if tag(at) == "op" and payload(at)[0] == "is_ok" and any(funds_required_loaded(x) for x in sym.walk(at)):
                    continue
                rest.append((at, o))
            if kind is None:
                continue
            key = frozenset(rest)
            # native: the final required value (checked or re-stored)
            if kind == "NativeToken":
                req = None
                checked = False
                for e in q.events:
                    if e.target is not None and e.args and "SentFunds" in e.target.locals[1]["ty"] and "are_sufficient" in e.target.name or \
                            (e.target is not None and e.args and e.target.arg_count == 1 and "SentFunds" in e.target.locals[1]["ty"] and "Result" in e.target.locals[0]["ty"]):
                        req = sym.field(e.args[0], "required")
                        checked = guards.propagated(q, e)
                for wr in ix.writes_on_path(q):
                    if wr["item"] == FUNDS and wr["kind"] == "write" and wr["value"] is not None:
                        req = sym.field(ix.inline(wr["value"]), "required")
                terminal = not any(s.reply_on_name() == "Always" for s in em.emitted(q))
                if terminal and not checked:
                    term_bad = term_bad or "a native terminal success path ends without the sent-funds exact-match check"
                terms, has_base = required_terms(N(ix, req), funds_required_loaded) if req is not None else ([], False)
                by_key.setdefault(key, {})["native"] = (sorted(norm.show(t) for t in terms), has_base, req is not None)
            else:
                pulls = []
                for s in em.emitted(q):
                    # only messages this path really builds: restrict to constructors invoked by events of q
                    pass
                for e in q.events:
                    if e.target is None or e.opened:
                        continue
                    for s in model.reachable_submsgs(ix, e.target, ix.param_map(e.target, e.args)):
                        for (k2, payer, recv, amount) in transfers_of(ix, s):
                            if k2 == "cw20-transfer-from" and em.tmp(payer, "trader"):
                                pulls.append(norm.show(N(ix, amount)))
                by_key.setdefault(key, {})["cw20"] = sorted(pulls)
        bad = None
        pairs = 0
        for key, d in by_key.items():
            if "native" in d and "cw20" in d:
                pairs += 1
                terms, has_base, have = d["native"]
                if not have:
                    if d["cw20"]:
                        bad = bad or "cw20 arm pulls %s but the native arm never accounts required funds" % d["cw20"]
                    continue
                if terms != d["cw20"]:
                    bad = bad or "native arm requires +%s while the cw20 arm pulls %s from the trader" % (terms, d["cw20"])
        ctx.inst("R13.1b", "required-vs-pulled:%s" % ckey, bad is None and pairs > 0, st.fn.where(),
                 bad or "%d path pairs (same conditions, different collateral kind): required increments equal pulled amounts" % pairs)
        ctx.inst("R13.2", "terminal-check:%s" % ckey, term_bad is None, st.fn.where(), term_bad or "every native terminal success path passes the exact-match check")

    # ---- R13.3: the premise of the property is that a native call attaches what the cw20 twin pulls *from the
    # caller*; a cw20 pull from any other account (e.g. the liquidated trader) has no native counterpart at all
    ctx.rule("R13.3", "every cw20 pull (TransferFrom) a chain step can emit is from the account that sent the transaction", 5)
    for ckey in sorted(em.chains):
        sts = em.chains[ckey]
        st = sts[-1]
        root = ckey.split(">")[0]
        depth0 = len(sts) == 1
        pulls = []
        bad = None
        for q in st.ok_paths():
            for e in q.events:
                if e.target is None:
                    continue
                for s2 in model.reachable_submsgs(ix, e.target, ix.param_map(e.target, e.args)):
                    for (k2, payer, recv, amount) in transfers_of(ix, s2):
                        if k2 != "cw20-transfer-from":
                            continue
                        pulls.append(norm.show(N(ix, amount)))
                        payer_s = st.s(payer)
                        if root == "Liquidate":
                            okp = guards.loaded_item(ix, payer, ENG) == LIQ or payer_s == st.sender
                        elif depth0:
                            okp = payer == st.sender or payer_s == st.sender
                        else:
                            okp = em.tmp(payer, "trader") or em.tmp(payer_s, "trader")
                        if not okp:
                            bad = bad or "pulls %s from %s, which is not the caller of this transaction" % (norm.show(N(ix, amount)), sym.show(payer, 5))
        if not pulls:
            continue
        ctx.inst("R13.3", "pull-from-caller:%s" % ckey, bad is None, st.fn.where(),
                 bad or "%d cw20 pull constructions, all from the caller (%s)" % (len(pulls), "info.sender" if depth0 else "the in-flight record's trader, set from info.sender (R10.2)"))

    # ---- R13.4: an arm whose chain pulls cw20 funds from the caller must not make success depend on the attached
    # coins other than by looking up the collateral coin (the premise of the property is that the native call
    # attaches exactly what the cw20 twin pulls, so "no coins attached" cannot be a success condition there)
    ctx.rule("R13.4", "arms that pull cw20 funds from the caller do not condition success on the attached coins (other than the collateral-coin lookup)", 3)
    pull_roots = {}
    for ckey in sorted(em.chains):
        st = em.chains[ckey][-1]
        for q in st.ok_paths():
            for e in q.events:
                if e.target is None:
                    continue
                for s2 in model.reachable_submsgs(ix, e.target, ix.param_map(e.target, e.args)):
                    for (k2, payer, recv, amount) in transfers_of(ix, s2):
                        if k2 == "cw20-transfer-from":
                            pull_roots.setdefault(ckey.split(">")[0], set()).add(norm.show(N(ix, amount)))

    def funds_gates(q, m, depth, out):
        for (a, o) in guards._own_facts(ix, q, m):
            occ = [x for x in sym.walk(a) if tag(x) == "field" and payload(x)[0] == "funds"]
            if not occ:
                continue
            lookup_only = all(any(tag(y) == "call" and "find" in str(payload(y)[0]) and x in set(sym.walk(y)) for y in sym.walk(a)) for x in occ)
            if not lookup_only:
                out.add("%s = %s" % (sym.show(a, 5), o))
        if depth <= 0:
            return
        for c in guards._imports(ix, q):
            if isinstance(c, tuple):
                c = c[0]
            c2 = sym.subst(c, m) if m else c
            fn2 = ix.call_target(c2)
            if fn2 is None:
                continue
            m2 = ix.param_map(fn2, kids(c2))
            try:
                ps = ix.ok_paths_at(fn2, m2)
            except Exception:
                continue
            for p2 in ps:
                funds_gates(p2, m2, depth - 1, out)

    for root in sorted(pull_roots):
        st = em.exec_step(root)
        if st is None:
            ctx.lost("R13.4", root)
            continue
        gates = set()
        for q in st.ok_paths():
            funds_gates(q, st.m, 4, gates)
        ctx.inst("R13.4", "funds-gate:%s" % root, not gates, st.fn.where(),
                 ("the cw20 twin pulls %s from the caller; success of the native call is conditioned on the attached coins by %s" % (sorted(pull_roots[root])[:3], sorted(gates)[:3]))
                 if gates else "the cw20 twin pulls from the caller here; no success condition of the arm constrains the attached coins beyond the collateral-coin lookup")

    # ---- R13.5: coins attached to a native call are already part of the engine's balance when a reply reads it; a
    # step that sizes an insurance top-up from that balance although the attached coins are not tracked (no SentFunds
    # record on the chain) treats the trader's fee coins as vault money: the top-up is too small by exactly that amount
    ctx.rule("R13.5", "no reply of a chain whose attached native coins are untracked sizes an insurance top-up from the engine balance", 1)

    def sizes_from_balance(fn, depth=3):
        reads_bal = emits_w = False
        try:
            for p in ix.ok_paths(fn):
                for e in p.events:
                    qq = ix.parse_query(e.result)
                    if qq and (qq.get("bank") is not None or (qq.get("msg") is not None and (ix.msg_variant(qq["msg"]) or (0, ""))[1] == "Balance")):
                        reads_bal = True
                    if e.target is not None and depth > 0:
                        r2, e2 = sizes_from_balance(e.target, depth - 1)
                        reads_bal = reads_bal or r2
                        emits_w = emits_w or e2
                for s_ in model.path_submsgs(ix, p):
                    mv = ix.msg_variant(s_.inner_msg()) if s_.inner_msg() is not None else None
                    if mv and mv[1] == "Withdraw":
                        emits_w = True
        except Exception:
            pass
        return reads_bal, emits_w

    for ckey in sorted(em.chains):
        root = ckey.split(">")[0]
        sts = em.chains[ckey]
        if root not in pull_roots or len(sts) == 1:
            continue
        st = sts[-1]
        tracked = False
        sized = 0
        for q in st.ok_paths():
            for e in q.events:
                if guards.loaded_item(ix, e.result, ENG) == FUNDS or (e.result is not None and guards.loaded_item(ix, sym.unwrap(e.result), ENG) == FUNDS):
                    tracked = True
                if e.target is not None:
                    rb, ew = sizes_from_balance(e.target)
                    if rb and ew:
                        sized += 1
            for wr in st.writes(q):
                if wr["item"] == FUNDS:
                    tracked = True
        if not sized:
            continue
        ctx.inst("R13.5", "attached-funds-in-balance:%s" % ckey, tracked, st.fn.where(),
                 ("%d balance-sized payout calls; the chain keeps a SentFunds record of the attached coins" % sized) if tracked else
                 ("%d balance-sized payout calls on a chain without any record of the attached coins: with native collateral the fees the trader attaches "
                  "(what the cw20 twin pulls: %s) are counted as vault money, the insurance top-up is too small by that amount and the fee transfers fail "
                  "when the payout exceeds the vault, while the cw20 twin succeeds" % (sized, sorted(pull_roots[root])[:2])))

    # ---- R13.5 (second kind): on a chain that does track the attached coins the same inflation happens when a step sizes
    # the top-up from the balance and forwards attached fee coins in the SAME response - the fee coins are still in the
    # balance when it is read.  Decided without value reasoning, hence only the definite case: EVERY success path of the
    # step that makes a balance-sized payout call also makes a fee-transfer call (then each such payout from a short
    # vault is under-funded by the fees on native and fully funded on cw20).  (Round-10 seed C13m: the exact-close branch
    # of the reversal paid the trader through the top-up helper.)  Today's increase reply has the payout and the fee
    # transfer on one syntactic path as well, but also payout paths without a fee transfer (fees already paid by the
    # reversal): not definite, not reported.
    for ckey in sorted(em.chains):
        root = ckey.split(">")[0]
        sts = em.chains[ckey]
        if root not in pull_roots or len(sts) == 1:
            continue
        st = sts[-1]
        with_fee = without_fee = 0
        for q in st.ok_paths():
            sized_here = False
            for e in q.events:
                if e.target is not None and not getattr(e, "opened", False):
                    rb, ew = sizes_from_balance(e.target)
                    if rb and ew:
                        sized_here = True
            if sized_here:
                if em.fee_calls(q):
                    with_fee += 1
                else:
                    without_fee += 1
        if with_fee + without_fee == 0:
            continue
        definite = with_fee > 0 and without_fee == 0
        ctx.inst("R13.5", "sized-while-fees-attached:%s" % ckey, not definite, st.fn.where(),
                 "%d payout paths forward fee coins in the same response, %d do not%s" % (with_fee, without_fee,
                    ": every balance-sized payout of this step counts the trader's attached fee coins as vault money - under-funded on native, funded on cw20" if definite else ""))

    # exact match semantics of the check function
    chk = None
    for f in w.crate_fns(ENG):
        if f.arg_count == 1 and "SentFunds" in f.locals[1]["ty"] and "Result" in f.locals[0]["ty"] and f.kind == "AssocFn":
            chk = f
    if chk is None:
        ctx.lost("R13.2", "SentFunds exact-match check function")
    else:
        bad = None
        for p in ix.ok_paths(chk):
            ok = False
            for (at, o, _b, _l) in p.conds:
                if tag(at) == "op" and payload(at)[0] == "discr" and tag(kids(at)[0]) == "op" and payload(kids(at)[0])[0] == "cmp":
                    a_, b_ = kids(kids(at)[0])
                    names = {sym.show(ix.inline(a_), 3).split(".")[-1], sym.show(ix.inline(b_), 3).split(".")[-1]}
                    if o == ("variant", "Equal") or (o[0] == "other" and set(o[1]) == {"Greater", "Less"}):
                        if names == {"amount", "required"}:
                            ok = True
                # the equality itself (a three-way match is read as the comparison each arm stands for)
                if tag(at) == "op" and payload(at)[0] == "eq" and o is True and len(kids(at)) == 2:
                    names = {sym.show(ix.inline(k_), 3).split(".")[-1] for k_ in kids(at)}
                    if names == {"amount", "required"}:
                        ok = True
            if not ok:
                bad = bad or p
        ctx.inst("R13.2", "exact-match-semantics:%s" % short_fn(chk), bad is None and bool(ix.ok_paths(chk)), chk.where(),
                 "succeeds only when asset.amount == required" if bad is None else "a success path of the check is not the equality case")
    # lifecycle
    creators = {}
    for (st, root, depth, ckey) in em.steps.values():
        for q in st.ok_paths():
            for wr in st.writes(q):
                if wr["item"] == FUNDS and wr["kind"] == "write" and wr["value"] is not None:
                    val = ix.inline(wr["value"])
                    asset = ix.inline(sym.field(val, "asset"))
                    req = N(ix, sym.field(val, "required"))
                    if depth == 0:
                        okc = root == "OpenPosition" and req == ("int", 0) and tag(asset) == "call" and st.info in [st.s(a) for a in kids(asset)] and \
                            any(em.cfg(a, "eligible_collateral") for a in kids(asset))
                        creators.setdefault(ckey, []).append(okc)
                    else:
                        okc = tag(asset) == "field" and payload(asset)[0] == "asset" and guards.loaded_item(ix, kids(asset)[0], ENG) == FUNDS
                        creators.setdefault(ckey, []).append(okc)
    for ckey, oks in sorted(creators.items()):
        ctx.inst("R13.2", "sent-funds-store:%s" % ckey, all(oks), "", "%d stores; %s" % (len(oks), "created from (info, config.eligible_collateral) with required = 0 / re-stored with the loaded asset" if all(oks) else "unexpected SentFunds store"))


    # ---------------------------------------------------------------- R13.6
    # the bank module rejects a zero-amount send where a cw20 token may accept the zero transfer: a fee message whose
    # amount can be zero makes the native deployment refuse a trade its cw20 twin executes.  Same rule as R12.6.
    from .nonzero import nonzero_instances

    def is_fee_amount13(v):
        vi = ix.inline(v)
        if tag(vi) == "field" and payload(vi)[0] in ("spread_fee", "toll_fee"):
            q_ = ix.parse_query(kids(vi)[0])
            mv_ = ix.msg_variant(q_["msg"]) if q_ and q_.get("msg") is not None else None
            return bool(mv_ and mv_[1] == "CalcFee")
        return False
    nonzero_instances(ctx, em, "R13.6", "every fee message of an Open / Close chain carries a fee that is non-zero by a path fact (a zero bank send is rejected where the cw20 transfer of zero is not)", 5,
                      lambda ckey: ckey.startswith(("OpenPosition>", "ClosePosition>")), "the native deployment refuses the trade (zero bank send) while the cw20 twin executes it",
                      select=is_fee_amount13)


    # ---------------------------------------------------------------- R13.7
    # the insurance top-up is sized the same way in both deployments: <payout> - (engine balance + the figure the caller
    # hands over), with no term that only one collateral kind has (round-12 seed C13o subtracted the in-flight record's
    # `required` - zero for cw20, the already forwarded fees for native - and over-drew the insurance fund on native only).
    # Same rule as R07.5's second half, evaluated for the Open replies as well.
    from .balance import sizing_instances
    ctx.rule("R13.7", "the top-up sizing is <payout> - (balance + the figure it is handed): nothing that depends on the collateral kind or on the in-flight records", 1)
    sizing_instances(ctx, em, "R13.7", reply_keys=())


    # R13.6 (second kind): a margin pull - a non-fee amount handed to the constructor of the cw20 TransferFrom - is sent as
    # a message only by the cw20 deployment (the native arm of the same branch just raises SentFunds.required), so it must
    # not be emitted with amount zero: cw20 rejects the zero TransferFrom and refuses the trade, the native twin
    # (required += 0) executes it.  (Blind sweep: `margin_to_vault > 0` weakened to `>= 0` in the increase reply.)
    from .nonzero import movers_of
    from .c03 import transfers_of as _transfers_of

    def is_pull_constructor(fn, args2):
        # (decided at the call: a constructor merged for pull and push builds the TransferFrom only for some arguments)
        try:
            for s_ in model.reachable_submsgs(ix, fn, ix.param_map(fn, list(args2))):
                if any(k_ == "cw20-transfer-from" for (k_, _p, _r, _a) in _transfers_of(ix, s_)):
                    return True
        except Exception:
            pass
        return False
    nonzero_instances(ctx, em, "R13.6", "every fee message of an Open / Close chain carries a fee that is non-zero by a path fact (a zero bank send is rejected where the cw20 transfer of zero is not); every margin pull is non-zero as well", 5,
                      lambda ckey: ckey.startswith(("OpenPosition>", "ClosePosition>")), "the cw20 deployment refuses the trade (zero TransferFrom) while the native twin, which only raises the required funds by zero, executes it",
                      select=lambda v: not is_fee_amount13(v), target_select=is_pull_constructor)
