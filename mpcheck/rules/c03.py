"""C03 — Collateral is conserved and only flows to permitted recipients."""
from .. import sym, guards, arms, model
from ..sym import tag, payload, kids
from .common import *
from .posflow import *

EXPLANATION = ("R03.1 census of every message aggregate constructed in product code: only BankMsg::Send, cw20 Transfer/TransferFrom, "
               "WasmMsg::Execute with empty funds, vAMM SwapInput/SwapOutput/SettleFunding/SetOpen and insurance-fund Withdraw (a fixture "
               "with a Mint message must be seen); R03.2 receiver/payer origin of every transfer the engine can emit, per chain step; "
               "R03.3 liquidation replies never pay or charge the liquidated trader; R03.4 insurance-fund Withdraw pays config.engine in "
               "both collateral arms; R03.5 the liquidator slot a liquidation reply pays from is written by the Liquidate handler with "
               "info.sender, unconditionally, on every success path.")
NOT_DECIDED = ("amounts (conservation itself is a property of bank / cw20 transfers, trusted); the fee pool's SendToken pays an arbitrary "
               "recipient by design (owner-gated, C09).")

PRODUCT = ["margined_engine", "margined_vamm", "margined_insurance_fund", "margined_fee_pool", "margined_pricefeed", "margined_common", "margined_perp"]
ALLOWED_AGG = {
    "cosmwasm_std::BankMsg": {"Send"},
    "cw20::Cw20ExecuteMsg": {"Transfer", "TransferFrom"},
    "cosmwasm_std::WasmMsg": {"Execute"},
    "cosmwasm_std::CosmosMsg": {"Bank", "Wasm"},
    "margined_perp::margined_vamm::ExecuteMsg": {"SwapInput", "SwapOutput", "SettleFunding", "SetOpen"},
    "margined_perp::margined_insurance_fund::ExecuteMsg": {"Withdraw"},
}
MSG_ADTS_PREFIX = ("cosmwasm_std::BankMsg", "cw20::Cw20ExecuteMsg", "cosmwasm_std::WasmMsg", "cosmwasm_std::CosmosMsg",
                   "cosmwasm_std::StakingMsg", "cosmwasm_std::DistributionMsg", "cosmwasm_std::IbcMsg", "cosmwasm_std::GovMsg",
                   "margined_perp::margined_vamm::ExecuteMsg", "margined_perp::margined_insurance_fund::ExecuteMsg",
                   "margined_perp::margined_engine::ExecuteMsg", "margined_perp::margined_fee_pool::ExecuteMsg",
                   "margined_perp::margined_pricefeed::ExecuteMsg", "cw20::Cw20ReceiveMsg")


def transfers_of(ix, s):
    """[(kind, payer or None, receiver, amount)] of a SubMsgSite"""
    k, inner = s.wasm_msg()
    out = []
    if k == "bank" and tag(inner) == "agg" and payload(inner)[1] == "Send":
        coins = sym.field(inner, "amount")
        amt = coins
        for x in sym.walk(coins):
            if tag(x) == "agg" and payload(x)[0].endswith("cosmwasm_std::Coin"):
                amt = sym.field(x, "amount")
                break
        out.append(("bank-send", None, ix.inline(sym.field(inner, "to_address")), amt))
    elif k == "wasm":
        im = s.inner_msg()
        mv = ix.msg_variant(im) if im is not None else None
        if mv and mv[0].endswith("Cw20ExecuteMsg"):
            if mv[1] == "Transfer":
                out.append(("cw20-transfer", None, ix.inline(mv[2]["recipient"]), mv[2]["amount"]))
            elif mv[1] == "TransferFrom":
                out.append(("cw20-transfer-from", ix.inline(mv[2]["owner"]), ix.inline(mv[2]["recipient"]), mv[2]["amount"]))
            else:
                out.append(("cw20-" + mv[1], None, None, None))
    return out


def run(ctx):
    ix = ctx.ix
    w = ctx.world
    ctx.rule("R03.1", "message census: only the tabled message kinds are constructed anywhere in product code; WasmMsg::Execute.funds is empty", 20)
    ctx.rule("R03.2", "every transfer the engine can emit goes to config.insurance_fund / config.fee_pool / the engine itself / the acting trader / the stored liquidator, and is paid by the acting trader or the vault", 8)
    ctx.rule("R03.3", "liquidation replies never name the liquidated trader as receiver or payer", 2)
    ctx.rule("R03.4", "insurance fund Withdraw pays config.engine in both collateral arms", 2)
    ctx.rule("R03.5", "the liquidator a liquidation reply pays is this transaction's sender: Liquidate stores info.sender in the in-flight slot unconditionally on every success path", 1)

    # ---------------------------------------------------------------- R03.1
    census = {}
    for f in w.fns.values():
        if f.crate not in PRODUCT + ["mpcheck_fixture"] or f.derived or "::_::" in f.pretty:
            continue
        for bi in f.reachable():
            b = f.blocks[bi]
            aggs = []
            for s in b["stmts"]:
                if s["k"] == "assign" and "agg" in s["rv"] and s["rv"]["agg"] == "adt":
                    aggs.append((s["rv"]["adt"], s["rv"]["variant"], s["line"]))
            # promoted aggregates (constant messages)
            def scan_const(o, line):
                c = o.get("const") if isinstance(o, dict) else None
                if c and "promoted_agg" in c:
                    aggs.append((c["promoted_agg"]["adt"], c["promoted_agg"]["variant"], line))
            for s in b["stmts"]:
                if s["k"] == "assign":
                    rv = s["rv"]
                    for k in ("use", "cast", "a", "b"):
                        if k in rv:
                            scan_const(rv[k], s["line"])
                    for o in rv.get("ops", []):
                        scan_const(o, s["line"])
            t = b["term"]
            if t["k"] == "call":
                for o in t["args"]:
                    scan_const(o, t["line"])
            for (adt, variant, line) in aggs:
                if adt.startswith(MSG_ADTS_PREFIX) or adt.endswith("FixtureMsg"):
                    census.setdefault((f.crate, adt, variant), []).append((f, line))
    for (crate, adt, variant), sites in sorted(census.items()):
        if crate == "mpcheck_fixture":
            continue
        ok = variant in ALLOWED_AGG.get(adt, set())
        f, line = sites[0]
        ctx.inst("R03.1", "constructs:%s:%s::%s" % (crate, adt, variant), ok, f.where(line),
                 "%d construction site(s), e.g. in %s; %s" % (len(sites), f.pretty, "tabled kind" if ok else "NOT a permitted message kind (mint/burn/allowance/other)"))
    fx = [k for k in census if k[0] == "mpcheck_fixture" and k[2] == "Mint"]
    ctx.inst("R03.1", "fixture-mint-seen", bool(fx), "", "positive control: the fixture's Mint construction is %s by the census" % ("seen" if fx else "NOT seen"))
    # funds empty
    n_exec = 0
    bad_funds = None
    for c in ("margined_engine", "margined_insurance_fund", "margined_fee_pool", "margined_vamm", "margined_pricefeed"):
        for f in w.crate_fns(c):
            if f.derived or "::_::" in f.pretty or f.kind == "Closure":
                continue
            try:
                oks = ix.ok_paths(f)
            except Exception:
                continue
            for p in oks:
                for v in model.path_values(p):
                    for a in model.find_aggs(v, "cosmwasm_std::WasmMsg"):
                        if payload(a)[1] != "Execute":
                            continue
                        n_exec += 1
                        funds = sym.field(a, "funds")
                        if not (tag(funds) == "vec" and not kids(funds)):
                            bad_funds = bad_funds or (f, funds)
    ctx.inst("R03.1", "wasm-execute-funds-empty", bad_funds is None and n_exec > 0, bad_funds[0].where() if bad_funds else "",
             "%d WasmMsg::Execute values; %s" % (n_exec, "all carry funds: vec![]" if bad_funds is None else "funds = %s" % sym.show(bad_funds[1], 5)))

    # ---------------------------------------------------------------- R03.2 / R03.3
    chains = arms.engine_chains(ix, ENG)
    steps = {}
    for key, sts in chains.items():
        root = key.split(">")[0]
        for i, st in enumerate(sts):
            steps.setdefault((st.fn.key, st.label), (st, {root}, i))
            steps[(st.fn.key, st.label)][1].add(root)

    def cfg(v, f):
        return guards.is_field_of_item(ix, v, ENG, "margined_engine:config", f)

    n2 = 0
    for (st, roots, depth) in sorted(steps.values(), key=lambda x: (sorted(x[1]), x[2], x[0].label)):
        is_exec = depth == 0
        liq = "Liquidate" in roots and not is_exec
        bad = []
        n_t = 0
        kinds = set()
        for q in st.ok_paths():
            for s in model.path_submsgs(ix, q):
                for (kind, payer, recv, amount) in transfers_of(ix, s):
                    n_t += 1
                    recv_s = st.s(recv) if recv is not None else None
                    payer_s = st.s(payer) if payer is not None else None
                    # who is the acting trader in this step?
                    if is_exec:
                        trader = lambda v: v == st.sender
                    else:
                        trader = lambda v: is_tmp_field(ix, v, "trader")
                    cls = None
                    if recv is None:
                        cls = "?"
                    elif cfg(recv, "insurance_fund"):
                        cls = "insurance_fund"
                    elif cfg(recv, "fee_pool"):
                        cls = "fee_pool"
                    elif recv_s == st.self_addr:
                        cls = "engine"
                    elif trader(recv) or trader(recv_s):
                        cls = "trader"
                    elif guards.loaded_item(ix, recv, ENG) == LIQ:
                        cls = "liquidator"
                    else:
                        cls = "OTHER(%s)" % sym.show(recv, 5)
                    pcls = None
                    if payer is not None:
                        if trader(payer) or trader(payer_s):
                            pcls = "trader"
                        else:
                            pcls = "OTHER(%s)" % sym.show(payer, 5)
                    kinds.add((kind, pcls, cls))
                    if cls.startswith("OTHER") or cls == "?" or (pcls or "").startswith("OTHER"):
                        bad.append("%s payer=%s receiver=%s" % (kind, pcls, cls))
                    if cls == "liquidator" and not liq:
                        bad.append("liquidator paid outside a liquidation reply")
                    if liq and (cls == "trader" or pcls == "trader"):
                        bad.append("LIQUIDATED TRADER is %s of a %s" % ("receiver" if cls == "trader" else "payer", kind))
        if n_t == 0 and not liq:
            continue
        n2 += 1
        rule = "R03.3" if liq else "R03.2"
        ctx.inst(rule, "transfers:%s:%s" % (short_fn(st.fn), st.label), not bad, st.fn.where(),
                 "%d transfer constructions over %d success paths: %s%s" % (n_t, len(st.ok_paths()), sorted(kinds),
                    ("; VIOLATING: " + "; ".join(sorted(set(bad)))) if bad else ""))
        ctx.note_paths(len(st.ok_paths()))

    # ---------------------------------------------------------------- R03.5
    # the "stored liquidator" a liquidation reply pays is only the sender of *this* transaction if the Liquidate handler
    # writes the slot on every success path, unconditionally, with info.sender; a conditional store (slot occupied, fee
    # zero, ...) lets an address left behind by an earlier liquidation collect the fee
    n5 = 0
    for (st, roots, depth) in sorted(steps.values(), key=lambda x: (sorted(x[1]), x[2], x[0].label)):
        if depth != 0:
            continue
        writes_liq = False
        bad = None
        n_p = 0
        for q in st.ok_paths():
            n_p += 1
            good = False
            for wr in st.writes(q):
                if wr["item"] != LIQ:
                    continue
                writes_liq = True
                if wr["kind"] == "write" and wr["must"] and wr["value"] is not None and st.c(wr["value"]) == st.sender:
                    good = True
                elif wr["kind"] == "write":
                    bad = bad or ("the slot is written %s with %s" % ("conditionally" if not wr["must"] else "unconditionally", sym.show(st.c(wr["value"]), 5) if wr["value"] is not None else "?"))
            if "Liquidate" in roots and not good:
                bad = bad or "a success path does not (unconditionally) store info.sender as the liquidator"
        if "Liquidate" in roots:
            n5 += 1
            ctx.inst("R03.5", "liquidator-is-sender:%s" % st.label, bad is None and n_p > 0, st.fn.where(),
                     bad or "%d success paths, each stores info.sender into the liquidator slot unconditionally" % n_p)
        elif writes_liq:
            n5 += 1
            ctx.inst("R03.5", "liquidator-slot-foreign-writer:%s" % st.label, False, st.fn.where(), "a non-liquidation arm writes the liquidator slot")

    # ---------------------------------------------------------------- R03.4
    IFC = "margined_insurance_fund"
    try:
        a = arms.Arm(ix, IFC, "Withdraw")
        per_kind = {}
        for q in a.ok_paths():
            for s in model.path_submsgs(ix, q):
                for (kind, payer, recv, amount) in transfers_of(ix, s):
                    ok = guards.is_field_of_item(ix, recv, IFC, IFC + ":config", "engine") and payer is None
                    per_kind.setdefault(kind, []).append(ok)
        for kind in ("bank-send", "cw20-transfer"):
            oks = per_kind.get(kind)
            ctx.inst("R03.4", "withdraw-receiver:%s" % kind, bool(oks) and all(oks), a.fn.where(),
                     "%s: %s" % (kind, "receiver is config.engine" if oks and all(oks) else "missing or receiver is not config.engine"))
        extra = set(per_kind) - {"bank-send", "cw20-transfer"}
        if extra:
            ctx.inst("R03.4", "withdraw-extra-kinds", False, a.fn.where(), "unexpected transfer kinds %s" % sorted(extra))
    except KeyError as e:
        ctx.lost("R03.4", str(e))
