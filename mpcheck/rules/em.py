"""Engine model helpers shared by the formula rules (C04, C05, C06, C11, C12, C13, C02)."""
from .. import sym, guards, arms, model, norm
from ..sym import tag, payload, kids
from ..norm import N, match, hole, anyhole
from .posflow import *
from .common import *

CFG = "margined_engine:config"
STATE = "margined_engine:state"
VMAP = "margined_engine:vamm-map"
FUNDS = "margined_engine:sent-funds"


class EM:
    def __init__(self, ctx):
        self.ctx = ctx
        self.ix = ctx.ix
        self.w = ctx.world
        self.chains = arms.engine_chains(self.ix, ENG)
        self.steps = {}
        for key, sts in self.chains.items():
            for i, st in enumerate(sts):
                self.steps.setdefault((st.fn.key, st.label), (st, key.split(">")[0], i, key))

    # ---- anchors found by behaviour, not by name ------------------------------
    def reply_step(self, chain_key):
        sts = self.chains.get(chain_key)
        return sts[-1] if sts else None

    def exec_step(self, variant):
        sts = self.chains.get(variant)
        return sts[0] if sts else None

    def cfg(self, v, field):
        return guards.is_field_of_item(self.ix, v, ENG, CFG, field)

    def cfg_leaf(self, field):
        return hole("cfg." + field, lambda v, f=field: self.cfg(v, f))

    def tmp(self, v, field):
        return is_tmp_field(self.ix, v, field)

    def tmp_leaf(self, field):
        return hole("tmp." + field, lambda v, f=field: self.tmp(v, f))

    def is_position_value(self, v):
        """v denotes the position under update on a reply path: a load or the multi-outcome getter"""
        v = self.ix.inline(v)
        if load_key(self.ix, v) is not None:
            return True
        if tag(v) == "call":
            outs = self.ix.outcomes(v)
            if outs and any(load_key(self.ix, self.ix.inline(ret)) is not None or tag(self.ix.inline(ret)) in ("rec",) for (_p, ret, _m) in outs):
                return True
        if tag(v) in ("rec", "mutby"):
            return self.is_position_value(kids(v)[0] if tag(v) == "rec" else kids(v)[1])
        return False

    def pos_field_leaf(self, field):
        def pred(v):
            vi = self.ix.inline(v)
            return tag(vi) == "field" and payload(vi)[0] == field and self.is_position_value(kids(vi)[0])
        return hole("position." + field, pred)

    def remain_margin_calls(self, q):
        """events on path q that call the remain-margin function (anchor: returns a value whose fields
        margin / bad_debt / latest_premium_fraction are read)"""
        out = []
        for e in q.events:
            if e.target is None:
                continue
            rt = e.target.locals[0]["ty"]
            if "RemainMarginResponse" in rt and any("Deps" in e.target.locals[i + 1]["ty"] for i in range(e.target.arg_count)):
                out.append(e)
        return out

    def fee_calls(self, q):
        """events calling the fee-transfer function (anchor: returns TransferResponse)"""
        # (a call whose callee has been spliced into the path is represented by the callee's own events)
        return [e for e in q.events if e.target is not None and "TransferResponse" in e.target.locals[0]["ty"] and not e.opened]

    def stored_position(self, st, q):
        vals = []
        for wr in st.writes(q):
            if wr["item"] == POS and wr["kind"] == "write" and wr["value"] is not None:
                vals.append(self.ix.inline(wr["value"]))
        return vals

    def removed_position(self, st, q):
        return [wr for wr in st.writes(q) if wr["item"] == POS and wr["kind"] == "remove"]

    def stored_tmp(self, st, q):
        return [self.ix.inline(wr["value"]) for wr in st.writes(q) if wr["item"] == TMP and wr["kind"] == "write" and wr["value"] is not None]

    def emitted(self, q):
        return model.path_submsgs(self.ix, q)

    def reply_io(self, st):
        """(input, output) parameter values of a reply step in the handler's own frame: the parameters the
        reply entry binds to components .0 and .1 of the parsed swap event"""
        inp = outp = None
        for pv, mapped in st.m.items():
            mi = mapped
            if tag(mi) == "field" and payload(mi)[0] in ("0", "1") and tag(kids(mi)[0]) in ("unwrap", "call"):
                if payload(mi)[0] == "0":
                    inp = pv
                else:
                    outp = pv
        return inp, outp


def pairing_instances(ctx, em, rule):
    """margin and funding checkpoint move together at every position store (shared by C11 and C04)"""
    ix = ctx.ix
    n4 = 0
    for (st, root, depth, ckey) in sorted(em.steps.values(), key=lambda x: (x[3], x[2])):
        bad = None
        stores = 0
        for q in st.ok_paths():
            vals = em.stored_position(st, q)
            if not vals:
                continue
            rms = em.remain_margin_calls(q)
            for val in vals:
                stores += 1
                m_ = ix.inline(sym.field(val, "margin"))
                c_ = ix.inline(sym.field(val, "last_updated_premium_fraction"))
                m_rm = [e for e in rms if m_ == st.c(sym.field(sym.unwrap(e.result), "margin"))]
                c_rm = [e for e in rms if c_ == st.c(sym.field(sym.unwrap(e.result), "latest_premium_fraction"))]
                if m_rm or c_rm:
                    if not (m_rm and c_rm and m_rm[0] is c_rm[0]):
                        bad = bad or "margin %s a remain-margin result but checkpoint %s (funding would be %s)" % (
                            "comes from" if m_rm else "does NOT come from", "comes from the same result" if c_rm else "does NOT", "charged twice" if m_rm else "skipped")
                else:
                    # neither: the checkpoint must be the loaded one, or both are reset to zero with the size
                    zero_reset = N(ix, c_) == ("pos", ("int", 0)) and N(ix, m_) == ("int", 0)
                    if not zero_reset:
                        cb = c_
                        preserved = tag(cb) == "field" and payload(cb)[0] == "last_updated_premium_fraction" and em.is_position_value(kids(cb)[0])
                        if not preserved:
                            bad = bad or "checkpoint becomes %s while the margin is not settled" % sym.show(c_, 5)
        if stores:
            n4 += 1
            ctx.inst(rule, "pairing:%s:%s" % (short_fn(st.fn), st.label), bad is None, st.fn.where(),
                     "%d position stores; %s" % (stores, bad or "margin and checkpoint move together (same remain-margin result), or both untouched/reset"))


def settled_on_stored_record_instances(ctx, em, rule):
    """every remain-margin computation of a chain step is made on the STORED record: the margin, the funding checkpoint
    and the size it reads are the loaded position's own fields - not those of a derived copy whose margin was already
    netted / clamped or whose checkpoint was already advanced (funding would then be settled twice, or the part of it
    that exceeds the margin would vanish before the bad-debt test)"""
    ix = ctx.ix
    n = 0
    for (st, root, depth, ckey) in sorted(em.steps.values(), key=lambda x: (x[3], x[2])):
        bad = None
        calls = 0
        for q in st.ok_paths():
            for e in em.remain_margin_calls(q):
                pa = [a_ for a_, i_ in zip(e.args, range(e.target.arg_count)) if "Position" in e.target.locals[i_ + 1]["ty"]]
                if not pa:
                    continue
                calls += 1
                P = pa[0]
                for fld in ("margin", "last_updated_premium_fraction", "size"):
                    fi = ix.inline(st.c(sym.field(P, fld)))
                    ok = tag(fi) == "field" and payload(fi)[0] == fld and em.is_position_value(kids(fi)[0])
                    # a record that was just cleared by the reversal (all three reset) is a stored record too
                    if not ok and fld == "margin" and N(ix, fi) == ("int", 0):
                        ok = True
                    if not ok and fld == "last_updated_premium_fraction" and N(ix, fi) == ("pos", ("int", 0)):
                        ok = True
                    if not ok and fld == "size" and N(ix, fi) == ("pos", ("int", 0)):
                        ok = True
                    if not ok:
                        bad = bad or "the settlement reads %s = %s" % (fld, sym.show(fi, 5)[:160])
        if calls:
            n += 1
            ctx.inst(rule, "settles-stored-record:%s:%s" % (short_fn(st.fn), st.label), bad is None, st.fn.where(),
                     "%d remain-margin computations; %s" % (calls, bad or "each on the stored record's own margin, checkpoint and size"))
    if n == 0:
        ctx.lost(rule, "remain-margin computations on the chain steps")


def liquidator_is_sender_instance(ctx, em, rule):
    """the liquidator a liquidation reply pays is the sender of this transaction: the Liquidate handler stores
    info.sender in the in-flight liquidator slot unconditionally on every success path (shared by C03 / C06)"""
    st = em.exec_step("Liquidate")
    if st is None:
        ctx.lost(rule, "Liquidate")
        return
    bad = None
    n_p = 0
    for q in st.ok_paths():
        n_p += 1
        good = False
        for wr in st.writes(q):
            if wr["item"] != "margined_engine:tmp-liquidator":
                continue
            if wr["kind"] == "write" and wr["must"] and wr["value"] is not None and st.c(wr["value"]) == st.sender:
                good = True
            elif wr["kind"] == "write":
                bad = bad or ("the slot is written %s with %s" % ("conditionally" if not wr["must"] else "unconditionally", sym.show(st.c(wr["value"]), 5) if wr["value"] is not None else "?"))
        if not good:
            bad = bad or "a success path does not (unconditionally) store info.sender as the liquidator"
    ctx.inst(rule, "liquidator-is-sender:%s" % st.label, bad is None and n_p > 0, st.fn.where(),
             bad or "%d success paths, each stores info.sender into the liquidator slot unconditionally" % n_p)
