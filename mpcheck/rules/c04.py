"""C04 — Closing pays exactly the position's equity; bad debt cannot be cashed out."""
from .. import sym, guards, arms, model, norm
from ..sym import tag, payload, kids
from ..norm import N, match, hole, anyhole
from .common import *
from .em import *

EXPLANATION = ("R04.1 the close and partial-close replies succeed only with bad_debt == 0 of their remain-margin result; R04.2 the close "
               "reply removes the position on every success path; R04.3 payout = remain-margin(position, margin_delta).margin + "
               "tmp.unrealized_pnl with margin_delta = output - open_notional (long) / open_notional - output (short), and the whole-"
               "close path stores unrealized_pnl = 0 and open_notional = position.notional in the in-flight record; R04.4 the "
               "liquidation reply uses the same margin_delta table; R04.5 whoever emits an insurance-fund Withdraw for a shortfall adds "
               "exactly that amount to State.prepaid_bad_debt, and every handler that lets State be mutated stores it afterwards. R04.8 the vault balance that sizes insurance draws and payouts is the engine's own balance of config.eligible_collateral (balance query arms and every call site); R04.9 open-notional bookkeeping on increase."
               " R04.10 both close replies settle on the stored record loaded under the in-flight key."
               " R04.11 a partial close / reduce realises tmp.unrealized_pnl * |output| / |position.size|.")
NOT_DECIDED = "numeric exactness beyond formula identity; vault and insurance balances themselves."


def margin_delta_table(ix, em, st, outp):
    """{direction variant: normal form of the margin_delta handed to the remain-margin call}"""
    table = {}
    for q in st.ok_paths():
        rms = em.remain_margin_calls(q)
        if not rms:
            continue
        d = None

        def is_pos_direction(x):
            x = ix.inline(x)
            return tag(x) == "field" and payload(x)[0] == "direction" and em.is_position_value(kids(x)[0])
        for (at, o, _b, _l) in q.conds:
            ai = ix.inline(at)
            if tag(ai) == "op" and payload(ai)[0] == "discr" and isinstance(o, tuple) and o[0] == "variant":
                if is_pos_direction(kids(ai)[0]):
                    d = o[1]
            if tag(ai) == "op" and payload(ai)[0] == "discr" and isinstance(o, tuple) and o[0] == "other" and len(o[1]) == 1 and is_pos_direction(kids(ai)[0]):
                d = "RemoveFromAmm" if o[1][0] == "AddToAmm" else "AddToAmm"
            if tag(ai) == "op" and payload(ai)[0] in ("eq", "ne") and len(kids(ai)) == 2 and o in (True, False):
                # `if direction == Direction::AddToAmm {..} else {..}` spells the same two-way decision
                for u, v in ((kids(ai)[0], kids(ai)[1]), (kids(ai)[1], kids(ai)[0])):
                    if is_pos_direction(u) and tag(ix.inline(v)) == "agg" and not kids(ix.inline(v)):
                        var = payload(ix.inline(v))[1]
                        same = (payload(ai)[0] == "eq") == o
                        d = var if same else ("RemoveFromAmm" if var == "AddToAmm" else "AddToAmm")
        md = N(ix, rms[0].args[2])
        table.setdefault(d, set()).add(md)
    return table


def run(ctx):
    ix = ctx.ix
    w = ctx.world
    em = EM(ctx)
    ctx.rule("R04.1", "close / partial-close replies succeed only with zero bad debt", 2)
    ctx.rule("R04.2", "close reply removes the position on every success path", 1)
    ctx.rule("R04.3", "payout tree of the whole close; in-flight record of the whole close carries unrealized_pnl = 0, open_notional = position.notional", 3)
    ctx.rule("R04.4", "margin_delta table of the close reply equals that of the liquidation reply", 1)
    ctx.rule("R04.6", "funding is charged once: margin and checkpoint move together at every position store (same rule as R11.4)", 6)
    pairing_instances(ctx, em, "R04.6")
    ctx.rule("R04.5", "insurance draw for a shortfall is added to prepaid_bad_debt with the same operand; mutated State is stored", 6)

    r04_7(ctx, em)
    # ---- R04.9: the open notional the realised PnL is measured against is kept: an increase adds the order's quote
    # amount (the record's open_notional, the amount the SwapInput asked to trade) to the stored notional
    ctx.rule("R04.9", "open notional bookkeeping: the increase reply stores notional = loaded notional + the in-flight record's open_notional; the execute step records open_notional = the quote amount it asks the vAMM to swap", 3)
    for ckey in ("OpenPosition>id1", "OpenPosition>id3>id1"):
        st9 = em.reply_step(ckey)
        if st9 is None:
            ctx.lost("R04.9", ckey)
            continue
        bad9 = None
        n9 = 0
        for q in st9.ok_paths():
            sp = em.stored_position(st9, q)
            if not sp:
                continue
            nn = N(ix, st9.c(sym.field(sp[-1], "notional")))
            # (the step of this chain is the increase arm: the reply id is bound to the arm's constant)
            if match(("add", em.pos_field_leaf("notional"), em.tmp_leaf("open_notional")), nn) is not None:
                n9 += 1
            else:
                bad9 = bad9 or "the increasing store writes notional = %s" % norm.show(nn)[:200]
        ctx.inst("R04.9", "notional-on-increase:%s" % ckey, bad9 is None and n9 > 0, st9.fn.where(), bad9 or "%d increasing stores: notional = position.notional + tmp.open_notional" % n9)
    ex9 = em.exec_step("OpenPosition")
    if ex9 is None:
        ctx.lost("R04.9", "OpenPosition execute step")
    else:
        bad9 = None
        n9 = 0
        for q in ex9.ok_paths():
            tv = em.stored_tmp(ex9, q)
            for s_ in em.emitted(q):
                if s_.id_int() != 1 or s_.reply_on_name() != "Always":
                    continue
                mv = ix.msg_variant(s_.inner_msg())
                if not mv or mv[1] != "SwapInput" or not tv:
                    continue
                n9 += 1
                if N(ix, ex9.c(mv[2]["quote_asset_amount"])) != N(ix, ex9.c(sym.field(tv[-1], "open_notional"))):
                    bad9 = bad9 or "the increase asks the vAMM to swap %s but records open_notional = %s" % (
                        norm.show(N(ix, ex9.c(mv[2]["quote_asset_amount"])))[:120], norm.show(N(ix, ex9.c(sym.field(tv[-1], "open_notional"))))[:120])
        ctx.inst("R04.9", "recorded-notional-is-swapped-quote:OpenPosition", bad9 is None and n9 > 0, ex9.fn.where(),
                 bad9 or "%d increase emissions: SwapInput.quote_asset_amount == recorded open_notional" % n9)
    # ---- R04.11: what a partial close (and a reduce through OpenPosition) realises: the record's unrealised pnl times
    # the fraction of the position that was exchanged, both as magnitudes - |output| / |position.size| - whatever the side
    # (round-12 seed C04o divided by the signed size in the partial-close reply: for a short the loss was booked as a gain,
    # the margin inflated and the bad-debt rejection never fired)
    ctx.rule("R04.11", "a partial close / reduce realises tmp.unrealized_pnl * |output| / |position.size| (magnitudes on both sides of the fraction)", 2)
    for ckey in ("ClosePosition>id5", "OpenPosition>id2"):
        st11 = em.reply_step(ckey)
        if st11 is None:
            ctx.lost("R04.11", ckey)
            continue
        _inp, outp11 = em.reply_io(st11)
        out_n = N(ix, st11.c(outp11)) if outp11 is not None else None
        bad11 = None
        n11 = 0
        for q in st11.ok_paths():
            for e in em.remain_margin_calls(q):
                md = N(ix, st11.c(e.args[-1]))
                if md == ("pos", ("int", 0)) or md == ("int", 0):
                    # (an empty position realises nothing - only on a path that has established size == 0)
                    continue
                xh = anyhole("exchanged")
                mm = match(("idiv", ("imul", em.tmp_leaf("unrealized_pnl"), ("abs", xh)), ("abs", em.pos_field_leaf("size"))), md)
                if mm is None:
                    bad11 = bad11 or "the realised pnl is %s" % norm.show(md)[:220]
                    continue
                xv = mm.get("exchanged")
                if out_n is not None and xv not in (("pos", out_n), ("neg", out_n), out_n):
                    bad11 = bad11 or "the exchanged amount in the close ratio is %s, not the swap's output" % norm.show(xv)[:160]
                    continue
                n11 += 1
        ctx.inst("R04.11", "realised-pnl:%s" % ckey, bad11 is None and n11 > 0, st11.fn.where(),
                 bad11 or "%d settlements: tmp.unrealized_pnl * |output| / |position.size|" % n11)

    # ---- R04.12: the open notional a reduced position keeps (what the NEXT close measures its pnl against):
    #   long : position_notional - open_notional - (unrealized_pnl - realised)
    #   short: position_notional - open_notional + (unrealized_pnl - realised)
    # compared as a signed linear combination of its four leaves (operand order and grouping are free), `realised` being
    # the figure R04.11 decides.  (Blind sweep: four sign flips in these two formulas were reported by nothing.)
    ctx.rule("R04.12", "a reduce / partial close stores notional = |position_notional - open_notional -/+ (unrealized_pnl - realised)| (minus for a long, plus for a short)", 2)

    def _lin(n, sign, acc):
        if isinstance(n, tuple) and n and n[0] in ("iadd", "add") and len(n) == 3:
            _lin(n[1], sign, acc)
            _lin(n[2], sign, acc)
        elif isinstance(n, tuple) and n and n[0] in ("isub", "sub") and len(n) == 3:
            _lin(n[1], sign, acc)
            _lin(n[2], -sign, acc)
        elif isinstance(n, tuple) and n and n[0] == "pos" and len(n) == 2:
            _lin(n[1], sign, acc)
        elif isinstance(n, tuple) and n and n[0] in ("neg", "inv") and len(n) == 2:
            _lin(n[1], -sign, acc)
        elif n == ("int", 0):
            pass
        else:
            acc[n] = acc.get(n, 0) + sign
        return acc

    for ckey in ("ClosePosition>id5", "OpenPosition>id2"):
        st12 = em.reply_step(ckey)
        if st12 is None:
            ctx.lost("R04.12", ckey)
            continue
        bad12 = None
        n12 = 0
        for q in st12.ok_paths():
            sps = em.stored_position(st12, q)
            if not sps:
                continue
            nn = N(ix, st12.c(sym.field(sps[-1], "notional")))
            if not (isinstance(nn, tuple) and nn and nn[0] in ("mag", "abs") and len(nn) == 2):
                bad12 = bad12 or "the reduced position's notional is %s" % norm.show(nn)[:200]
                continue
            terms = {k_: c_ for k_, c_ in _lin(nn[1], 1, {}).items() if c_}
            # classify the leaves
            got = {}
            other = None
            for k_, c_ in terms.items():
                if match(em.tmp_leaf("position_notional"), k_) is not None:
                    got["position_notional"] = c_
                elif match(em.tmp_leaf("open_notional"), k_) is not None:
                    got["open_notional"] = c_
                elif match(em.tmp_leaf("unrealized_pnl"), k_) is not None:
                    got["unrealized_pnl"] = c_
                elif match(("idiv", ("imul", em.tmp_leaf("unrealized_pnl"), ("abs", anyhole("x"))), ("abs", em.pos_field_leaf("size"))), k_) is not None:
                    got["realised"] = c_
                else:
                    other = k_
            if other is not None:
                bad12 = bad12 or "the reduced position's notional has an unexpected term %s" % norm.show(other)[:160]
                continue
            # which side: the path's test of the position's size against zero
            long_side = None
            for (k2, x2, o2) in sign_tests(ix, [(ix.inline(st12.c(c[0])), c[1]) for c in q.conds]):
                if em.is_position_value(kids(ix.inline(x2))[0]) if tag(ix.inline(x2)) == "field" and payload(ix.inline(x2))[0] == "size" else False:
                    if k2 == "is_negative" and o2 is True:
                        long_side = False
                    if k2 == "is_negative" and o2 is False and long_side is None:
                        long_side = True
            for (at, o, _b, _l) in q.conds:
                ai = ix.inline(st12.c(at))
                if tag(ai) == "op" and payload(ai)[0] == "gt" and o in (True, False) and len(kids(ai)) == 2:
                    l_ = ix.inline(kids(ai)[0])
                    if tag(l_) == "field" and payload(l_)[0] == "size" and em.is_position_value(kids(l_)[0]):
                        long_side = bool(o)
            if long_side is None:
                bad12 = bad12 or "no test of the position's side on a reducing path"
                continue
            want = {"position_notional": 1, "open_notional": -1, "unrealized_pnl": -1 if long_side else 1}
            if "realised" in got:
                want["realised"] = 1 if long_side else -1
            if got != want:
                bad12 = bad12 or "%s side stores notional with signs %s, expected %s" % ("long" if long_side else "short", sorted(got.items()), sorted(want.items()))
                continue
            n12 += 1
        ctx.inst("R04.12", "kept-notional:%s" % ckey, bad12 is None and n12 > 0, st12.fn.where(),
                 bad12 or "%d reducing stores: |position_notional - open_notional -/+ (unrealized_pnl - realised)|" % n12)

    ctx.rule("R04.10", "every settlement (remain-margin computation) of a chain step is made on the stored record: its own margin, funding checkpoint and size - not a copy already netted of funding or clamped (the bad-debt test would not see what exceeds the margin)", 6)
    settled_on_stored_record_instances(ctx, em, "R04.10")
    from .balance import balance_instances
    ctx.rule("R04.8", "the vault balance that sizes insurance draws and payouts is the engine's own balance of the collateral token: the balance query asks for (token, account) as given in both collateral arms, every engine call site passes (config.eligible_collateral, env.contract.address)", 3)
    balance_instances(ctx, "R04.8")

    close = em.reply_step("ClosePosition>id4")
    pclose = em.reply_step("ClosePosition>id5")
    liq = em.reply_step("Liquidate>id6")
    for name, st in (("close", close), ("partial-close", pclose)):
        if st is None:
            ctx.lost("R04.1", "ClosePosition reply (%s)" % name)
            continue
        ctx.analysed["functions"].add(st.fn.pretty)
        bad = None
        for q in st.ok_paths():
            rms = em.remain_margin_calls(q)
            wanted = {st.c(sym.field(sym.unwrap(e.result), "bad_debt")) for e in rms}

            def zero_bad_debt(fs, wanted=wanted):
                # the guard may sit in the handler or in a `require_*` helper it propagates (facts are in entry terms)
                for (at, o) in fs:
                    if o is True and tag(at) in ("op", "call") and str(payload(at)[0]).split("::")[-1] == "is_zero" and len(kids(at)) == 1:
                        if ix.inline(kids(at)[0]) in wanted:
                            return True
                return False
            if not rms or not guards.path_satisfies(ix, q, zero_bad_debt, st.m):
                bad = bad or q
        ctx.inst("R04.1", "no-bad-debt:%s:%s" % (short_fn(st.fn), st.label), bad is None and bool(st.ok_paths()), st.fn.where(),
                 "%d success paths; %s" % (len(st.ok_paths()), "each has bad_debt == 0 of its remain-margin result" if bad is None else
                                          "a success path does not reject bad debt"))
    if close is not None:
        bad = [q for q in close.ok_paths() if not any(wr["must"] for wr in em.removed_position(close, q))]
        ctx.inst("R04.2", "close-removes:%s" % short_fn(close.fn), not bad and bool(close.ok_paths()), close.fn.where(),
                 "%d success paths; %s" % (len(close.ok_paths()), "position removed on all" if not bad else "a success path keeps the position"))
        # ---- R04.3
        inp, outp = em.reply_io(close)
        tb = margin_delta_table(ix, em, close, outp)
        out_leaf = hole("output", lambda v: v == outp)
        on_leaf = em.tmp_leaf("open_notional")
        want = {"AddToAmm": ("isub", ("pos", out_leaf), ("pos", on_leaf)), "RemoveFromAmm": ("isub", ("pos", on_leaf), ("pos", out_leaf))}
        bad = None
        for d, forms in tb.items():
            for f in forms:
                if d not in want or match(want[d], f) is None:
                    bad = bad or "direction %s: margin_delta = %s" % (d, norm.show(f))
        ctx.inst("R04.3", "margin-delta:%s" % short_fn(close.fn), bad is None and set(tb) == {"AddToAmm", "RemoveFromAmm"}, close.fn.where(),
                 bad or "long: output - tmp.open_notional; short: tmp.open_notional - output")
        # payout: withdraw amount = |pos(rm.margin) + tmp.unrealized_pnl|
        bad = None
        n = 0
        for q in close.ok_paths():
            rms = em.remain_margin_calls(q)
            for e in q.events:
                if e.target is None:
                    continue
                subs = [s for s in model.reachable_submsgs(ix, e.target, ix.param_map(e.target, e.args))]
                from .c03 import transfers_of
                pays = [t for s in subs for t in transfers_of(ix, s) if em.tmp(t[2], "trader")]
                if not pays or not any(a for a in e.args):
                    continue
                if "State" not in " ".join(e.target.locals[i + 1]["ty"] for i in range(e.target.arg_count)):
                    continue
                n += 1
                amounts = {N(ix, t[3]) for t in pays}
                rmv = sym.unwrap(rms[0].result) if rms else None
                WANT = ("mag", ("iadd", ("pos", hole("rm.margin", lambda v: rmv is not None and ix.inline(v) == ix.inline(sym.field(rmv, "margin")))),
                                em.tmp_leaf("unrealized_pnl")))
                for am in amounts:
                    if match(WANT, am) is None:
                        bad = bad or "trader is paid %s" % norm.show(am)
        ctx.inst("R04.3", "payout:%s" % short_fn(close.fn), bad is None and n > 0, close.fn.where(),
                 bad or "%d payout sites: |remain_margin.margin + tmp.unrealized_pnl| to tmp.trader" % n)
    # the in-flight record stored by the whole-close path
    ex = em.exec_step("ClosePosition")
    if ex is not None:
        bad = None
        n = 0
        for q in ex.ok_paths():
            ids = {s.id_int() for s in em.emitted(q) if s.reply_on_name() == "Always"}
            if 4 not in ids:
                continue
            for val in em.stored_tmp(ex, q):
                n += 1
                up = N(ix, sym.field(val, "unrealized_pnl"))
                on = ix.inline(sym.field(val, "open_notional"))
                on_ok = tag(on) == "field" and payload(on)[0] == "notional" and em.is_position_value(kids(on)[0])
                if up != ("pos", ("int", 0)) or not on_ok:
                    bad = bad or "whole close stores unrealized_pnl=%s open_notional=%s" % (norm.show(up), sym.show(on, 4))
        ctx.inst("R04.3", "whole-close-record", bad is None and n > 0, ex.fn.where(), bad or "%d stores: unrealized_pnl = 0, open_notional = position.notional" % n)
    # ---- R04.4
    if close is not None and liq is not None:
        t1 = margin_delta_table(ix, em, close, None)
        t2 = margin_delta_table(ix, em, liq, None)

        def shape(tb, st):
            inp, outp = em.reply_io(st)
            out = {}
            for d, forms in tb.items():
                out[d] = set()
                for f in forms:
                    def ren(n):
                        if n[0] == "leaf":
                            if n[1] == outp:
                                return ("leaf", "output")
                            if em.tmp(n[1], "open_notional"):
                                return ("leaf", "tmp.open_notional")
                            return n
                        if n[0] == "int":
                            return n
                        return (n[0],) + tuple(ren(x) for x in n[1:])
                    out[d].add(ren(f))
            return out
        s1, s2 = shape(t1, close), shape(t2, liq)
        ctx.inst("R04.4", "margin-delta-agreement", s1 == s2 and bool(s1), liq.fn.where(),
                 "close: %s ; liquidation: %s" % ({d: [norm.show(x) for x in v] for d, v in s1.items()}, {d: [norm.show(x) for x in v] for d, v in s2.items()}))
    # ---------------------------------------------------------------- R04.5
    # (a) functions that mutate State.prepaid_bad_debt through &mut State
    n5 = 0
    for f in sorted(w.crate_fns(ENG), key=lambda f: f.pretty):
        if f.derived or "::_::" in f.pretty or f.kind == "Closure":
            continue
        try:
            oks = ix.ok_paths(f)
        except Exception:
            continue
        touch = [p for p in oks if any(tag(v) == "rec" and "prepaid_bad_debt" in payload(v) for v in p.ptr_out.values())]
        has_withdraw = False
        bad = None
        for p in oks:
            drawn = []
            for s in em.emitted(p):
                mv = ix.msg_variant(s.inner_msg()) if s.inner_msg() is not None else None
                if mv and mv[1] == "Withdraw":
                    drawn.append(N(ix, mv[2]["amount"]))
            newv = None
            oldv = None
            for ptr, v in p.ptr_out.items():
                if tag(v) == "rec" and "prepaid_bad_debt" in payload(v):
                    newv = N(ix, sym.field(v, "prepaid_bad_debt"))
                    oldv = N(ix, sym.field(ptr, "prepaid_bad_debt"))
            if not touch:
                continue
            if drawn:
                has_withdraw = True
            if "realize" in f.name:
                pass
            # shortfall draw: new = old + drawn ; realisation: new = old - x or 0 (with the draw = x - old)
            if drawn and newv is not None:
                d = drawn[0]
                if newv == ("add", oldv, d) or newv == ("add", d, oldv):
                    continue
                if newv == ("int", 0) and d == ("sub", [x for x in [d[1]]][0], oldv) if d[0] == "sub" else False:
                    continue
                bad = bad or "draws %s from the insurance fund but sets prepaid_bad_debt = %s" % (norm.show(d), norm.show(newv))
            elif drawn and newv is None:
                bad = bad or "draws %s from the insurance fund without touching prepaid_bad_debt" % norm.show(drawn[0])
        if touch:
            n5 += 1
            ctx.inst("R04.5", "draw-recorded:%s" % short_fn(f), bad is None, f.where(),
                     bad or "every path that emits an insurance Withdraw accounts the same amount in prepaid_bad_debt")
    # (b) dirty-state flush: handlers that pass &mut State to such a function store State afterwards on every success path
    for (st, root, depth, ckey) in sorted(em.steps.values(), key=lambda x: (x[3], x[2])):
        bad = None
        n = 0
        for q in st.ok_paths():
            muts = []
            for i, e in enumerate(q.events):
                if e.target is None:
                    continue
                if any(tag(v) == "rec" and "prepaid_bad_debt" in payload(v) for p2 in ix.ok_paths(e.target) for v in p2.ptr_out.values()):
                    muts.append((i, e))
            if not muts:
                continue
            n += 1
            last_i = muts[-1][0]
            stored_after = False
            for j, e in enumerate(q.events):
                if j > last_i and ("write", STATE) in ix.event_effects(e)[1]:
                    # the stored value must derive from the mutated one
                    for wr in ix.writes_of_event(e):
                        if wr["item"] == STATE and wr["value"] is not None and muts[-1][1].result in set(sym.walk(wr["value"])):
                            stored_after = True
            if not stored_after:
                bad = bad or q
        if n:
            ctx.inst("R04.5", "state-flushed:%s:%s" % (short_fn(st.fn), st.label), bad is None, st.fn.where(),
                     "%d success paths mutate State through a bad-debt helper; %s" % (n, "each stores the mutated State afterwards" if bad is None else
                        "a success path drops the mutated State (prepaid_bad_debt update lost)"))


def _sign_tested(ix, em, st, q, X):
    """the path facts (own, or those of callees q relies on) contain a sign test of the signed quantity X:
    a comparison with X as one operand, or Integer::is_negative / is_positive of X"""
    nx = N(ix, st.c(X))

    def pred(fs):
        for (at, o) in fs:
            if tag(at) not in ("call", "op") or o not in (True, False):
                continue
            short = str(payload(at)[0]).split("::")[-1]
            ks = kids(at)
            if short in ("lt", "gt", "le", "ge") and len(ks) == 2 and nx in (N(ix, ks[0]), N(ix, ks[1])):
                return True
            if short in ("is_negative", "is_positive") and len(ks) == 1 and N(ix, ks[0]) == nx:
                return True
        # a branch on the raw sign flag of X (`x.negative` after destructuring) is a sign test too
        for (k_, x_, _o) in sign_tests(ix, [(at, o) for (at, o) in fs]):
            if k_ in ("is_negative", "is_positive") and N(ix, x_) == nx:
                return True
        return False
    return guards.path_satisfies(ix, q, pred, st.m)


def r04_7(ctx, em):
    """a payout of |X| for a signed X believes the sign of X is known: every transfer whose amount is the magnitude of
    a signed quantity needs a sign test of that quantity on the emitting path (the whole close is the one exception:
    X = remain_margin.margin + tmp.unrealized_pnl with the record's unrealized_pnl pinned to 0 by R04.3)"""
    ix = ctx.ix
    from .c03 import transfers_of
    ctx.rule("R04.7", "a transfer of the magnitude |X| of a signed quantity is preceded by a sign test of X (no bad debt paid out as if it were equity)", 4)
    for ckey in sorted(em.chains):
        st = em.chains[ckey][-1]
        sites = {}
        for q in st.ok_paths():
            for s in em.emitted(q):
                for (k, payer, recv, amount) in transfers_of(ix, s):
                    if recv is None or amount is None:
                        continue
                    n = N(ix, amount)
                    if not (isinstance(n, tuple) and len(n) == 2 and n[0] == "mag"):
                        continue
                    X = None
                    for z in sym.walk(ix.inline(amount)):
                        if N(ix, z) == n[1]:
                            X = z
                            break
                    if X is None:
                        sites.setdefault(norm.show(n)[:160], []).append("operand of the magnitude not found")
                        continue
                    whole_close = ckey == "ClosePosition>id4" and match(("iadd", ("pos", anyhole("rm.margin")), em.tmp_leaf("unrealized_pnl")), n[1]) is not None
                    ok = whole_close or _sign_tested(ix, em, st, q, X)
                    sites.setdefault(norm.show(n)[:160], []).append(None if ok else "no sign test of the signed amount on a path that pays its magnitude to %s" % sym.show(recv, 4))
        if not sites:
            continue
        bad = [b for bs in sites.values() for b in bs if b]
        ctx.inst("R04.7", "signed-payout:%s" % ckey, not bad, st.fn.where(),
                 (bad[0] + " (amounts: %s)" % sorted(sites)[:2]) if bad else "%d magnitude-of-signed amounts, each sign-tested on its path (or the whole-close amount with unrealized_pnl pinned to 0)" % len(sites))
