"""C02 — Engine positions mirror the vAMM's net position (A5-ii sign tables + A4 chains)."""
from .. import sym, guards, arms, model, norm
from ..sym import tag, payload, kids
from ..norm import N, match, hole, anyhole
from .common import *
from .em import *

EXPLANATION = ("R02.1 for every swap edge (emitting step -> vAMM swap -> reply step) and every assignment of the acting side and the "
               "position kind, the engine's size change has the sign of the vAMM's net-position change and its operand is the base "
               "amount of the swap (sign tables of side_to_direction / direction_to_side / position_to_side, the vAMM direction "
               "plumbing and the event-attribute mapping are all extracted from the code); R02.2 whole close, full liquidation and "
               "the first leg of a reversal swap out exactly position.size.value in the position's own direction and remove / zero the "
               "position; every success path of a swap reply stores or removes the position; R02.3 the attribute keys and `type` "
               "values the engine parses are the ones the vAMM swap / funding handlers emit; R02.4 reduce is chosen only when the "
               "position's spot value exceeds the order; R02.5 the direction stored with a changed size derives from the side that signs "
               "the change wherever the size grows (a zero-size record's direction is arbitrary) and is kept only where the size shrinks, "
               "so 'size > 0 iff direction == AddToAmm' is an inductive invariant of live records."
               " R02.7 every position store/remove is keyed by the acting (vamm, trader) pair.")
NOT_DECIDED = ("nothing numeric is involved beyond operand identity; the invariant is inductive over the analysed reply paths only "
               "(records written by other code would be reported by R10.1 / R02.2).")

VAMM = "margined_vamm"
LONG, SHORT = "long", "short"


class Abs:
    """evaluates Side/Direction-valued trees under an assignment {side: Buy|Sell|None, kind: long|short}"""

    def __init__(self, ctx, em, step, side, kind, tmp_side=None, dir_known=True):
        self.ctx, self.em, self.ix, self.step = ctx, em, ctx.ix, step
        self.side, self.kind, self.tmp_side = side, kind, tmp_side
        self.dir_known = dir_known   # False: the loaded record's direction is not assumed to follow its size (zero-size records)

    def leaf(self, v):
        ix = self.ix
        vi = ix.inline(v)
        st = self.step
        if hasattr(st, "msgfield") and st.s(vi) == st.msgfield("side"):
            return self.side
        if tag(vi) == "param" and st.s(vi) != vi:
            return self.leaf_entry(st.s(vi))
        if self.em.tmp(vi, "side"):
            return self.tmp_side
        if tag(vi) == "field" and payload(vi)[0] == "direction" and self.em.is_position_value(kids(vi)[0]):
            if not self.dir_known:
                return None
            return "AddToAmm" if self.kind == LONG else "RemoveFromAmm"
        if tag(vi) == "field" and payload(vi)[0] == "size" and self.em.is_position_value(kids(vi)[0]):
            return ("size", self.kind)
        return None

    def leaf_entry(self, v):
        st = self.step
        if hasattr(st, "msgfield") and v == st.msgfield("side"):
            return self.side
        return None

    def ev(self, v, depth=8):
        ix = self.ix
        if depth <= 0:
            return None
        lf = self.leaf(v)
        if lf is not None:
            return lf
        vi = ix.inline(v)
        t = tag(vi)
        if t == "agg" and not kids(vi):
            return payload(vi)[1]
        if t == "call":
            fn = ix.call_target(vi)
            if fn is None:
                if payload(vi)[0].endswith("Integer::zero"):
                    return ("size", "zero")
                return None
            args = [self.ev(k, depth - 1) for k in kids(vi)]
            pm = {sym.param(fn.key, i, fn.param_name(i)): a for i, a in enumerate(args)}
            res = set()
            for p in ix.ok_paths(fn):
                ok = True
                for (at, o, _b, _l) in p.conds:
                    r = self.cond(at, o, pm)
                    if r is False:
                        ok = False
                        break
                if ok:
                    rv = p.ret
                    if rv in pm:
                        res.add(pm[rv])
                    elif tag(rv) == "agg" and not kids(rv):
                        res.add(payload(rv)[1])
                    else:
                        res.add(None)
            if len(res) == 1:
                return res.pop()
            return None
        return None

    def conds_feasible(self, conds, depth=3):
        """can the branch decisions `conds` (in the step's frame) all hold under this assignment of side and kind?
        Decides equalities / matches on sides and directions, sign tests of the position size, and - through their own
        paths - pure bool helpers such as `is_same_way(&position, &side)`."""
        ix = self.ix
        for c in conds:
            at, o = c[0], c[1]
            if tag(at) == "op" and payload(at)[0] in ("eq", "ne") and len(kids(at)) == 2 and o in (True, False):
                l, r = self.ev(kids(at)[0]), self.ev(kids(at)[1])
                if isinstance(l, str) and isinstance(r, str) and ((l == r) == (payload(at)[0] == "eq")) != o:
                    return False
            if tag(at) == "op" and payload(at)[0] in ("gt", "lt") and o in (True, False):
                l = self.ev(kids(at)[0])
                z = kids(at)[1]
                if isinstance(l, tuple) and l[0] == "size" and tag(ix.inline(z)) == "call" and payload(ix.inline(z))[0].endswith("Integer::zero"):
                    val = (l[1] == LONG) if payload(at)[0] == "gt" else (l[1] == SHORT)
                    if val != o:
                        return False
            if tag(at) == "op" and payload(at)[0] == "discr" and isinstance(o, tuple):
                dv = self.ev(kids(at)[0])
                if isinstance(dv, str) and ((o[0] == "variant" and dv != o[1]) or (o[0] == "other" and dv in o[1])):
                    return False
            a0, o0 = at, o
            while tag(a0) == "op" and payload(a0)[0] == "not" and o0 in (True, False):
                a0, o0 = kids(a0)[0], (not o0)
            if tag(a0) == "call" and o0 in (True, False) and depth > 0:
                fn = ix.call_target(a0)
                if fn is not None and fn.locals[0]["ty"] == "bool" and ix.ev.pure(fn):
                    m = ix.param_map(fn, kids(a0))
                    rets = set()
                    for p in ix.ok_paths(fn):
                        cs = [(sym.subst(x, m), y) for (x, y, _b, _l) in p.conds]
                        if not self.conds_feasible(cs, depth - 1):
                            continue
                        rv = ix.inline(sym.subst(p.ret, m))
                        if tag(rv) == "bool":
                            rets.add(bool(payload(rv)[0]))
                        elif tag(rv) == "op" and payload(rv)[0] in ("eq", "ne") and len(kids(rv)) == 2:
                            l, r = self.ev(kids(rv)[0]), self.ev(kids(rv)[1])
                            rets.add(((l == r) == (payload(rv)[0] == "eq")) if isinstance(l, str) and isinstance(r, str) else None)
                        else:
                            rets.add(None)
                    if rets and None not in rets and o0 not in rets:
                        return False
        return True

    def cond(self, at, o, pm):
        """truth of a callee branch under abstract parameters; None if unknown"""
        if tag(at) == "op" and payload(at)[0] == "discr" and kids(at)[0] in pm and isinstance(o, tuple):
            a = pm[kids(at)[0]]
            if a is None:
                return None
            if o[0] == "variant":
                return a == o[1]
            if o[0] == "other":
                return a not in o[1]
        if tag(at) == "op" and payload(at)[0] in ("gt", "lt") and len(kids(at)) == 2 and kids(at)[0] in pm:
            a = pm[kids(at)[0]]
            z = kids(at)[1]
            if isinstance(a, tuple) and a[0] == "size" and tag(z) == "call" and payload(z)[0].endswith("Integer::zero"):
                if a[1] == "zero":
                    val = False
                else:
                    val = (a[1] == LONG) if payload(at)[0] == "gt" else (a[1] == SHORT)
                return val == o
        return None


class _PV:
    """problem list tagged with the swap variant under analysis"""

    def __init__(self):
        self.items = []
        self.cur = None

    def append(self, p):
        self.items.append((self.cur, p))



def reduce_decision_instance(ctx, rule):
    """the reduce-vs-reverse decision of the open path compares the position's CURRENT SPOT notional with the order's
    notional (shared by C02: the stored direction stays right; and C17: the branch that forwards the caller's limit is
    taken exactly when the executable quote says the order is a reduction)"""
    ix = ctx.ix
    w = ctx.world
    # the size/direction invariant (and the limit forwarding) rely on the reduce-vs-reverse decision using the price the swap executes at
    bad = None
    n = 0
    where = ""
    for f in sorted(w.crate_fns(ENG), key=lambda f: f.pretty):
        if f.derived or "::_::" in f.pretty or f.kind == "Closure":
            continue
        try:
            oks = ix.ok_paths(f)
        except Exception:
            continue
        for p in oks:
            decides = [(at, o) for (at, o, _b, _l) in p.conds if tag(at) == "op" and payload(at)[0] in ("gt", "lt", "ge", "le")
                       and any(tag(ix.inline(k)) == "field" and payload(ix.inline(k))[0] == "position_notional" for k in kids(at))]
            if not decides:
                continue
            ids = set()
            for s in model.path_submsgs(ix, p):
                if s.reply_on_name() == "Always":
                    ids |= ({s.id_int()} if s.id_int() is not None else s.id_options())
            if 2 not in ids or 3 in ids:
                # only the paths that (may) reduce; a path that builds both is the undecided caller
                if not (ids == {2} or (2 in ids and any(tag(x) == "int" and payload(x)[0] == "2" for e in p.events for x in e.args))):
                    continue
            if 3 in ids and 2 in ids:
                continue
            n += 1
            where = f.where()
            for (at, o) in decides:
                l, r = kids(at)
                li = ix.inline(l)
                spot = False
                if tag(li) == "field" and payload(li)[0] == "position_notional":
                    c = kids(li)[0]
                    while tag(c) in ("unwrap", "ok"):
                        c = kids(c)[0]
                    spot = tag(c) == "call" and any(tag(a) == "agg" and payload(a)[1] == "SpotPrice" for a in kids(c))
                passing = (payload(at)[0] == "gt" and o is True) or (payload(at)[0] == "le" and o is False)
                if not (spot and passing):
                    bad = bad or "%s decides reduce on %s == %s" % (f.pretty, sym.show(ix.inline(at), 5), o)
    ctx.inst(rule, "reduce-decision-at-spot", bad is None and n > 0, where,
             "%d reducing paths; %s" % (n, "each established spot position_notional > order notional" if bad is None else
                bad + ": an order larger than the position can then cross zero with a stale direction"))

def run(ctx):
    ix = ctx.ix
    w = ctx.world
    em = EM(ctx)
    ctx.rule("R02.1", "sign and operand of the engine's size change agree with the vAMM's net-position change on every swap edge and assignment", 9)
    ctx.rule("R02.2", "whole-position swaps use size.value in the position's direction and remove / zero the position; swap replies always store or remove", 9)
    ctx.rule("R02.3", "event attribute keys and type values: engine parser vs vAMM emitters", 3)
    ctx.rule("R02.5", "the direction stored with a changed size follows the sign of that size: taken from the acting side where the size grows (the old size may be zero), kept only where it shrinks", 5)

    # ---------------------------------------------------------------- vAMM side tables
    delta = {}   # (variant, direction) -> '+' / '-'
    attrs = {}   # variant -> {key: tree class}
    for variant in ("SwapInput", "SwapOutput"):
        try:
            a = arms.Arm(ix, VAMM, variant)
        except KeyError as e:
            ctx.lost("R02.1", str(e))
            return
        d = a.msgfield("direction")
        # a direction computed by a helper (e.g. `opposite(direction)`) is opened up so that the writer's argument is a literal
        for q in splice(ix, a.ok_paths(), lambda e: e.target.locals[0]["ty"].endswith("margined_vamm::Direction")):
            known = None
            for (at, o, _b, _l) in q.conds:
                a2 = a.s(at)
                if tag(a2) == "op" and payload(a2)[0] == "discr" and kids(a2)[0] == d and o[0] == "variant":
                    known = o[1]
                if tag(a2) == "op" and payload(a2)[0] == "eq" and d in kids(a2) and o is True:
                    for k in kids(a2):
                        if tag(k) == "agg":
                            known = payload(k)[1]
            for e in q.events:
                if e.target is None or ("write", "margined_vamm:state") not in ix.event_effects(e)[0]:
                    continue
                args = [a.s(x) for x in e.args]
                wd = None
                if d in args:
                    wd = "same"
                for x in args:
                    if tag(x) == "agg" and payload(x)[0].endswith("margined_vamm::Direction"):
                        wd = payload(x)[1]
                for dirv in ("AddToAmm", "RemoveFromAmm"):
                    if known is not None and known != dirv:
                        continue
                    eff = dirv if wd == "same" else wd
                    if eff is None:
                        continue
                    # reserve writer table (R01.2): AddToAmm -> tps + base, RemoveFromAmm -> tps - base
                    delta.setdefault((variant, dirv), set()).add("+" if eff == "AddToAmm" else "-")
            # emitted attributes
            for v in sym.walk(ix.inline(q.ret)):
                if tag(v) == "tuple" and len(kids(v)) == 2 and tag(kids(v)[0]) == "const":
                    key = payload(kids(v)[0])[1].strip('"')
                    val = kids(v)[1]
                    attrs.setdefault(variant, {}).setdefault(key, set()).add(payload(val)[1].strip('"') if tag(val) == "const" else
                                                                             ("msg." + payload(a.s(val))[0] if tag(a.s(val)) == "field" and kids(a.s(val)) and tag(kids(a.s(val))[0]) == "as" else "computed"))
    want_delta = {("SwapInput", "AddToAmm"): {"+"}, ("SwapInput", "RemoveFromAmm"): {"-"}, ("SwapOutput", "AddToAmm"): {"-"}, ("SwapOutput", "RemoveFromAmm"): {"+"}}
    ctx.inst("R02.1", "vamm-delta-table", delta == want_delta, "", "net position change per (swap kind, direction): %s" % {str(k): sorted(v) for k, v in sorted(delta.items())})

    # ---------------------------------------------------------------- R02.3 parser table
    parse_fn = None
    rt = model.ReplyTable(ix, ENG)
    for p in rt.ok.get("1", []):
        for e in p.events:
            if e.target is not None and rt.msg is not None and any(rt.msg in set(sym.walk(x)) for x in e.args) and "DepsMut" not in " ".join(e.target.locals[i + 1]["ty"] for i in range(e.target.arg_count)):
                parse_fn = e.target
    base_component = {}
    if parse_fn is None:
        ctx.lost("R02.3", "engine swap-event parser")
    else:
        keys_read = set()
        types = {}
        for p in ix.ok_paths(parse_fn):
            ty = None
            for (at, o, _b, _l) in p.conds:
                if tag(at) == "op" and payload(at)[0] == "eq" and o is True:
                    for k in kids(at):
                        if tag(k) == "const" and payload(k)[1].strip('"') in ("input", "output"):
                            ty = payload(k)[1].strip('"')
            r = sym.unwrap(p.ret)
            comp = {}
            for idx in ("0", "1"):
                c = sym.field(r, idx)
                ks = [payload(x)[1].strip('"') for x in sym.walk(c) if tag(x) == "const" and payload(x)[1].strip('"').endswith("_asset_amount")]
                comp[idx] = ks[0] if ks else None
                keys_read |= set(ks)
            if ty:
                types[ty] = comp
                base_component[ty] = "input" if comp.get("0") == "base_asset_amount" else "output" if comp.get("1") == "base_asset_amount" else None
        emitted_types = {"SwapInput": attrs.get("SwapInput", {}).get("type"), "SwapOutput": attrs.get("SwapOutput", {}).get("type")}
        ok = emitted_types == {"SwapInput": {"input"}, "SwapOutput": {"output"}} and set(types) == {"input", "output"} and \
            all(k in attrs.get("SwapInput", {}) and k in attrs.get("SwapOutput", {}) for k in keys_read | {"type"})
        ctx.inst("R02.3", "swap-attributes", ok, parse_fn.where(), "parser: %s ; vAMM emits type %s with keys %s" % (types, emitted_types, sorted(attrs.get("SwapInput", {}))))
        # base/quote identity of the emitted values
        okv = attrs.get("SwapInput", {}).get("quote_asset_amount") == {"msg.quote_asset_amount"} and attrs.get("SwapOutput", {}).get("base_asset_amount") == {"msg.base_asset_amount"} \
            and attrs.get("SwapInput", {}).get("base_asset_amount") == {"computed"} and attrs.get("SwapOutput", {}).get("quote_asset_amount") == {"computed"}
        ctx.inst("R02.3", "swap-attribute-values", okv, "", "SwapInput emits quote=requested, base=priced; SwapOutput emits base=requested, quote=priced: %s" % okv)
    # funding attributes
    try:
        sf = arms.Arm(ix, VAMM, "SettleFunding")
        fkeys = set()
        for q in sf.ok_paths():
            for v in sym.walk(q.ret):
                if tag(v) == "tuple" and len(kids(v)) == 2 and tag(kids(v)[0]) == "const":
                    fkeys.add(payload(kids(v)[0])[1].strip('"'))
        pf_fn = None
        for p in rt.ok.get("8", []):
            for e in p.events:
                if e.target is not None and "DepsMut" not in " ".join(e.target.locals[i + 1]["ty"] for i in range(e.target.arg_count)):
                    pf_fn = e.target
        read = set()
        if pf_fn is not None:
            for p in ix.ok_paths(pf_fn):
                for x in sym.walk(p.ret):
                    if tag(x) == "const" and payload(x)[1].strip('"') in ("premium_fraction",):
                        read.add(payload(x)[1].strip('"'))
        ctx.inst("R02.3", "funding-attributes", "premium_fraction" in fkeys and read <= fkeys and bool(read), sf.fn.where(), "vAMM emits %s; engine reads %s" % (sorted(fkeys), sorted(read)))
    except KeyError as e:
        ctx.lost("R02.3", str(e))

    # ---------------------------------------------------------------- swap edges
    def base_operand(variant):
        ty = "input" if variant == "SwapInput" else "output"
        return base_component.get(ty)

    edges = []   # (chain key of reply, emitter step, reply step)
    for ckey, sts in em.chains.items():
        if len(sts) >= 2:
            edges.append((ckey, sts[-2], sts[-1]))
    seen_edge = set()
    for (ckey, est, rst) in sorted(edges, key=lambda x: x[0]):
        ident = rst.ident
        if ident == 8:
            continue
        root = ckey.split(">")[0]
        inp, outp = em.reply_io(rst)
        sides = ("Buy", "Sell") if root == "OpenPosition" else (None,)
        problems = _PV()
        dir_problems = []
        dir_checked = [0]
        checked = 0
        per_variant_checked = {}
        whole_ok = None
        for side in sides:
            for kind in (LONG, SHORT):
                # --- emitter: which messages with this id, and their direction under the assignment
                tmp_side_prev = None
                if len(em.chains[ckey]) > 2:
                    # chained leg after a reversal: the record keeps msg.side (R10.2/unchanged), position was zeroed
                    tmp_side_prev = side
                ea = Abs(ctx, em, est, side, kind, tmp_side_prev)
                for q in est.ok_paths():
                    # feasibility of the emitter path under the assignment (side/direction equalities, sign tests, bool helpers)
                    feas = ea.conds_feasible(q.conds)
                    if not feas:
                        continue
                    for s in em.emitted(q):
                        if s.id_int() != ident or s.reply_on_name() != "Always":
                            continue
                        mv = ix.msg_variant(s.inner_msg())
                        if not mv or mv[1] not in ("SwapInput", "SwapOutput"):
                            continue
                        variant = mv[1]
                        problems.cur = variant
                        dval = ea.ev(mv[2]["direction"])
                        if dval not in ("AddToAmm", "RemoveFromAmm"):
                            problems.append("direction of the emitted %s is not determined by (side=%s, %s): %s" % (variant, side, kind, sym.show(ix.inline(mv[2]["direction"]), 4)))
                            continue
                        dt = delta.get((variant, dval))
                        if not dt or len(dt) != 1:
                            problems.append("no vAMM table entry for %s/%s" % (variant, dval))
                            continue
                        dtps = list(dt)[0]
                        amount = mv[2]["quote_asset_amount" if variant == "SwapInput" else "base_asset_amount"]
                        whole = variant == "SwapOutput" and tag(ix.inline(amount)) == "field" and payload(ix.inline(amount))[0] == "value" and \
                            em.is_position_value(kids(kids(ix.inline(amount))[0])[0]) if tag(ix.inline(amount)) == "field" and kids(ix.inline(amount)) and tag(kids(ix.inline(amount))[0]) == "field" else False
                        # the in-flight side the reply will read
                        tmp_vals = em.stored_tmp(est, q)
                        tside = None
                        if tmp_vals:
                            tside = ea.ev(sym.field(tmp_vals[-1], "side"))
                        elif tmp_side_prev is not None:
                            tside = tmp_side_prev
                        # --- reply: size change under the same assignment
                        ra = Abs(ctx, em, rst, side, kind, tside)
                        for rq in rst.ok_paths():
                            feas = True
                            for (at, o, _b, _l) in rq.conds:
                                ai = ix.inline(at)
                                if tag(ai) == "op" and payload(ai)[0] == "discr" and isinstance(o, tuple) and em.tmp(kids(ai)[0], "side"):
                                    if tside is None:
                                        continue
                                    if (o[0] == "variant" and tside != o[1]) or (o[0] == "other" and tside in o[1]):
                                        feas = False
                                if tag(ai) == "op" and payload(ai)[0] in ("gt", "lt") and o in (True, False) and len(kids(ai)) == 2:
                                    l = ra.ev(kids(ai)[0])
                                    z = ix.inline(kids(ai)[1])
                                    if isinstance(l, tuple) and l[0] == "size" and tag(z) == "call" and payload(z)[0].endswith("Integer::zero"):
                                        val = (l[1] == LONG) if payload(ai)[0] == "gt" else (l[1] == SHORT)
                                        if val != o:
                                            feas = False
                                if tag(ai) == "call" and o in (True, False) and str(payload(ai)[0]).endswith(("Integer::is_negative", "Integer::is_positive")) and kids(ai):
                                    # `size.is_negative()` spells `size < 0`; `is_positive()` is its negation (zero counts as positive)
                                    l = ra.ev(kids(ai)[0])
                                    if isinstance(l, tuple) and l[0] == "size" and l[1] in (LONG, SHORT):
                                        neg = l[1] == SHORT
                                        val = neg if str(payload(ai)[0]).endswith("is_negative") else (not neg)
                                        if val != o:
                                            feas = False
                                if tag(ai) == "op" and payload(ai)[0] == "discr" and isinstance(o, tuple) and ra.ev(kids(ai)[0]) in ("AddToAmm", "RemoveFromAmm"):
                                    dv = ra.ev(kids(ai)[0])
                                    if (o[0] == "variant" and dv != o[1]) or (o[0] == "other" and dv in o[1]):
                                        feas = False
                            if not feas:
                                continue
                            stored = em.stored_position(rst, rq)
                            removed = em.removed_position(rst, rq)
                            if not stored and not removed:
                                problems.append("a success path of the reply neither stores nor removes the position")
                                continue
                            checked += 1
                            per_variant_checked[variant] = per_variant_checked.get(variant, 0) + 1
                            if removed or (stored and N(ix, sym.field(stored[-1], "size")) == ("pos", ("int", 0))):
                                # position removed / zeroed: the swap must have been the whole size in the position's direction
                                want_d = "AddToAmm" if kind == LONG else "RemoveFromAmm"
                                if not (variant == "SwapOutput" and whole and dval == want_d):
                                    problems.append("(side=%s,%s): position removed/zeroed but the swap was %s %s of %s" % (side, kind, variant, dval, "the whole size" if whole else "NOT the whole size"))
                                whole_ok = True if whole_ok is None else whole_ok
                                continue
                            sz = N(ix, rst.c(sym.field(stored[-1], "size")))
                            sign = None
                            opnd = None
                            if sz[0] in ("iadd", "isub") and len(sz) == 3:
                                tterm = sz[2]
                                if tterm[0] == "leaf" and not isinstance(tterm[1], str) and tag(tterm[1]) == "call" and ix.call_target(tterm[1]) is not None:
                                    # the signed amount comes out of a helper (e.g. `signed(side, amount)`): take the outcome that
                                    # is consistent with this assignment of the acting side
                                    cands = set()
                                    for (cp, ret, m_) in (ix.outcomes(tterm[1]) or []):
                                        feas2 = True
                                        for (cat, co, _b2, _l2) in cp.conds:
                                            ca = ix.inline(sym.subst(cat, m_))
                                            if tag(ca) == "op" and payload(ca)[0] == "discr" and isinstance(co, tuple) and (em.tmp(kids(ca)[0], "side") or rst.s(kids(ca)[0]) == getattr(rst, "msgfield", lambda _n: None)("side")):
                                                if tside is not None and ((co[0] == "variant" and tside != co[1]) or (co[0] == "other" and tside in co[1])):
                                                    feas2 = False
                                            # ... or a bool the caller computed from the side (`signed(amount, side == Side::Sell)`)
                                            if feas2 and not ra.conds_feasible([(ca, co)]):
                                                feas2 = False
                                        if feas2:
                                            cands.add(N(ix, rst.c(ret)))
                                    if len(cands) == 1:
                                        tterm = cands.pop()
                                if tterm[0] in ("pos", "neg") and tterm[1][0] == "leaf":
                                    sgn = "+" if tterm[0] == "pos" else "-"
                                    if sz[0] == "isub":
                                        sgn = "-" if sgn == "+" else "+"
                                    sign = sgn
                                    leafv = tterm[1][1]
                                    opnd = "input" if leafv == rst.c(inp) else "output" if leafv == rst.c(outp) else sym.show(leafv, 4)
                            if sign is None:
                                problems.append("(side=%s,%s): stored size %s is not old size +/- a swap amount" % (side, kind, norm.show(sz)))
                                continue
                            bo = base_operand(variant)
                            if opnd != bo:
                                problems.append("(side=%s,%s): size changes by the swap's `%s` but the base amount of a %s is `%s`" % (side, kind, opnd, variant, bo))
                            if sign != dtps:
                                problems.append("(side=%s,%s): engine size %s, vAMM net position %s (message %s %s)" % (side, kind, sign, dtps, variant, dval))
                            # ---- R02.5: the direction stored with the new size.  A live record's direction follows its size
                            # (long <=> AddToAmm), a zero-size record's direction is arbitrary (fresh default, left over by an
                            # exact reversal).  On a path where the size grows in the acting side's direction the old size may be
                            # zero, so the stored direction must come from the side that signs the change, not from the record.
                            dtree = sym.field(stored[-1], "direction")
                            d_free = Abs(ctx, em, rst, side, kind, tside, dir_known=False).ev(dtree)
                            grows = sign == ("+" if kind == LONG else "-")
                            dir_checked[0] += 1
                            if d_free in ("AddToAmm", "RemoveFromAmm"):
                                if (d_free == "AddToAmm") != (sign == "+"):
                                    dir_problems.append("(side=%s,%s): size changes by %s but the stored direction is %s" % (side, kind, sign, d_free))
                            else:
                                d_as = ra.ev(dtree)
                                if d_as not in ("AddToAmm", "RemoveFromAmm"):
                                    dir_problems.append("(side=%s,%s): stored direction %s is not determined" % (side, kind, sym.show(ix.inline(rst.c(dtree)), 4)))
                                elif grows:
                                    dir_problems.append("(side=%s,%s): the size grows by the acting side's amount but the stored direction is the loaded record's (%s): "
                                                        "a zero-size record left by an exact reversal keeps a stale direction" % (side, kind, sym.show(ix.inline(rst.c(dtree)), 4)))
        uniq = sorted(set(p for (_v, p) in problems.items))
        for variant in sorted(set(per_variant_checked) | {v for (v, _p) in problems.items if v}):
            pv = sorted(set(p for (v, p) in problems.items if v == variant))
            ctx.inst("R02.1", "edge:%s:%s" % (ckey, variant), not pv and per_variant_checked.get(variant, 0) > 0, rst.fn.where(),
                     "%d (assignment, emitter path, reply path) combinations checked; %s" % (per_variant_checked.get(variant, 0), "; ".join(pv[:4]) or "sign and operand agree in all"))
        if not per_variant_checked and not problems.items:
            ctx.inst("R02.1", "edge:%s" % ckey, False, rst.fn.where(), "no swap message / reply path combination could be evaluated")
        if dir_checked[0]:
            dp = sorted(set(dir_problems))
            ctx.inst("R02.5", "stored-direction:%s" % ckey, not dp, rst.fn.where(),
                     "%d stores of a changed size checked; %s" % (dir_checked[0], "; ".join(dp[:3]) or "direction derives from the side that signs the change, or the size shrinks"))
        if whole_ok:
            ctx.inst("R02.2", "whole-swap:%s" % ckey, not any("removed/zeroed" in p for p in uniq), rst.fn.where(),
                     "position removed/zeroed only after SwapOutput of size.value in the position's own direction")
    ctx.rule("R02.4", "reduce (instead of close-and-reverse) is chosen only when the position's SPOT value exceeds the order notional; the partial fractions are validated <= 1", 2)
    reduce_decision_instance(ctx, "R02.4")
    # the fractions used for partial close / partial liquidation cannot exceed 1 (else the swap exceeds the position)
    from . import c20 as _c20
    from ..core import Ctx as _Ctx
    sub = _Ctx("C20", ctx.world, ctx.tier)   # its own engine instance: C20's rules rely on pure-helper expansion, C02's sign tables do not use it
    try:
        _c20.run(sub)
    except Exception as e:
        ctx.undetermined("R02.4", "partial-ratio-validated", str(e))
    hit = [i for i in sub.insts if i.key.startswith("R20.1:validated:margined_engine::") and i.key.endswith(":partial_liquidation_ratio")]
    ctx.inst("R02.4", "partial-ratio-validated", bool(hit) and all(i.ok for i in hit), "",
             "; ".join("%s: %s" % (i.key, i.status) for i in hit) or "the C20 instance for partial_liquidation_ratio was not enumerated")

    # ---- R02.6: the position getter the replies use.  The sign tables above read `position.direction` / `position.size` of
    # what it returns as the STORED record's; that holds only if the getter hands the stored record back unchanged when there
    # is one, and otherwise a fresh record that differs from the default only in its identity, the direction of the acting
    # side and the block stamp (size, margin, notional and checkpoint stay zero)
    ctx.rule("R02.6", "the position getter returns the stored record unchanged when it exists; otherwise the default record with vamm / trader / direction (from the acting side) / block stamp set and nothing else", 1)
    getters = []
    for f in sorted(w.crate_fns(ENG), key=lambda f: f.pretty):
        if f.derived or "::_::" in f.pretty or f.kind == "Closure" or not f.locals[0]["ty"].endswith("margined_engine::Position"):
            continue
        if not any("Side" in f.locals[i + 1]["ty"] for i in range(f.arg_count)):
            continue
        try:
            oks = ix.ok_paths(f)
        except Exception:
            continue
        if any(load_key(ix, x) is not None for p in oks for x in sym.walk(ix.inline(p.ret))):
            getters.append(f)
    if not getters:
        ctx.lost("R02.6", "the position getter (returns a Position, takes the acting Side, loads the position item)")
    for f in getters:
        ctx.analysed["functions"].add(f.pretty)
        badg = None
        kinds = set()
        params = [sym.param(f.key, i, f.param_name(i)) for i in range(f.arg_count)]
        sidep = [sym.param(f.key, i, f.param_name(i)) for i in range(f.arg_count) if "Side" in f.locals[i + 1]["ty"]]
        for p in ix.ok_paths(f):
            r = ix.inline(p.ret)
            exists = None
            for (at, o, _b, _l) in p.conds:
                ai = ix.inline(at)
                if tag(ai) == "op" and payload(ai)[0] == "eq" and o in (True, False) and len(kids(ai)) == 2:
                    for x, y in (kids(ai), kids(ai)[::-1]):
                        xi = ix.inline(x)
                        if tag(xi) == "field" and payload(xi)[0] in ("vamm", "trader") and load_key(ix, kids(xi)[0]) is not None and \
                           ((tag(y) == "const" and payload(y)[1] in ('""', "")) or 'unchecked("")' in sym.show(y, 3) or sym.show(y, 2) in ('""', "")):
                            exists = not o
            if exists is None:
                badg = badg or "a path does not decide whether a stored record exists (empty identity of the loaded value)"
                continue
            # field-wise comparison with the loaded record (works for in-place updates, struct-update and full literals)
            L = next((x for x in sym.walk(r) if load_key(ix, x) is not None and tag(x) != "field"), None)
            adt = w.adts.get("margined_perp::margined_engine::Position")
            names = [fl["name"] for fl in adt["variants"][0]["fields"]] if adt and adt.get("variants") else \
                ["vamm", "trader", "direction", "size", "margin", "notional", "last_updated_premium_fraction", "block_number"]
            if L is None:
                badg = badg or "the returned record is not built from the loaded one: %s" % sym.show(r, 4)[:160]
                continue
            over = {nm_: ix.inline(sym.field(r, nm_)) for nm_ in names if ix.inline(sym.field(r, nm_)) != ix.inline(sym.field(L, nm_))}
            if exists:
                kinds.add("stored")
                if over:
                    badg = badg or "an existing record is returned with %s changed" % sorted(over)
            else:
                kinds.add("fresh")
                extra = set(over) - {"vamm", "trader", "direction", "block_number"}
                if extra:
                    badg = badg or "the fresh record also sets %s" % sorted(extra)
                for nm_ in ("vamm", "trader"):
                    if nm_ in over and over[nm_] not in params:
                        badg = badg or "fresh record: %s = %s is not the requested key" % (nm_, sym.show(over[nm_], 4))
                if "direction" in over:
                    d_ = over["direction"]
                    if not (sidep and sidep[0] in set(sym.walk(d_)) and tag(d_) == "call"):
                        badg = badg or "fresh record: direction = %s is not derived from the acting side" % sym.show(d_, 4)
                else:
                    badg = badg or "fresh record: direction is not set from the acting side"
        ctx.inst("R02.6", "getter:%s" % short_fn(f), badg is None and kinds == {"stored", "fresh"}, f.where(),
                 badg or "stored record returned unchanged; fresh record = default + (vamm, trader, direction(side), block stamp)")

    # every success path of a swap reply stores or removes the position
    for ckey, sts in sorted(em.chains.items()):
        if len(sts) < 2 or sts[-1].ident == 8:
            continue
        rst = sts[-1]
        bad = [q for q in rst.ok_paths() if not em.stored_position(rst, q) and not em.removed_position(rst, q)]
        mustbad = [q for q in rst.ok_paths() if not any(wr["must"] for wr in rst.writes(q) if wr["item"] == POS)]
        ctx.inst("R02.2", "reply-updates-position:%s" % ckey, not bad and not mustbad, rst.fn.where(),
                 "%d success paths; %s" % (len(rst.ok_paths()), "each stores or removes the position" if not bad and not mustbad else
                    "a success path leaves the stored position untouched although the vAMM swap is committed"))


    # ---------------------------------------------------------------- R02.7
    # "for every vAMM": a record belongs to the market whose swap sized it only if its storage key carries that market -
    # every position store / remove hashes (the acting vamm, the acting trader).  A key that drops the vAMM bytes merges
    # one trader's records on two markets (round-10 seed C02m).  Same rule as R10.1.
    from .c10 import poskey_instances
    ctx.rule("R02.7", "every position store / remove is keyed by the acting (vamm, trader) pair", 9)
    poskey_instances(ctx, "R02.7")
