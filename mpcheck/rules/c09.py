"""C09 — Privileged operations are restricted to their role in all five contracts."""
from .. import sym, guards
from ..sym import tag, payload, kids
from .common import *

EXPLANATION = ("R09.1 on every success path of each privileged execute arm a role fact about info.sender holds (admin check against the "
               "tabled Admin item, equality with the tabled Config field, or a tabled disjunction); R09.2 every ExecuteMsg variant of the "
               "five contracts is classified; R09.3 the storage slot a guard reads is written only by instantiate and by the arm that "
               "transfers that role; R09.4 the non-owner role fields of Config (vAMM margin_engine / insurance_fund, insurance fund engine) are "
               "never initialised from info.sender, so a former owner holds no role after UpdateOwner."
               " R09.5 the pause flag is written only by SetPause; R09.6 the vAMM's insurance fund alone may SetOpen whatever value is requested; R09.7 a role changed in Config is not reverted by a later Config store of the same call."
               " R09.8 the owner's shutdown reaches every open vAMM and needs the owner role alone (R14.5 / R14.6 evaluated in a C14 context).")
NOT_DECIDED = "cw-controllers internals (Admin::is_admin/assert_admin/execute_update_admin, Hooks::execute_*_hook) are trusted."

# role alternatives: ('admin', CONST) | ('cfg', field) | ('self',)
ROLES = {
    "margined_vamm": {
        "UpdateConfig": [("admin", "OWNER")], "UpdateOwner": [("admin", "OWNER")],
        "SwapInput": [("cfg", "margin_engine")], "SwapOutput": [("cfg", "margin_engine")],
        "SettleFunding": [("cfg", "margin_engine")],
        "SetOpen": [("admin", "OWNER"), ("cfg", "insurance_fund")],
    },
    "margined_engine": {
        "UpdateConfig": [("cfg", "owner")], "UpdatePauser": [("admin", "PAUSER")],
        "AddWhitelist": [("admin", "PAUSER")], "RemoveWhitelist": [("admin", "PAUSER")],
        "SetPause": [("admin", "PAUSER")],
        "OpenPosition": None, "ClosePosition": None, "Liquidate": None, "PayFunding": None,
        "DepositMargin": None, "WithdrawMargin": None,
    },
    "margined_insurance_fund": {
        "UpdateOwner": [("admin", "OWNER")], "AddVamm": [("admin", "OWNER")], "RemoveVamm": [("admin", "OWNER")],
        "Withdraw": [("cfg", "engine")], "ShutdownVamms": [("admin", "OWNER"), ("self",)],
    },
    "margined_fee_pool": {
        "UpdateOwner": [("admin", "OWNER")], "AddToken": [("admin", "OWNER")], "RemoveToken": [("admin", "OWNER")],
        "SendToken": [("admin", "OWNER")],
    },
    "margined_pricefeed": {
        "AppendPrice": [("admin", "OWNER")], "AppendMultiplePrice": [("admin", "OWNER")], "UpdateOwner": [("admin", "OWNER")],
    },
}

# role-holder slots and the only execute arms that may write them (instantiate always may)
SLOT_WRITERS = {
    "margined_vamm": {"margined_vamm:owner": {"UpdateOwner"}, "margined_vamm:config": {"UpdateConfig"}},
    "margined_engine": {"margined_engine:pauser": {"UpdatePauser"}, "margined_engine:config": {"UpdateConfig"},
                        "margined_engine:whitelist": {"AddWhitelist", "RemoveWhitelist"}},
    "margined_insurance_fund": {"margined_insurance_fund:owner": {"UpdateOwner"}, "margined_insurance_fund:config": set()},
    "margined_fee_pool": {"margined_fee_pool:owner": {"UpdateOwner"}},
    "margined_pricefeed": {"margined_pricefeed:owner": {"UpdateOwner"}},
}


def entry_params(fn):
    info = env = None
    for i in range(fn.arg_count):
        ty = fn.locals[i + 1]["ty"]
        if ty.endswith("cosmwasm_std::MessageInfo"):
            info = sym.param(fn.key, i, fn.param_name(i))
        if ty.endswith("cosmwasm_std::Env"):
            env = sym.param(fn.key, i, fn.param_name(i))
    return info, env


def run(ctx):
    ix = ctx.ix
    w = ctx.world
    ctx.rule("R09.1", "every success path of a privileged execute arm establishes its role about info.sender", 23)
    ctx.rule("R09.2", "every ExecuteMsg variant of the five contracts is classified (privileged with role / open)", 29)
    ctx.rule("R09.3", "role-holder slots (Admin items, Config) are written only by the arm that transfers the role", 9)
    ctx.rule("R09.4", "instantiate never places the deployer (info.sender) in a role slot other than the owner's", 3)
    for contract, table in ROLES.items():
        arms = ix.arms(contract, "execute")
        if arms is None:
            ctx.lost("R09.1", contract + "::contract::execute")
            continue
        fexec, msgp, arm_table = arms
        ctx.analysed["functions"].add(fexec.pretty)
        info, env = entry_params(fexec)
        sender = sym.field(info, "sender") if info is not None else None
        adt = w.adts.get("margined_perp::%s::ExecuteMsg" % contract)
        variants = [v["name"] for v in adt["variants"]] if adt else []
        if not adt:
            ctx.lost("R09.2", "margined_perp::%s::ExecuteMsg" % contract)
        for v in variants:
            ctx.inst("R09.2", "classified:%s::%s" % (contract, v), v in table, "",
                     "variant is %s" % ("classified as " + ("open" if table.get(v) is None else "privileged %s" % (table[v],)) if v in table else "NOT in the role table: classify it"))
        for v in table:
            if v not in variants:
                ctx.lost("R09.2", "%s::ExecuteMsg::%s" % (contract, v))
        # arm summaries for R09.3
        arm_writes = {}
        for variant, role in table.items():
            ps = arm_table.get(variant)
            if not ps:
                ctx.lost("R09.1", "%s execute arm %s" % (contract, variant))
                continue
            h = ix.arm_handler(ps)
            if h is None:
                ctx.lost("R09.1", "%s execute arm %s handler" % (contract, variant))
                continue
            ctx.analysed["functions"].add(h.target.pretty)
            may, _must = ix.event_effects(h)
            arm_writes[variant] = {it for (k, it) in may if k in ("write", "remove")}
            if role is None:
                continue
            m = ix.param_map(h.target, h.args)
            try:
                oks = ix.ok_paths_at(h.target, m)
            except Exception as e:
                ctx.undetermined("R09.1", "%s::%s" % (contract, variant), str(e))
                continue
            bad = None
            how = set()
            n_alt = 0
            for q in oks:
                for alt in guards.facts_dnf(ix, q):
                    n_alt += 1
                    alt = frozenset((sym.subst(a, m), o) for (a, o) in alt)
                    ok = None
                    for r in role:
                        if r[0] == "admin":
                            ok = guards.holds_admin(ix, alt, "%s::contract::%s" % (contract, r[1]), sender)
                        elif r[0] == "cfg":
                            if guards.holds_eq(ix, alt, sender, lambda x, f=r[1]: guards.is_field_of_item(ix, x, contract, contract + ":config", f)):
                                ok = "info.sender == config.%s" % r[1]
                        elif r[0] == "self":
                            if guards.holds_eq(ix, alt, sender, lambda x: x == sym.field(sym.field(env, "contract"), "address")):
                                ok = "info.sender == env.contract.address"
                        if ok:
                            break
                    if ok:
                        how.add(ok)
                    elif bad is None:
                        bad = q
            ctx.note_paths(len(oks))
            key = "role:%s::%s" % (contract, variant)
            if not oks:
                ctx.inst("R09.1", key, False, h.target.where(), "handler has no success path: cannot vouch for the arm")
            elif bad is not None:
                conds = "; ".join("%s=%s" % (sym.show(a, 5), o) for (a, o, _b, _l) in bad.conds[:8])
                ctx.inst("R09.1", key, False, h.target.where(bad.conds[-1][3] if bad.conds else None),
                         "required role %s: a success path of %s does not establish it (path conditions: %s)" % (role, h.target.pretty, conds))
            else:
                ctx.inst("R09.1", key, True, h.target.where(), "%d success path(s), %d alternative(s): %s" % (len(oks), n_alt, sorted(how)))
        # ---- R09.3
        for slot, allowed in SLOT_WRITERS.get(contract, {}).items():
            writers = {v for v, ws in arm_writes.items() if slot in ws}
            extra = writers - allowed
            missing = allowed - writers
            ctx.inst("R09.3", "slot:%s" % slot, not extra and not missing, "",
                     "written by execute arms %s; allowed %s%s" % (sorted(writers), sorted(allowed),
                        ("; UNEXPECTED WRITER %s" % sorted(extra)) if extra else ("; role-transfer arm no longer writes it: %s" % sorted(missing)) if missing else ""))
        # ---- R09.4: the deployer holds no role slot beyond the owner's
        # "after an ownership transfer the old holder has no rights": a role field of Config that instantiate fills with
        # info.sender (a placeholder, a default) keeps the deployer in that role after UpdateOwner
        role_fields = sorted({r[1] for role in table.values() if role for r in role if r[0] == "cfg" and r[1] != "owner"})
        if role_fields:
            fi = ix.entry(contract, "instantiate")
            if fi is None:
                ctx.lost("R09.4", contract + "::contract::instantiate")
            else:
                info_i, _env_i = entry_params(fi)
                dep = sym.field(info_i, "sender") if info_i is not None else None
                for f_ in role_fields:
                    bad = None
                    n_st = 0
                    for q in ix.ok_paths(fi):
                        for wr in ix.writes_on_path(q):
                            if wr["item"] != contract + ":config" or wr["value"] is None:
                                continue
                            n_st += 1
                            v = ix.inline(sym.field(ix.inline(wr["value"]), f_))
                            if dep is not None and dep in set(sym.walk(v)):
                                bad = bad or sym.show(v, 5)
                    ctx.inst("R09.4", "deployer-not-in-role:%s:config.%s" % (contract, f_), bad is None and n_st > 0, fi.where(),
                             ("instantiate stores config.%s = %s: the deployer keeps that role after transferring ownership" % (f_, bad)) if bad else
                             "%d config stores at instantiate; config.%s never derives from info.sender" % (n_st, f_))
        # the guard item must be the same item: implied by the matchers (const / config field); count Admin consts

    # ---------------------------------------------------------------- R09.5
    # "pause only for the pauser": the pause flag of the engine State is changed by the SetPause arm alone; every other
    # store of State - on any execute arm or reply - keeps the loaded flag (a State rebuilt from scratch inside a helper
    # would silently un-pause the engine in someone else's transaction)
    from .em import EM, STATE
    from .posflow import ENG
    ctx.rule("R09.5", "the engine's pause flag is written only by SetPause: every other store of State keeps the loaded flag", 6)
    em = EM(ctx)
    n5 = 0
    for (st, root, depth, ckey) in sorted(em.steps.values(), key=lambda x: (x[3], x[2])):
        if root == "SetPause":
            continue
        bad = None
        stores = 0
        for q in st.ok_paths():
            for wr in st.writes(q):
                if wr["item"] != STATE or wr["kind"] != "write" or wr["value"] is None:
                    continue
                stores += 1
                pv = ix.inline(st.c(sym.field(wr["value"], "pause")))
                if not guards.is_field_of_item(ix, pv, ENG, STATE, "pause"):
                    bad = bad or "stores State with pause = %s" % sym.show(pv, 5)[:160]
        if stores:
            n5 += 1
            ctx.inst("R09.5", "pause-preserved:%s:%s" % (short_fn(st.fn), st.label), bad is None, st.fn.where(),
                     "%d State stores; %s" % (stores, bad or "each keeps the loaded pause flag"))


    # ---------------------------------------------------------------- R09.6
    # "opening/closing the vAMM only for its owner or its insurance fund": the fund - which is not the owner - must be
    # able to do both (round-10 seed C09m let it close but never re-open).  Same rule as R14.6.
    from .c14 import fund_alone_instance
    ctx.rule("R09.6", "the vAMM's insurance fund alone may SetOpen, whatever value is requested", 1)
    fund_alone_instance(ctx, "R09.6")

    # ---------------------------------------------------------------- R09.7
    # "after an ownership transfer the new holder has exactly these rights and the old one none": for the roles that live
    # in a Config record, the arm that transfers them (a) can store a holder other than the loaded one and (b) never
    # stores the Config again, later in the same call, with the loaded holder back in place (round-10 seed C09l: a
    # second helper wrote back the copy of Config it had been handed before the first helper changed the owner)
    ctx.rule("R09.7", "a role held in Config that the transferring arm has changed is not reverted by a later store of Config in the same call", 3)
    from .. import arms as A
    for contract, slots in sorted(SLOT_WRITERS.items()):
        item = contract + ":config"
        for variant in sorted(slots.get(item, ())):
            fields = sorted({r[1] for v_, rs in ROLES[contract].items() if rs for r in rs if r[0] == "cfg"})
            try:
                a7 = A.Arm(ix, contract, variant)
            except KeyError as e:
                ctx.lost("R09.7", str(e))
                continue
            for f_ in fields:
                changed_somewhere = False
                bad = None
                n_w = 0
                for q in a7.ok_paths():
                    seq = []   # (event, is the loaded holder?) per Config store on this path, in order
                    for ei, ev_ in enumerate(q.events):
                        if getattr(ev_, "opened", False) and ev_.target is not None:
                            continue
                        for wr in ix.writes_of_event(ev_, a7.m):
                            if wr["item"] != item or wr["kind"] != "write" or wr["value"] is None:
                                continue
                            n_w += 1
                            v = ix.inline(a7.c(sym.field(wr["value"], f_)))
                            loaded = guards.is_field_of_item(ix, v, contract, item, f_)
                            seq.append((ei, loaded, v))
                    # the message asks for a new holder on this path: what is stored last carries it
                    asked = False
                    mf = a7.msgfield(f_)
                    for (at, o, _b, _l) in q.conds:
                        ai = ix.inline(a7.c(at))
                        if o is True and tag(ai) == "op" and payload(ai)[0] == "is_some" and ix.inline(kids(ai)[0]) == mf:
                            asked = True
                        if tag(ai) == "op" and payload(ai)[0] == "discr" and ix.inline(kids(ai)[0]) == mf and o == ("variant", "Some"):
                            asked = True
                    if asked and (not seq or seq[-1][1]):
                        bad = bad or ("the message names a new config.%s but %s" % (f_, "the Config stored last on that path carries the loaded one" if seq else "that path stores no Config at all"))
                    for i, (e1, l1, v1) in enumerate(seq):
                        if l1:
                            continue
                        changed_somewhere = True
                        for (e2, l2, v2) in seq[i + 1:]:
                            if e2 != e1 and l2:
                                bad = bad or "config.%s is set to %s and a later store of Config puts the loaded holder back" % (f_, sym.show(v1, 4))
                has_field = any(f_ == x for x in [fl["name"] for v_ in (w.adts.get("margined_perp::%s::ExecuteMsg" % contract) or {"variants": []})["variants"] if v_["name"] == variant for fl in v_.get("fields", [])])
                if not has_field and not changed_somewhere:
                    continue   # this arm does not transfer that role
                ctx.inst("R09.7", "transfer-sticks:%s::%s:config.%s" % (contract, variant, f_), bad is None and changed_somewhere and n_w > 0, a7.fn.where(),
                         bad or ("%d Config stores; a changed holder is never reverted" % n_w if changed_somewhere else "no success path stores a holder other than the loaded one: the role cannot be transferred"))


    # ---------------------------------------------------------------- R09.8
    # "registry changes and shutdown only for the fund's owner" - and FOR the owner: a shutdown that stops at the first
    # closed vAMM (or is refused because the first registered one is closed) takes the right away from its holder
    # (round-12 seed C09o: `take_while` where `filter` was meant).  R14.5 / R14.6 evaluated in a C14 context and copied.
    from .. import core as _core
    from . import c14 as _c14
    ctx.rule("R09.8", "the owner's ShutdownVamms reaches every open vAMM of the registry (R14.5) and needs the owner role alone (R14.6)", 4)
    sub8 = _core.Ctx("C14", ctx.world, ctx.tier)
    try:
        _c14.run(sub8)
        n8 = 0
        for i8 in sub8.insts:
            if i8.rule in ("R14.5", "R14.6"):
                n8 += 1
                ctx.inst("R09.8", i8.key.replace(":", "/", 1), i8.ok, i8.where, i8.detail)
        if n8 == 0:
            ctx.lost("R09.8", "shutdown instances")
    except Exception as e:
        ctx.undetermined("R09.8", "shutdown", str(e)[:200])
