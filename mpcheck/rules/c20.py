"""C20 — Risk caps and configuration bounds hold under any update sequence."""
from .. import sym, guards, arms, model
from ..sym import tag, payload, kids
from .. import norm
from ..norm import N
from .common import *

EXPLANATION = ("R20.1 every stored ratio field of the engine / vAMM Config that can differ from the loaded one was validated against "
               "config.decimals (<= 1) on that path; R20.2 the stored (initial, maintenance) pair satisfies maintenance <= initial on "
               "every path that changes either; R20.3 the stored TWAP interval passed the [60, 604800] range test; R20.4 a vAMM is "
               "registered only after engine.decimals == vamm.decimals was established; R20.5 on the increase reply the open-interest "
               "cap test and the holding-cap test (on the stored size) hold on every success path, the whitelist can only exempt.")
NOT_DECIDED = "open-interest arithmetic itself; that caps set below current usage do not retroactively shrink positions."

ENG = "margined_engine"
VAMM = "margined_vamm"
IFC = "margined_insurance_fund"


def le_fact(alt, x, y):
    """alt establishes x <= y ?"""
    for (a, o) in alt:
        if tag(a) != "op" or len(kids(a)) != 2:
            continue
        n = payload(a)[0]
        l, r = kids(a)
        if (n == "gt" and l == x and r == y and o is False) or (n == "le" and l == x and r == y and o is True) or \
           (n == "lt" and l == y and r == x and o is False) or (n == "ge" and l == y and r == x and o is True):
            return True
    return False


def stored_config(ix, step, q, item):
    for wr in step.writes(q):
        if wr["item"] == item and wr["kind"] == "write" and wr["value"] is not None:
            return ix.inline(wr["value"])
    return None


def run(ctx):
    ix = ctx.ix
    w = ctx.world
    ctx.rule("R20.1", "stored ratio fields validated (<= decimals) on every path that changes them", 14)
    ctx.rule("R20.2", "stored maintenance <= stored initial established on every path that changes either", 2)
    ctx.rule("R20.3", "stored TWAP interval passed the [60, 604800] range test; instantiate constant inside the range", 2)
    ctx.rule("R20.4", "registry push only after engine/vAMM decimals equality", 1)
    ctx.rule("R20.5", "increase reply: open-interest cap and holding cap (on the stored size) hold on every success path unless whitelisted", 3)

    # R20.6 a bound is only worth something if the setting it bounds is the one in force: every optional field of the
    # two UpdateConfig arms that names a Config field is stored when supplied (shared rule, rules/cfgupdate.py)
    from .cfgupdate import update_sticks
    ctx.rule("R20.6", "every setting supplied in an UpdateConfig (engine, vAMM) is carried by the Config stored last on that path", 10)
    update_sticks(ctx, "R20.6", ENG)
    update_sticks(ctx, "R20.6", VAMM)

    specs = [(ENG, ["initial_margin_ratio", "maintenance_margin_ratio", "partial_liquidation_ratio", "liquidation_fee"]),
             (VAMM, ["toll_ratio", "spread_ratio", "fluctuation_limit_ratio"])]
    for (contract, fields) in specs:
        item = contract + ":config"
        # ---- update arm
        try:
            a = arms.Arm(ix, contract, "UpdateConfig")
        except KeyError as e:
            ctx.lost("R20.1", str(e))
            continue
        ctx.analysed["functions"].add(a.fn.pretty)
        per_field_bad = {f: None for f in fields}
        per_field_changed = {f: 0 for f in fields}
        pair_bad = None
        pair_n = 0
        twap_bad = None
        twap_n = 0
        alts = a.alternatives()
        ctx.note_paths(len(a.ok_paths()))
        cache = {}
        for (q, alt) in alts:
            if id(q) not in cache:
                cache[id(q)] = stored_config(ix, a, q, item)
            val = cache[id(q)]
            if val is None:
                continue

            def loaded(v, f):
                return guards.is_field_of_item(ix, v, contract, item, f)
            dec = None
            for f in fields:
                sv = a.c(sym.field(val, f))
                if loaded(sv, f) or loaded(ix.inline(sym.field(val, f)), f):
                    continue
                per_field_changed[f] += 1
                # decimals operand: the loaded config's decimals
                ok = False
                for (at, o) in alt:
                    if tag(at) == "op" and len(kids(at)) == 2:
                        l, r = kids(at)
                        if (l == sv and loaded(r, "decimals")) or (r == sv and loaded(l, "decimals")):
                            if le_fact([(at, o)], sv, r if l == sv else l):
                                ok = True
                if not ok:
                    per_field_bad[f] = per_field_bad[f] or q
            if contract == ENG:
                i2 = a.c(sym.field(val, "initial_margin_ratio"))
                m2 = a.c(sym.field(val, "maintenance_margin_ratio"))
                if not (loaded(i2, "initial_margin_ratio") and loaded(m2, "maintenance_margin_ratio")):
                    pair_n += 1
                    if not le_fact(alt, m2, i2):
                        pair_bad = pair_bad or (q, i2, m2)
            if contract == VAMM:
                t2 = a.c(sym.field(val, "spot_price_twap_interval"))
                if not loaded(t2, "spot_price_twap_interval"):
                    twap_n += 1
                    ok = False
                    for (at, o) in alt:
                        if o is True and tag(at) == "call" and payload(at)[0].endswith("RangeInclusive::contains"):
                            rng, x = kids(at)[0], kids(at)[1]
                            ints = [int(payload(k)[0]) for k in sym.walk(rng) if tag(k) == "int"]
                            for k in sym.walk(rng):
                                if tag(k) == "constints":
                                    ints.extend(int(i) for i in payload(k)[1])
                            if x == t2 and 60 in ints and 604800 in ints:
                                ok = True
                    # the same range test spelled as two comparisons (`match x { 60..=604800 => .. }`, `x >= 60 && x <= 604800`)
                    lo = hi = False
                    for (at, o) in alt:
                        if tag(at) != "op" or payload(at)[0] not in ("lt", "le", "gt", "ge") or len(kids(at)) != 2 or o not in (True, False):
                            continue
                        l, r = (ix.inline(k) for k in kids(at))
                        nm = payload(at)[0]
                        if not o:
                            nm = {"lt": "ge", "le": "gt", "gt": "le", "ge": "lt"}[nm]
                        if r == t2 and tag(l) == "int":      # c <op> x  ->  x <flipped op> c
                            l, r = r, l
                            nm = {"lt": "gt", "le": "ge", "gt": "lt", "ge": "le"}[nm]
                        if l == t2 and tag(r) == "int":
                            c = int(payload(r)[0])
                            if (nm == "ge" and c == 60) or (nm == "gt" and c == 59):
                                lo = True
                            if (nm == "le" and c == 604800) or (nm == "lt" and c == 604801):
                                hi = True
                    if lo and hi:
                        ok = True
                    if not ok:
                        twap_bad = twap_bad or q
        for f in fields:
            ctx.inst("R20.1", "validated:%s::UpdateConfig:%s" % (contract, f), per_field_bad[f] is None and per_field_changed[f] > 0, a.fn.where(),
                     "%d alternatives store a new %s; %s" % (per_field_changed[f], f, "each established value <= config.decimals" if per_field_bad[f] is None
                        else "a path stores it WITHOUT the ratio validation against config.decimals"))
        if contract == ENG:
            ctx.inst("R20.2", "ordered:%s::UpdateConfig" % contract, pair_bad is None and pair_n > 0, a.fn.where(),
                     "%d alternatives change initial and/or maintenance; %s" % (pair_n, "stored maintenance <= stored initial established on each" if pair_bad is None else
                        "a path stores initial=%s maintenance=%s without establishing maintenance <= initial" % (sym.show(pair_bad[1], 4), sym.show(pair_bad[2], 4))))
        if contract == VAMM:
            ctx.inst("R20.3", "twap-range:UpdateConfig", twap_bad is None and twap_n > 0, a.fn.where(),
                     "%d alternatives store a new interval; %s" % (twap_n, "each passed (60..=604800).contains" if twap_bad is None else "a path stores the interval without the range test"))
        # ---- instantiate
        fi = ix.entry(contract, "instantiate")
        if fi is None:
            ctx.lost("R20.1", contract + "::contract::instantiate")
            continue
        ep = arms.entry_params(fi)
        for f in fields:
            bad = None
            n = 0
            for p in ix.ok_paths(fi):
                for alt in guards.facts_dnf(ix, p):
                    alt = frozenset((ix.inline(x), o) for (x, o) in alt)
                    val = None
                    for wr in ix.writes_on_path(p):
                        if wr["item"] == item and wr["kind"] == "write" and wr["value"] is not None:
                            val = ix.inline(wr["value"])
                    if val is None:
                        continue
                    n += 1
                    sv = ix.inline(sym.field(val, f))
                    dv = ix.inline(sym.field(val, "decimals"))
                    if tag(sv) == "int" and payload(sv)[0] == "0":
                        continue
                    if not le_fact(alt, sv, dv):
                        bad = bad or p
            ctx.inst("R20.1", "validated:%s::instantiate:%s" % (contract, f), bad is None and n > 0, fi.where(),
                     "%d alternatives; %s" % (n, "value <= stored decimals established (or constant zero)" if bad is None else "stored without validation"))
        if contract == ENG:
            bad = None
            n = 0
            for p in ix.ok_paths(fi):
                for alt in guards.facts_dnf(ix, p):
                    alt = frozenset((ix.inline(x), o) for (x, o) in alt)
                    for wr in ix.writes_on_path(p):
                        if wr["item"] == item and wr["value"] is not None:
                            val = ix.inline(wr["value"])
                            n += 1
                            if not le_fact(alt, ix.inline(sym.field(val, "maintenance_margin_ratio")), ix.inline(sym.field(val, "initial_margin_ratio"))):
                                bad = bad or p
            ctx.inst("R20.2", "ordered:%s::instantiate" % contract, bad is None and n > 0, fi.where(), "maintenance <= initial %s" % ("established" if bad is None else "NOT established"))
        if contract == VAMM:
            ok = False
            for p in ix.ok_paths(fi):
                for wr in ix.writes_on_path(p):
                    if wr["item"] == item and wr["value"] is not None:
                        t = ix.inline(sym.field(ix.inline(wr["value"]), "spot_price_twap_interval"))
                        if tag(t) == "int" and 60 <= int(payload(t)[0]) <= 604800:
                            ok = True
                        else:
                            ok = False
            ctx.inst("R20.3", "twap-range:instantiate", ok, fi.where(), "instantiate stores a constant interval %s the range" % ("inside" if ok else "OUTSIDE / not constant:"))

    # ---------------------------------------------------------------- R20.4
    try:
        a = arms.Arm(ix, IFC, "AddVamm")
        LIST = "margined_insurance_fund:vamm-list"
        bad = None
        n = 0
        for (q, alt) in a.alternatives():
            if not any(wr["item"] == LIST for wr in a.writes(q)):
                continue
            n += 1
            ok = False
            for (at, o) in alt:
                if o is True and tag(at) == "op" and payload(at)[0] == "eq":
                    l, r = kids(at)
                    infos = []
                    for x in (l, r):
                        xi = ix.inline(x)
                        qq = ix.parse_query(kids(xi)[0]) if tag(xi) == "field" and payload(xi)[0] == "decimals" else None
                        mv = ix.msg_variant(qq["msg"]) if qq and qq.get("msg") is not None else None
                        infos.append((qq, mv))
                    if all(i[0] and i[1] and i[1][1] == "Config" for i in infos):
                        adts = {i[1][0].split("::")[-2] for i in infos}
                        addrs = [a.s(ix.inline(i[0]["addr"])) for i in infos]
                        eng_ok = any(guards.is_field_of_item(ix, ix.inline(i[0]["addr"]), IFC, IFC + ":config", "engine") for i in infos)
                        vamm_ok = any(a.msgfield("vamm") in set(sym.walk(ad)) for ad in addrs)
                        if adts == {"margined_engine", "margined_vamm"} and eng_ok and vamm_ok:
                            ok = True
            if not ok:
                bad = bad or q
        ctx.inst("R20.4", "decimals-match:AddVamm", bad is None and n > 0, a.fn.where(),
                 "%d storing alternatives; %s" % (n, "engine Config.decimals == msg.vamm Config.decimals established" if bad is None else "a registering path lacks the decimals comparison"))
    except KeyError as e:
        ctx.lost("R20.4", str(e))

    # ---------------------------------------------------------------- R20.5
    chains = arms.engine_chains(ix, ENG)
    inc = None
    for key, sts in chains.items():
        if key == "OpenPosition>id1":
            inc = sts[-1]
    if inc is None:
        ctx.lost("R20.5", "OpenPosition>id1 chain")
        return
    POS = "margined_engine:position"

    def cap_field(v, name):
        vi = ix.inline(v)
        if tag(vi) == "field" and payload(vi)[0] == name:
            qq = ix.parse_query(kids(vi)[0])
            mv = ix.msg_variant(qq["msg"]) if qq and qq.get("msg") is not None else None
            return bool(mv and mv[1] == "Config" and mv[0].endswith("margined_vamm::QueryMsg"))
        return False

    def whitelisted(alt):
        for (at, o) in alt:
            if o is True and tag(at) == "unwrap" and tag(kids(at)[0]) == "call" and payload(kids(at)[0])[0] == "cw_controllers::Hooks::query_hook":
                return True
        return False
    def whitelisted_f(facts):
        for (at, o) in facts:
            if o is True and tag(at) == "unwrap" and tag(kids(at)[0]) == "call" and payload(kids(at)[0])[0] == "cw_controllers::Hooks::query_hook":
                return True
        return False

    def is_pos_cap(v, name):
        """v is +cap: Integer{value: cap, negative: false} (or the cap field itself)"""
        vi = ix.inline(v)
        if cap_field(vi, name):
            return True
        if tag(vi) == "call" and payload(vi)[0].endswith("Integer::new_positive"):
            return cap_field(kids(vi)[0], name)
        if tag(vi) == "agg" and payload(vi)[0].endswith("integer::Integer"):
            neg = sym.field(vi, "negative")
            return cap_field(sym.field(vi, "value"), name) and tag(neg) == "bool" and not payload(neg)[0]
        return False

    # (a) every function that writes State.open_interest_notional through a `&mut State` establishes the cap
    writers = 0
    for f in sorted(w.crate_fns(ENG), key=lambda f: f.pretty):
        if f.derived or "::_::" in f.pretty or f.kind == "Closure":
            continue
        try:
            oks = ix.ok_paths(f)
        except Exception:
            continue
        touched = [p for p in oks if any("open_interest_notional" in sym.show(v, 3) and tag(v) == "rec" and "open_interest_notional" in payload(v)
                                         for v in p.ptr_out.values())]
        if not touched:
            continue
        writers += 1
        bad = None
        bad_formula = None
        for p in oks:
            newv = None
            for ptr, v in p.ptr_out.items():
                if tag(v) == "rec" and "open_interest_notional" in payload(v):
                    newv = ix.inline(sym.field(v, "open_interest_notional"))
            if newv is None:
                continue  # this path leaves the counter alone
            def cap_respected(facts, newv=newv):
                """one of the accepted reasons holds among these facts (the writer's own, or those of a helper it relies on)"""
                for (at, o) in facts:
                    if o is True and tag(at) == "unwrap" and tag(kids(at)[0]) == "call" and payload(kids(at)[0])[0] == "cw_controllers::Hooks::query_hook":
                        return True
                    a2, o2 = at, o
                    while tag(a2) == "op" and payload(a2)[0] == "not" and o2 in (True, False):
                        a2, o2 = kids(a2)[0], (not o2)
                    if tag(a2) == "call" and ((payload(a2)[0].endswith("Integer::is_positive") and o2 is False) or
                                              (payload(a2)[0].endswith("Integer::is_negative") and o2 is True)):
                        return True  # not an increase
                    if tag(a2) == "unwrap" and tag(kids(a2)[0]) == "call" and payload(kids(a2)[0])[0] == "cw_controllers::Hooks::query_hook" and o2 is True:
                        return True
                    if tag(at) == "op":
                        nm = payload(at)[0]
                        ks = kids(at)
                        if nm == "is_zero" and o is True and cap_field(ks[0], "open_interest_notional_cap"):
                            return True
                        if nm in ("gt", "le") and len(ks) == 2 and ((nm == "gt" and o is False) or (nm == "le" and o is True)):
                            l, r = ks
                            li = ix.inline(l)
                            lv = ix.inline(sym.field(li, "value"))
                            # Integer comparison with +cap, or the same comparison on the magnitudes (the value is floored at zero)
                            if is_pos_cap(r, "open_interest_notional_cap") and (lv == newv or li == newv):
                                return True
                            if cap_field(r, "open_interest_notional_cap") and li == newv:
                                return True
                return False
            ok = guards.path_satisfies(ix, p, cap_respected, None)
            if not ok:
                bad = bad or (p, newv)
            # the value written is the old counter plus the signed amount, floored at zero
            nn = N(ix, newv)
            okf = nn == ("int", 0)
            if nn[0] == "mag" and nn[1][0] == "iadd":
                ts = nn[1][1:]
                has_old = any(t_[0] == "pos" and t_[1][0] == "leaf" and isinstance(t_[1][1], int) and tag(ix.inline(t_[1][1])) == "field" and
                              payload(ix.inline(t_[1][1]))[0] == "open_interest_notional" for t_ in ts)
                has_amt = any(t_[0] == "leaf" and isinstance(t_[1], int) and tag(ix.inline(t_[1])) == "param" for t_ in ts)
                okf = has_old and has_amt
            if not okf:
                bad_formula = bad_formula or norm.show(nn)[:160]
        ctx.inst("R20.5", "open-interest-formula:%s" % short_fn(f), bad_formula is None, f.where(),
                 ("the counter is written as %s, not max(0, old counter + signed amount)" % bad_formula) if bad_formula else "counter' = max(0, counter + signed amount)")
        ctx.inst("R20.5", "open-interest-writer:%s" % short_fn(f), bad is None, f.where(),
                 "%d success paths; %s" % (len(oks), "every path that writes the counter has cap==0, not-an-increase, whitelisted, or (the value written) <= +cap" if bad is None else
                    "a path writes open_interest_notional = %s without comparing THAT value with the cap: %s" % (sym.show(bad[1], 5),
                        "; ".join("%s=%s" % (sym.show(c[0], 4), c[1]) for c in bad[0].conds[-5:]))))
    if writers == 0:
        ctx.lost("R20.5", "a function updating State.open_interest_notional through &mut State")

    def oi_pred(facts):
        # (b) the increase reply relies on a successful call of such a writer with a positive amount
        return False
    oi_bad = hold_bad = None
    n = 0
    for q in inc.ok_paths():
        n += 1
        stored_size = None
        for wr in inc.writes(q):
            if wr["item"] == POS and wr["kind"] == "write" and wr["value"] is not None:
                stored_size = inc.c(sym.field(sym.field(ix.inline(wr["value"]), "size"), "value"))

        def hold_pred(facts, stored_size=stored_size):
            if whitelisted_f(facts):
                return True
            for (at, o) in facts:
                if tag(at) != "op":
                    continue
                nm = payload(at)[0]
                ks = kids(at)
                if nm == "is_zero" and o is True and cap_field(ks[0], "base_asset_holding_cap"):
                    return True
                if nm in ("gt", "le") and len(ks) == 2:
                    passing = (nm == "gt" and o is False) or (nm == "le" and o is True)
                    if passing and cap_field(ks[1], "base_asset_holding_cap") and stored_size is not None and ks[0] == stored_size:
                        return True
            return False
        called = False
        for e in q.events:
            if e.target is not None and guards.propagated(q, e):
                for ptr, v in [(k2, v2) for p2 in ix.ok_paths(e.target) for (k2, v2) in p2.ptr_out.items()]:
                    if tag(v) == "rec" and "open_interest_notional" in payload(v):
                        amt = [ix.inline(a) for a in e.args]
                        if any((tag(x) == "call" and payload(x)[0].endswith("Integer::new_positive")) or
                               (tag(x) == "agg" and payload(x)[0].endswith("integer::Integer") and tag(sym.field(x, "negative")) == "bool"
                                and not payload(sym.field(x, "negative"))[0]) for x in amt):
                            called = True
        if not called:
            oi_bad = oi_bad or q
        if not guards.path_satisfies(ix, q, hold_pred, inc.m):
            hold_bad = hold_bad or q
    ctx.note_paths(len(inc.ok_paths()))
    ctx.inst("R20.5", "open-interest-cap:increase-reply", oi_bad is None and n > 0, inc.fn.where(),
             "%d alternatives; %s" % (n, "each relies on a successful open-interest update with a positive amount" if oi_bad is None else
                "a success path does not run the open-interest update with a positive amount: %s" %
                "; ".join("%s=%s" % (sym.show(c[0], 4), c[1]) for c in oi_bad.conds[:6])))
    ctx.inst("R20.5", "holding-cap:increase-reply", hold_bad is None and n > 0, inc.fn.where(),
             "%d alternatives; %s" % (n, "cap==0, or stored |size| <= cap, or whitelisted on each" if hold_bad is None else
                "a non-whitelisted success alternative does not establish (stored size <= base_asset_holding_cap)"))
