"""Shared rule: the vault balance the engine sizes payouts / top-ups / caps from is the engine's own balance of the
collateral token.

(a) the function that queries a token balance (found by behaviour: a workspace function returning the amount of a
    BankQuery::Balance / cw20 Balance response) asks, in both collateral arms, for the account it was given and for the
    token it was given, and returns the amount field of the response;
(b) every engine call site of that function passes config.eligible_collateral and env.contract.address (parameters are
    resolved through the engine's call sites, bounded depth).
Used by C04 (R04.8: insurance draws are sized from the vault's real balance) - and its `is_balance_value` by C11."""
from .. import sym, guards
from ..sym import tag, payload, kids
from .common import *
from .posflow import ENG

PRODUCT = ("margined_engine", "margined_perp", "margined_common", "margined_insurance_fund", "margined_fee_pool", "margined_vamm")


def _balance_query(ix, v):
    """('bank'|'cw20', parsed) when v (unwrapped) is a balance query"""
    q = ix.parse_query(v)
    if not q:
        return None
    if q.get("bank") is not None and tag(q["bank"]) == "agg" and payload(q["bank"])[1] == "Balance":
        return ("bank", q)
    mv = ix.msg_variant(q.get("msg"))
    if mv and mv[0].endswith("Cw20QueryMsg") and mv[1] == "Balance":
        return ("cw20", q)
    return None


def balance_fns(ctx):
    """workspace functions whose success paths return (a field of) a balance query response"""
    ix, w = ctx.ix, ctx.world
    cached = getattr(ctx, "_balance_fns", None)
    if cached is not None:
        return cached
    out = []
    for c in PRODUCT:
        for f in sorted(w.crate_fns(c), key=lambda f: f.pretty):
            if f.derived or "::_::" in f.pretty or f.kind == "Closure" or "Uint128" not in f.locals[0]["ty"]:
                continue
            try:
                oks = ix.ok_paths(f)
            except Exception:
                continue
            hit = False
            for p in oks:
                r = sym.unwrap(p.ret)
                n = 0
                while tag(r) == "field" and n < 4:
                    r = kids(r)[0]
                    n += 1
                if n and _balance_query(ix, r):
                    hit = True
            if hit:
                out.append(f)
    ctx._balance_fns = out
    return out


def is_balance_value(ctx, v):
    """v is (the unwrapped result of) a call of a balance function"""
    ix = ctx.ix
    x = v
    while tag(x) in ("unwrap", "ok"):
        x = kids(x)[0]
    if tag(x) == "call":
        t = ix.call_target(x)
        return t is not None and any(t.key == b.key for b in balance_fns(ctx))
    return False


def _callers(ctx):
    """{callee key: [(caller fn, event)]} over engine functions"""
    ix, w = ctx.ix, ctx.world
    idx = {}
    for f in w.crate_fns(ENG):
        if f.derived or "::_::" in f.pretty or f.kind == "Closure":
            continue
        try:
            oks = ix.ok_paths(f)
        except Exception:
            continue
        seen = set()
        for p in oks:
            for e in p.events:
                if e.target is None:
                    continue
                sig = (e.target.key, e.bb)
                if sig in seen:
                    continue
                seen.add(sig)
                idx.setdefault(e.target.key, []).append((f, e))
    return idx


def _resolve(ctx, idx, f, v, depth=4):
    """values of v (a tree in f's terms) at the roots of the engine's call graph: parameters of f are replaced by the
    arguments of every engine call site of f"""
    ix = ctx.ix
    vi = ix.inline(v)
    params = [x for x in sym.walk(vi) if tag(x) == "param" and payload(x)[0] == f.key]
    sites = idx.get(f.key, [])
    if not params or depth <= 0 or not sites:
        return [vi]
    out = []
    for (g, e) in sites:
        m = ix.param_map(f, e.args)
        out.extend(_resolve(ctx, idx, g, sym.subst(vi, m), depth - 1))
    return out


def balance_instances(ctx, rule):
    ix, w = ctx.ix, ctx.world
    bfs = balance_fns(ctx)
    if not bfs:
        ctx.lost(rule, "the function that queries a token balance")
        return
    for bf in bfs:
        ctx.analysed["functions"].add(bf.pretty)
        acct = [sym.param(bf.key, i, bf.param_name(i)) for i in range(bf.arg_count) if bf.locals[i + 1]["ty"].endswith("cosmwasm_std::Addr") or bf.locals[i + 1]["ty"].endswith("String")]
        tok = [sym.param(bf.key, i, bf.param_name(i)) for i in range(bf.arg_count) if bf.locals[i + 1]["ty"].endswith("AssetInfo")]
        bad = None
        kinds = set()
        for p in ix.ok_paths(bf):
            r = sym.unwrap(p.ret)
            fields = []
            while tag(r) == "field":
                fields.append(payload(r)[0])
                r = kids(r)[0]
            bq = _balance_query(ix, r)
            if not bq:
                bad = bad or "a success path does not return a balance response field"
                continue
            kind, q = bq
            kinds.add(kind)
            if kind == "bank":
                b = q["bank"]
                addr = ix.inline(sym.field(b, "address"))
                denom = ix.inline(sym.field(b, "denom"))
                if not (len(acct) == 1 and addr == acct[0]):
                    bad = bad or "the native arm asks for the balance of %s, not of the account argument" % sym.show(addr, 4)
                if not (tok and tag(denom) == "field" and payload(denom)[0] == "denom" and tok[0] in set(sym.walk(denom))):
                    bad = bad or "the native arm's denom is %s, not the token argument's" % sym.show(denom, 4)
                if fields != ["amount", "amount"]:
                    bad = bad or "the native arm returns .%s of the response" % ".".join(reversed(fields))
            else:
                mv = ix.msg_variant(q["msg"])
                addr = ix.inline(mv[2].get("address")) if mv and mv[2].get("address") is not None else None
                caddr = ix.inline(q["addr"]) if q.get("addr") is not None else None
                if not (len(acct) == 1 and addr == acct[0]):
                    bad = bad or "the cw20 arm asks for the balance of %s, not of the account argument" % (sym.show(addr, 4) if addr is not None else "?")
                if not (tok and caddr is not None and tag(caddr) == "field" and payload(caddr)[0] == "contract_addr" and tok[0] in set(sym.walk(caddr))):
                    bad = bad or "the cw20 arm queries contract %s, not the token argument's contract" % (sym.show(caddr, 4) if caddr is not None else "?")
                if fields != ["balance"]:
                    bad = bad or "the cw20 arm returns .%s of the response" % ".".join(reversed(fields))
        if kinds != {"bank", "cw20"}:
            bad = bad or "arms found: %s (expected a native and a cw20 arm)" % sorted(kinds)
        ctx.inst(rule, "balance-query-arms:%s" % short_fn(bf), bad is None, bf.where(),
                 bad or "both arms ask for (token argument, account argument) and return the response amount")
    # (b) call sites in the engine
    idx = _callers(ctx)
    n_sites = 0
    for bf in bfs:
        ai = [i for i in range(bf.arg_count) if bf.locals[i + 1]["ty"].endswith("cosmwasm_std::Addr") or bf.locals[i + 1]["ty"].endswith("String")]
        ti = [i for i in range(bf.arg_count) if bf.locals[i + 1]["ty"].endswith("AssetInfo")]
        for (g, e) in sorted(idx.get(bf.key, []), key=lambda x: (x[0].pretty, x[1].bb)):
            n_sites += 1
            bad = None
            if ai:
                for v in _resolve(ctx, idx, g, e.args[ai[0]]):
                    ok = tag(v) == "field" and payload(v)[0] == "address" and tag(kids(v)[0]) == "field" and payload(kids(v)[0])[0] == "contract" \
                        and tag(kids(kids(v)[0])[0]) == "param"
                    if not ok:
                        bad = bad or "the balance is read for %s, not for env.contract.address" % sym.show(v, 5)
            if ti:
                for v in _resolve(ctx, idx, g, e.args[ti[0]]):
                    if not guards.is_field_of_item(ix, v, ENG, "margined_engine:config", "eligible_collateral"):
                        bad = bad or "the balance is read of token %s, not of config.eligible_collateral" % sym.show(v, 5)
            ctx.inst(rule, "vault-balance-is-own:%s" % short_fn(g), bad is None, g.where(e.line),
                     bad or "balance of (config.eligible_collateral, env.contract.address) at every root of the call graph")
    if n_sites == 0:
        ctx.lost(rule, "engine call sites of the balance query")


def sizing_instances(ctx, em, rule, reply_keys=("Liquidate>id6", "Liquidate>id7"), verified=None):
    """the function that sizes an insurance top-up from the vault balance (found by behaviour: reads the balance itself
    and emits the insurance Withdraw) credits exactly the figure it is handed - available = balance + <its own parameter>,
    nothing re-derived from storage - and the listed reply steps hand it zero or the return value of a helper in
    `verified` (short names).  Shared by C07 (R07.5) and C13 (R13.7)."""
    from .. import model
    from .posflow import ENG
    ix, w = ctx.ix, ctx.world
    if verified is None:
        verified = set()
    sizers = {}
    for f in sorted(w.crate_fns(ENG), key=lambda f: f.pretty):
        if f.derived or "::_::" in f.pretty or f.kind == "Closure":
            continue
        try:
            oks = ix.ok_paths(f)
        except Exception:
            continue
        for pth in oks:
            if not any(e.target is not None and any(e.target.key == b.key for b in balance_fns(ctx)) for e in pth.events):
                continue   # the sizing function is the one that reads the balance itself
            for s_ in model.path_submsgs(ix, pth):
                mv = ix.msg_variant(s_.inner_msg()) if s_.inner_msg() is not None else None
                if not (mv and mv[1] == "Withdraw"):
                    continue
                amt = ix.inline(mv[2]["amount"])
                if not any(is_balance_value(ctx, x) for x in sym.walk(amt)):
                    continue
                # the top-up is  <amount to pay> - (balance [+ credited figure])  and nothing else
                from ..norm import N as _N, match as _match, hole as _hole, anyhole as _any
                nf = _N(ix, amt)
                bal_h = _hole("balance", lambda v: is_balance_value(ctx, v))
                mm = _match(("sub", _any("pay"), ("add", bal_h, _any("credit"))), nf) or _match(("sub", _any("pay"), ("add", _any("credit"), bal_h)), nf)
                credited = "?"
                if mm is not None and mm["credit"][0] == "leaf":
                    credited = ix.inline(mm["credit"][1])
                elif mm is None and _match(("sub", _any("pay"), bal_h), nf) is not None:
                    credited = None
                sizers.setdefault(f.key, []).append((credited, nf))
    if not sizers:
        ctx.lost(rule, "the function that sizes an insurance top-up from the vault balance")
    for k, creds in sorted(sizers.items()):
        f = w.fns[k]
        bad = None
        pidx = None
        for (c_, nf_) in creds:
            if c_ is None:
                continue   # balance alone: nothing is credited
            if c_ != "?" and tag(c_) == "param" and payload(c_)[0] == f.key:
                pidx = payload(c_)[1]
            elif c_ == "?" or not (tag(c_) == "int"):
                from .. import norm as _norm
                bad = bad or "sizes the top-up as %s: not <payout> - (balance + the figure it was handed)" % _norm.show(nf_)[:200]
        ctx.inst(rule, "credits-what-it-is-told:%s" % short_fn(f), bad is None, f.where(), bad or "available = balance + parameter #%s" % pidx)
        if pidx is None:
            continue
        for ckey in reply_keys:
            st = em.reply_step(ckey)
            if st is None:
                continue
            badc = None
            ncalls = 0
            # what the realising helper is asked to realise on the paths that call it (normal forms)
            from ..norm import N as _N2
            realised_args = set()
            for q in st.ok_paths():
                for e in q.events:
                    if e.target is not None and short_fn(e.target) in verified:
                        for a_ in e.args:
                            if "Uint128" in str(e.target.locals[1 + e.args.index(a_)]["ty"]) if e.args.index(a_) < e.target.arg_count else False:
                                realised_args.add(_N2(ix, st.c(a_)))
            for q in st.ok_paths():
                helper_called = any(e.target is not None and short_fn(e.target) in verified for e in q.events)
                for e in q.events:
                    if e.target is None or e.target.key != k or pidx >= len(e.args):
                        continue
                    ncalls += 1
                    if not helper_called and realised_args:
                        # nothing is realised on this path: only where the path has established that there is nothing
                        # to realise (the figure the helper gets elsewhere is zero here)
                        zero_known = any(c[1] is True and tag(c[0]) == "op" and payload(c[0])[0] == "is_zero" and kids(c[0]) and
                                         _N2(ix, st.c(kids(c[0])[0])) in realised_args for c in q.conds)
                        if not zero_known:
                            badc = badc or "pays out without realising the bad debt on a path that has not established it to be zero"
                    a = ix.inline(e.args[pidx])
                    a0 = a
                    while tag(a0) in ("unwrap",):
                        a0 = kids(a0)[0]
                    ok_ = tag(a0) == "int" and int(payload(a0)[0]) == 0
                    if tag(a0) == "call":
                        t_ = ix.call_target(a0)
                        ok_ = ok_ or (t_ is not None and short_fn(t_) in verified)
                    if not ok_:
                        badc = badc or "is told %s, which is not the amount the realising helper queued" % sym.show(a, 5)
            if ncalls:
                ctx.inst(rule, "told-the-queued-amount:%s" % ckey, badc is None, st.fn.where(), badc or "%d calls: zero or the realising helper's return value" % ncalls)

