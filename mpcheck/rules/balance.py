"""Shared rule: the vault balance the engine sizes payouts / top-ups / caps from is the engine's own balance of the
collateral token.

(a) the function that queries a token balance (found by behaviour: a workspace function returning the amount of a
    BankQuery::Balance / cw20 Balance response) asks, in both collateral arms, for the account it was given and for the
    token it was given, and returns the amount field of the response;
(b) every engine call site of that function passes config.eligible_collateral and env.contract.address (parameters are
    resolved through the engine's call sites, bounded depth).
Used by C04 (R04.8: insurance draws are sized from the vault's real balance) - and its `is_balance_value` by C11."""
from .. import sym, guards
from ..sym import tag, payload, kids
from .common import *
from .posflow import ENG

PRODUCT = ("margined_engine", "margined_perp", "margined_common", "margined_insurance_fund", "margined_fee_pool", "margined_vamm")


def _balance_query(ix, v):
    """('bank'|'cw20', parsed) when v (unwrapped) is a balance query"""
    q = ix.parse_query(v)
    if not q:
        return None
    if q.get("bank") is not None and tag(q["bank"]) == "agg" and payload(q["bank"])[1] == "Balance":
        return ("bank", q)
    mv = ix.msg_variant(q.get("msg"))
    if mv and mv[0].endswith("Cw20QueryMsg") and mv[1] == "Balance":
        return ("cw20", q)
    return None


def balance_fns(ctx):
    """workspace functions whose success paths return (a field of) a balance query response"""
    ix, w = ctx.ix, ctx.world
    cached = getattr(ctx, "_balance_fns", None)
    if cached is not None:
        return cached
    out = []
    for c in PRODUCT:
        for f in sorted(w.crate_fns(c), key=lambda f: f.pretty):
            if f.derived or "::_::" in f.pretty or f.kind == "Closure" or "Uint128" not in f.locals[0]["ty"]:
                continue
            try:
                oks = ix.ok_paths(f)
            except Exception:
                continue
            hit = False
            for p in oks:
                r = sym.unwrap(p.ret)
                n = 0
                while tag(r) == "field" and n < 4:
                    r = kids(r)[0]
                    n += 1
                if n and _balance_query(ix, r):
                    hit = True
            if hit:
                out.append(f)
    ctx._balance_fns = out
    return out


def is_balance_value(ctx, v):
    """v is (the unwrapped result of) a call of a balance function"""
    ix = ctx.ix
    x = v
    while tag(x) in ("unwrap", "ok"):
        x = kids(x)[0]
    if tag(x) == "call":
        t = ix.call_target(x)
        return t is not None and any(t.key == b.key for b in balance_fns(ctx))
    return False


def _callers(ctx):
    """{callee key: [(caller fn, event)]} over engine functions"""
    ix, w = ctx.ix, ctx.world
    idx = {}
    for f in w.crate_fns(ENG):
        if f.derived or "::_::" in f.pretty or f.kind == "Closure":
            continue
        try:
            oks = ix.ok_paths(f)
        except Exception:
            continue
        seen = set()
        for p in oks:
            for e in p.events:
                if e.target is None:
                    continue
                sig = (e.target.key, e.bb)
                if sig in seen:
                    continue
                seen.add(sig)
                idx.setdefault(e.target.key, []).append((f, e))
    return idx


def _resolve(ctx, idx, f, v, depth=4):
    """values of v (a tree in f's terms) at the roots of the engine's call graph: parameters of f are replaced by the
    arguments of every engine call site of f"""
    ix = ctx.ix
    vi = ix.inline(v)
    params = [x for x in sym.walk(vi) if tag(x) == "param" and payload(x)[0] == f.key]
    sites = idx.get(f.key, [])
    if not params or depth <= 0 or not sites:
        return [vi]
    out = []
    for (g, e) in sites:
        m = ix.param_map(f, e.args)
        out.extend(_resolve(ctx, idx, g, sym.subst(vi, m), depth - 1))
    return out


def balance_instances(ctx, rule):
    ix, w = ctx.ix, ctx.world
    bfs = balance_fns(ctx)
    if not bfs:
        ctx.lost(rule, "the function that queries a token balance")
        return
    for bf in bfs:
        ctx.analysed["functions"].add(bf.pretty)
        acct = [sym.param(bf.key, i, bf.param_name(i)) for i in range(bf.arg_count) if bf.locals[i + 1]["ty"].endswith("cosmwasm_std::Addr") or bf.locals[i + 1]["ty"].endswith("String")]
        tok = [sym.param(bf.key, i, bf.param_name(i)) for i in range(bf.arg_count) if bf.locals[i + 1]["ty"].endswith("AssetInfo")]
        bad = None
        kinds = set()
        for p in ix.ok_paths(bf):
            r = sym.unwrap(p.ret)
            fields = []
            while tag(r) == "field":
                fields.append(payload(r)[0])
                r = kids(r)[0]
            bq = _balance_query(ix, r)
            if not bq:
                bad = bad or "a success path does not return a balance response field"
                continue
            kind, q = bq
            kinds.add(kind)
            if kind == "bank":
                b = q["bank"]
                addr = ix.inline(sym.field(b, "address"))
                denom = ix.inline(sym.field(b, "denom"))
                if not (len(acct) == 1 and addr == acct[0]):
                    bad = bad or "the native arm asks for the balance of %s, not of the account argument" % sym.show(addr, 4)
                if not (tok and tag(denom) == "field" and payload(denom)[0] == "denom" and tok[0] in set(sym.walk(denom))):
                    bad = bad or "the native arm's denom is %s, not the token argument's" % sym.show(denom, 4)
                if fields != ["amount", "amount"]:
                    bad = bad or "the native arm returns .%s of the response" % ".".join(reversed(fields))
            else:
                mv = ix.msg_variant(q["msg"])
                addr = ix.inline(mv[2].get("address")) if mv and mv[2].get("address") is not None else None
                caddr = ix.inline(q["addr"]) if q.get("addr") is not None else None
                if not (len(acct) == 1 and addr == acct[0]):
                    bad = bad or "the cw20 arm asks for the balance of %s, not of the account argument" % (sym.show(addr, 4) if addr is not None else "?")
                if not (tok and caddr is not None and tag(caddr) == "field" and payload(caddr)[0] == "contract_addr" and tok[0] in set(sym.walk(caddr))):
                    bad = bad or "the cw20 arm queries contract %s, not the token argument's contract" % (sym.show(caddr, 4) if caddr is not None else "?")
                if fields != ["balance"]:
                    bad = bad or "the cw20 arm returns .%s of the response" % ".".join(reversed(fields))
        if kinds != {"bank", "cw20"}:
            bad = bad or "arms found: %s (expected a native and a cw20 arm)" % sorted(kinds)
        ctx.inst(rule, "balance-query-arms:%s" % short_fn(bf), bad is None, bf.where(),
                 bad or "both arms ask for (token argument, account argument) and return the response amount")
    # (b) call sites in the engine
    idx = _callers(ctx)
    n_sites = 0
    for bf in bfs:
        ai = [i for i in range(bf.arg_count) if bf.locals[i + 1]["ty"].endswith("cosmwasm_std::Addr") or bf.locals[i + 1]["ty"].endswith("String")]
        ti = [i for i in range(bf.arg_count) if bf.locals[i + 1]["ty"].endswith("AssetInfo")]
        for (g, e) in sorted(idx.get(bf.key, []), key=lambda x: (x[0].pretty, x[1].bb)):
            n_sites += 1
            bad = None
            if ai:
                for v in _resolve(ctx, idx, g, e.args[ai[0]]):
                    ok = tag(v) == "field" and payload(v)[0] == "address" and tag(kids(v)[0]) == "field" and payload(kids(v)[0])[0] == "contract" \
                        and tag(kids(kids(v)[0])[0]) == "param"
                    if not ok:
                        bad = bad or "the balance is read for %s, not for env.contract.address" % sym.show(v, 5)
            if ti:
                for v in _resolve(ctx, idx, g, e.args[ti[0]]):
                    if not guards.is_field_of_item(ix, v, ENG, "margined_engine:config", "eligible_collateral"):
                        bad = bad or "the balance is read of token %s, not of config.eligible_collateral" % sym.show(v, 5)
            ctx.inst(rule, "vault-balance-is-own:%s" % short_fn(g), bad is None, g.where(e.line),
                     bad or "balance of (config.eligible_collateral, env.contract.address) at every root of the call graph")
    if n_sites == 0:
        ctx.lost(rule, "engine call sites of the balance query")
