"""A setting the owner supplies in UpdateConfig takes effect (shared by C12 R12.7, C20 R20.6, C09 R09.7).

For each `Option` field f of the UpdateConfig message that names a field of the contract's Config record: on every success
path on which the message carries `Some(..)` for f, a Config is stored and the Config stored LAST carries the supplied
value in config.f (possibly validated / converted - the stored tree must be computed from the message field).  A path that
answers Ok without storing (an "empty update" shortcut that forgot one field), or that stores the loaded value back, makes
the protocol keep routing fees to the old pool / keep the old ratio although the update was accepted."""
from .. import sym, guards, arms as A
from ..sym import tag, payload, kids


def option_fields(world, contract, variant):
    adt = world.adts.get("margined_perp::%s::ExecuteMsg" % contract)
    out = []
    for v in (adt or {"variants": []})["variants"]:
        if v["name"] == variant:
            for fl in v.get("fields", []):
                if "Option<" in fl.get("ty", ""):
                    out.append(fl["name"])
    return out


def config_fields(world, contract):
    for k, adt in world.adts.items():
        if k.startswith(contract + "::") and k.endswith("::Config"):
            for v in adt["variants"]:
                return [fl["name"] for fl in v.get("fields", [])]
    return []


def update_sticks(ctx, rule, contract, variant="UpdateConfig", only=None):
    ix = ctx.ix
    item = contract + ":config"
    try:
        a = A.Arm(ix, contract, variant)
    except KeyError as e:
        ctx.lost(rule, str(e))
        return 0
    cfg = set(config_fields(ctx.world, contract))
    n_inst = 0
    for f in option_fields(ctx.world, contract, variant):
        if f not in cfg or (only is not None and f not in only):
            continue
        mf = a.msgfield(f)
        bad = None
        n_asked = 0
        for q in a.ok_paths():
            asked = False
            for (at, o, _b, _l) in q.conds:
                ai = ix.inline(a.c(at))
                if o is True and tag(ai) == "op" and payload(ai)[0] == "is_some" and ix.inline(kids(ai)[0]) == mf:
                    asked = True
                if o is False and tag(ai) == "op" and payload(ai)[0] == "is_none" and ix.inline(kids(ai)[0]) == mf:
                    asked = True
                if tag(ai) == "op" and payload(ai)[0] == "discr" and ix.inline(kids(ai)[0]) == mf and o == ("variant", "Some"):
                    asked = True
            if not asked:
                continue
            n_asked += 1
            last = None
            for ev_ in q.events:
                if getattr(ev_, "opened", False) and ev_.target is not None:
                    continue
                for wr in ix.writes_of_event(ev_, a.m):
                    if wr["item"] == item and wr["kind"] == "write" and wr["value"] is not None:
                        last = wr["value"]
            if last is None:
                bad = bad or "a success path on which the message supplies `%s` stores no Config: the update is acknowledged and dropped" % f
                continue
            v = ix.inline(a.c(sym.field(last, f)))
            if not any(y == mf for y in sym.walk(v)):
                bad = bad or "on a path on which the message supplies `%s` the Config stored last carries config.%s = %s, not the supplied value" % (f, f, sym.show(v, 5)[:160])
        if n_asked == 0 and bad is None:
            # no path branches on the option (`cfg.f = msg.f.unwrap_or(cfg.f)`): then every Config stored last must be
            # computed from the message field
            for q in a.ok_paths():
                last = None
                for ev_ in q.events:
                    if getattr(ev_, "opened", False) and ev_.target is not None:
                        continue
                    for wr in ix.writes_of_event(ev_, a.m):
                        if wr["item"] == item and wr["kind"] == "write" and wr["value"] is not None:
                            last = wr["value"]
                if last is None:
                    continue
                v = ix.inline(a.c(sym.field(last, f)))
                if any(y == mf for y in sym.walk(v)):
                    n_asked += 1
                else:
                    bad = bad or "no path tests whether `%s` is supplied and a stored Config carries config.%s = %s, not computed from it" % (f, f, sym.show(v, 5)[:160])
        ctx.inst(rule, "supplied-setting-stored:%s::%s:%s" % (contract, variant, f), bad is None and n_asked > 0, a.fn.where(),
                 bad or "%d success paths supply `%s`; each stores a Config last whose %s is computed from it" % (n_asked, f, f))
        n_inst += 1
    return n_inst
