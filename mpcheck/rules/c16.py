"""C16 — After a liquidation, no second position action in the same block."""
from .. import sym, guards, arms, model
from ..sym import tag, payload, kids
from .common import *

EXPLANATION = ("R16.1 restriction guard on every success path of OpenPosition/ClosePosition and absent from the other arms; "
               "R16.2 its rejecting condition is exactly the conjunction (vAMM marker == height) && (position stamp == height) on the "
               "acting (vamm, sender); R16.3 both liquidation replies set the marker of tmp_swap.vamm to env.block.height on every "
               "success path; R16.4 every position store in a trade reply stamps block_number = env.block.height; R16.5 every other "
               "writer of the vAMM map preserves the marker.")
NOT_DECIDED = "nothing numeric is involved; block heights are compared for equality only."

ENG = "margined_engine"
VMAP = "margined_engine:vamm-map"
POS = "margined_engine:position"


def mentions_marker(ix, alt):
    for (a, o) in alt:
        for x in sym.walk(a):
            if tag(x) == "field" and payload(x)[0] == "last_restriction_block":
                return True
    return False


def marker_atom(ix, atom, step, vamm_pred):
    """is atom eq(load vamm-map[vamm].last_restriction_block, height)?"""
    if tag(atom) != "op" or payload(atom)[0] != "eq":
        return False
    a, b = kids(atom)
    for x, y in ((a, b), (b, a)):
        xi = ix.inline(x)
        if tag(xi) == "field" and payload(xi)[0] == "last_restriction_block" and y == step.height:
            base = kids(xi)[0]
            if guards.loaded_item(ix, base, ENG) == VMAP and vamm_pred(base):
                return True
    return False


def stamp_atom(ix, atom, step, pos_pred):
    if tag(atom) != "op" or payload(atom)[0] != "eq":
        return False
    a, b = kids(atom)
    for x, y in ((a, b), (b, a)):
        xi = ix.inline(x)
        if tag(xi) == "field" and payload(xi)[0] == "block_number" and y == step.height:
            base = kids(xi)[0]
            if guards.loaded_item(ix, base, ENG) == POS and pos_pred(base):
                return True
    return False


def contains(v, needle):
    return needle in set(sym.walk(v))


def run(ctx):
    ix = ctx.ix
    ctx.rule("R16.1", "restriction guard holds on every success path of OpenPosition and ClosePosition; no other arm tests the marker", 11)
    ctx.rule("R16.2", "the guard rejects exactly when marker==height AND the sender's position stamp==height (both sub-checks decide)", 2)
    ctx.rule("R16.3", "both liquidation replies set last_restriction_block of tmp_swap.vamm to env.block.height on every success path", 2)
    ctx.rule("R16.4", "every position store in a trade/liquidation reply stamps block_number = env.block.height", 5)
    ctx.rule("R16.5", "every write of the vAMM map sets the marker to the height (restriction entry) or preserves the loaded one", 2)

    table = ix.arms(ENG, "execute")
    if table is None:
        ctx.lost("R16.1", "margined_engine::contract::execute")
        return
    variants = sorted(v for v in table[2] if v != "<none>")
    for variant in variants:
        try:
            a = arms.Arm(ix, ENG, variant)
        except KeyError as e:
            ctx.lost("R16.1", str(e))
            continue
        ctx.analysed["functions"].add(a.fn.pretty)
        guarded = variant in ("OpenPosition", "ClosePosition")
        alts = a.alternatives()
        ctx.note_paths(len(a.ok_paths()))
        if not guarded:
            bad = [q for (q, alt) in alts if mentions_marker(ix, alt)]
            ctx.inst("R16.1", "unrestricted:%s" % variant, not bad, a.fn.where(),
                     "%d alternatives; %s" % (len(alts), "the restriction marker is tested on a success path (bystanders/liquidators must not be restricted)" if bad else "marker not consulted"))
            continue
        vamm_v = a.msgfield("vamm")

        def vamm_pred(base, vamm_v=vamm_v):
            return contains(ix.inline(base), vamm_v)

        def pos_pred(base, vamm_v=vamm_v, sender=a.sender):
            b = ix.inline(base)
            return contains(b, vamm_v) and contains(b, sender)
        bad = None
        shapes = set()
        for (q, alt) in alts:
            m_false = any(o is False and marker_atom(ix, at, a, vamm_pred) for (at, o) in alt)
            m_true = any(o is True and marker_atom(ix, at, a, vamm_pred) for (at, o) in alt)
            s_false = any(o is False and stamp_atom(ix, at, a, pos_pred) for (at, o) in alt)
            s_true = any(o is True and stamp_atom(ix, at, a, pos_pred) for (at, o) in alt)
            if not (m_false or s_false):
                bad = bad or q
            shapes.add((m_false, m_true, s_false, s_true))
        ctx.inst("R16.1", "restricted:%s" % variant, bad is None and bool(alts), a.fn.where(),
                 "%d alternatives over %d success paths; %s" % (len(alts), len(a.ok_paths()),
                    "every one has marker!=height or stamp!=height for (msg.vamm, info.sender)" if bad is None else
                    "a success path does not establish the restriction guard for (msg.vamm, info.sender): conditions %s" %
                    "; ".join("%s=%s" % (sym.show(c[0], 5), c[1]) for c in bad.conds[:10])))
        # R16.2: both sub-checks matter: there is a success alternative where the first test was true and the
        # second false (so neither alone rejects), and one decided by the first test alone
        both = any((mt and sf) or (st and mf) for (mf, mt, sf, st) in shapes)
        ctx.inst("R16.2", "conjunction:%s" % variant, both and bad is None, a.fn.where(),
                 "success shapes (marker!=h, marker==h, stamp!=h, stamp==h): %s; %s" % (sorted(shapes),
                    "a trader is let through when only one of the two coincides" if both else
                    "no success alternative has exactly one of the two equalities true: the rejection is not the conjunction"))

    # ---- chains -------------------------------------------------------------
    chains = arms.engine_chains(ix, ENG)
    liq_steps = {}
    trade_steps = {}
    for key, steps in chains.items():
        root = key.split(">")[0]
        for st in steps[1:]:
            if root == "Liquidate":
                liq_steps[(st.fn.key, st.label)] = st
            if root in ("OpenPosition", "ClosePosition", "Liquidate"):
                trade_steps[(st.fn.key, st.label)] = st
    if len(liq_steps) < 2:
        ctx.lost("R16.3", "liquidation reply handlers (found %d)" % len(liq_steps))
    for st in liq_steps.values():
        ctx.analysed["functions"].add(st.fn.pretty)
        bad = None
        n = 0
        for q in st.ok_paths():
            n += 1
            ok = False
            for wr in st.writes(q):
                if wr["item"] == VMAP and wr["kind"] == "write" and wr["must"] and wr["value"] is not None:
                    val = ix.inline(wr["value"])
                    key = ix.inline(wr["key"]) if wr["key"] is not None else None
                    lrb = sym.field(val, "last_restriction_block")
                    swap_vamm_ok = key is not None and any(
                        tag(x) == "field" and payload(x)[0] == "vamm" and guards.loaded_item(ix, kids(x)[0], ENG) == "margined_engine:tmp-swap"
                        for x in sym.walk(key))
                    if lrb == st.height and swap_vamm_ok:
                        ok = True
            if not ok:
                bad = bad or q
        ctx.note_paths(n)
        ctx.inst("R16.3", "enter-restriction:%s:%s" % (short_fn(st.fn), st.label), bad is None and n > 0, st.fn.where(),
                 "%d success paths; %s" % (n, "marker of tmp_swap.vamm := env.block.height on all" if bad is None else
                                          "a success path does not set the marker of tmp_swap.vamm to env.block.height"))
    # ---- R16.4 ----------------------------------------------------------------
    n_sites = 0
    for st in trade_steps.values():
        bad = None
        stores = 0
        for q in st.ok_paths():
            for wr in st.writes(q):
                if wr["item"] == POS and wr["kind"] == "write" and wr["value"] is not None:
                    stores += 1
                    val = ix.inline(wr["value"])
                    bn = sym.field(val, "block_number")
                    if bn != st.height:
                        bad = bad or (q, bn)
        if stores == 0:
            continue
        n_sites += 1
        ctx.inst("R16.4", "stamp:%s:%s" % (short_fn(st.fn), st.label), bad is None, st.fn.where(),
                 "%d position stores over its success paths; %s" % (stores, "all stamp env.block.height" if bad is None else
                    "a stored position has block_number = %s" % sym.show(bad[1], 6)))
    # ---- R16.5 ----------------------------------------------------------------
    for f in sorted(ctx.world.crate_fns(ENG), key=lambda f: f.pretty):
        if f.derived or "::_::" in f.pretty or f.kind == "Closure":
            continue
        try:
            oks = ix.ok_paths(f)
        except Exception:
            continue
        for q in oks:
            for e in q.events:
                pw = ix.prim_write(e)
                if not pw or pw["item"] != VMAP or pw["kind"] != "write":
                    continue
                # direct writer: resolve callers one level up so the value is expressed in a caller's terms
                pass
    writers = {}
    for f in ctx.world.crate_fns(ENG):
        if f.derived or "::_::" in f.pretty or f.kind == "Closure":
            continue
        try:
            oks = ix.ok_paths(f)
        except Exception:
            continue
        for q in oks:
            for e in q.events:
                if e.target is None:
                    continue
                for wr in ix.writes_of_event(e, depth=3):
                    # (a generic load-modify-store helper bound to the caller's closure does not count as a level)
                    if wr["item"] == VMAP and wr["kind"] == "write" and wr["value"] is not None and len([k for k in wr["chain"] if k not in ctx.world.spec]) == 1:
                        # f calls a function that (directly) stores the map: f is the updater
                        writers.setdefault((f.pretty, e.target.pretty), []).append((q, wr))
    seen = set()
    for (fname, callee), lst in sorted(writers.items()):
        # the updater is the function that loads-modifies-stores: keep those whose stored value is a modified load
        for (q, wr) in lst:
            val = ix.inline(wr["value"])
            lrb = sym.field(val, "last_restriction_block")
            base_ok = False
            lrbi = ix.inline(lrb)
            if tag(lrbi) == "field" and payload(lrbi)[0] == "last_restriction_block" and guards.loaded_item(ix, kids(lrbi)[0], ENG) == VMAP:
                base_ok = "preserved"
            elif tag(lrbi) == "param" or (tag(lrbi) == "field" and payload(lrbi)[0] == "height"):
                base_ok = "set from %s" % sym.show(lrbi, 4)
            key = "vamm-map-writer:%s" % fname
            if tag(val) == "param":
                continue  # pure pass-through wrapper (store_vamm_map itself)
            if any(tag(x) == "call" and payload(x)[0].startswith("std::ops::Fn") and kids(x) and tag(kids(x)[0]) == "param" for x in sym.walk(val)):
                continue  # generic load-modify-store helper: the modification is its caller's closure, judged at each caller
            if key in seen and base_ok:
                continue
            seen.add(key)
            ctx.inst("R16.5", key, bool(base_ok), ctx.world.fn(fname).where(),
                     "stores VammMap with last_restriction_block = %s (%s)" % (sym.show(lrbi, 6), base_ok or "NEITHER the loaded marker NOR a block height: a funding/other update would clear or forge the restriction"))

    # ---------------------------------------------------------------- R16.6
    # the restriction check reads the block stamp from the stored position; a reply that REMOVES the record drops the
    # stamp, so a trader whose position was closed or liquidated in this block looks untouched to the check
    ctx.rule("R16.6", "a reply that ends a position keeps the (vamm, trader) pair's block stamp for the restriction check (the record is not simply removed)", 2)
    from .em import EM as _EM
    em6 = _EM(ctx)
    for (st, root, depth, ckey) in sorted(em6.steps.values(), key=lambda x: (x[3], x[2])):
        if depth == 0:
            continue
        removing = [q for q in st.ok_paths() if em6.removed_position(st, q)]
        if not removing:
            continue
        ctx.inst("R16.6", "stamp-survives-end:%s:%s" % (short_fn(st.fn), st.label), False, st.fn.where(),
                 "%d success paths remove the position record together with its block stamp: the (liquidated / closing) trader can open on this vAMM again in the same block although a liquidation happened in it" % len(removing))
