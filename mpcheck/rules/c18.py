"""C18 — Time-weighted prices stay within the prices actually observed (structural clauses)."""
from .. import sym, guards, arms, model, norm
from ..sym import tag, payload, kids
from ..norm import N, match, hole, anyhole
from .common import *

EXPLANATION = ("R18.1 reserve snapshots are written only by instantiate and by the snapshot writer, which follows every reserve write with "
               "the reserves just stored; R18.2 the writer overwrites the latest snapshot iff it is from the current block, otherwise "
               "appends one stamped with the current time and height; R18.3 the price feed stores a submission unmodified (price and "
               "timestamp of the message, next round id) and its latest / n-rounds-back queries return stored elements; R18.4 on every "
               "path of the two TWAP functions that ends within one unrolled iteration, the result is a single observed price or "
               "sum(price_i * w_i) / D whose weights telescope to exactly D (now - t0 + t0 - base = interval, or the covered period when "
               "the history is shorter), and the averaging loop has no exit other than history exhausted / window start reached; R18.5 the vAMM's TwapPrice / InputTwap / "
               "OutputTwap queries average, per snapshot, the reserve price / the input / the output pricing function of (msg.direction, "
               "msg.amount) on the snapshot's reserves, starting at snapshot[counter] (composed from the arm's parameter value and the "
               "per-snapshot price function).")
NOT_DECIDED = ("the convexity claim itself for histories longer than the unrolled prefix (weights of later iterations are loop-carried); "
               "the zero-interval and single-snapshot shortcuts return the current price (checked), but that the price lies between min "
               "and max is arithmetic.")

VAMM = "margined_vamm"
PF = "margined_pricefeed"
SNAP = "margined_vamm:reserve_snapshot"
CNT = "margined_vamm:reserve_snapshot_counter"


def linear(ix, n, env, depth=12):
    """normal-form tree -> {leaf: coefficient} for +/- over leaves; None if not linear"""
    if n[0] == "int":
        return {"1": n[1]} if n[1] else {}
    if n[0] == "leaf":
        v = n[1]
        if v in env:
            return dict(env[v])
        if not isinstance(v, int) or depth <= 0:
            return {v: 1}
        vi = ix.inline(v)
        while tag(vi) in ("unwrap", "ok", "cast"):
            vi = kids(vi)[0]
            if vi in env:
                return dict(env[vi])
        if tag(vi) == "op" and payload(vi)[0] in ("max", "min") and len(kids(vi)) == 2 and env.get("$facts"):
            # max(a, b) / min(a, b) under a path fact that orders a and b
            a, b = ix.inline(kids(vi)[0]), ix.inline(kids(vi)[1])
            small = None
            for (nm, x, y, o) in env["$facts"]:
                if {x, y} != {a, b}:
                    continue
                lo, hi = (x, y) if ((nm in ("le", "lt")) == bool(o)) else (y, x)
                small = lo
            if small is not None:
                big = b if small == a else a
                return linear(ix, ("leaf", big if payload(vi)[0] == "max" else small), env, depth - 1)
        if tag(vi) == "op" and payload(vi)[0] in ("u64.checked_sub", "sub", "add", "u.checked_sub", "u.checked_add", "u.sub", "u.add") and len(kids(vi)) == 2:
            a, b = kids(vi)
            la, lb = linear(ix, ("leaf", a), env, depth - 1), linear(ix, ("leaf", b), env, depth - 1)
            if la is None or lb is None:
                return None
            sign = -1 if "sub" in payload(vi)[0] else 1
            out = dict(la)
            for k, c in lb.items():
                out[k] = out.get(k, 0) + sign * c
            return {k: c for k, c in out.items() if c}
        if tag(vi) == "int":
            return {"1": int(payload(vi)[0])} if int(payload(vi)[0]) else {}
        return {vi: 1}
    if n[0] in ("add", "sub") and depth > 0:
        la, lb = linear(ix, n[1], env, depth - 1), linear(ix, n[2], env, depth - 1)
        if la is None or lb is None:
            return None
        out = dict(la)
        for k, c in lb.items():
            out[k] = out.get(k, 0) + (c if n[0] == "add" else -c)
        return {k: c for k, c in out.items() if c}
    return None


def N64(ix, v):
    """like N but sees through u64 checked_sub / Uint128::from conversions"""
    vi = ix.inline(v)
    while tag(vi) in ("unwrap", "ok"):
        vi = kids(vi)[0]
    if tag(vi) == "op" and payload(vi)[0] in ("u64.checked_sub", "sub", "add"):
        return ("leaf", vi)
    return N(ix, v)


def run(ctx):
    ix = ctx.ix
    w = ctx.world
    ctx.rule("R18.1", "snapshot writers: only instantiate and the snapshot writer; every reserve write is followed by a snapshot of the stored reserves", 3)
    ctx.rule("R18.2", "snapshot writer: overwrite iff same block, else append with new timestamp and height", 1)
    ctx.rule("R18.3", "price feed stores submissions unmodified; latest / n-back queries return stored elements", 3)
    ctx.rule("R18.4", "TWAP results on the unrolled prefix: single observed price or weights telescoping to the divisor; no extra loop exit", 2)

    # ---------------------------------------------------------------- R18.1
    t = ix.arms(VAMM, "execute")
    snap_writers = {}
    for variant in sorted(v for v in t[2] if v != "<none>"):
        a = arms.Arm(ix, VAMM, variant)
        may, _ = ix.event_effects(a.event)
        if ("write", SNAP) in may:
            snap_writers[variant] = a
    ctx.inst("R18.1", "snapshot-writing-arms", set(snap_writers) == {"SwapInput", "SwapOutput"}, "", "execute arms that may write reserve snapshots: %s" % sorted(snap_writers))
    # pairing inside the reserve writer
    for f in w.crate_fns(VAMM):
        if f.derived or "::_::" in f.pretty or f.kind == "Closure":
            continue
        try:
            oks = ix.ok_paths(f)
        except Exception:
            continue
        direct = [p for p in oks if any(wr["item"] == "margined_vamm:state" and len(wr["chain"]) <= 1 and wr["value"] is not None and
                                        not guards.is_field_of_item(ix, sym.field(ix.inline(wr["value"]), "quote_asset_reserve"), VAMM, "margined_vamm:state", "quote_asset_reserve")
                                        for wr in ix.writes_on_path(p))]
        if not direct or f.pretty.endswith("contract::instantiate") or "Direction" not in " ".join(f.locals[i + 1]["ty"] for i in range(f.arg_count)):
            continue
        bad = None
        for p in direct:
            stored = None
            idx_store = None
            for i, e in enumerate(p.events):
                for wr in ix.writes_of_event(e):
                    if wr["item"] == "margined_vamm:state" and wr["value"] is not None:
                        stored = ix.inline(wr["value"])
                        idx_store = i
            followed = False
            for j, e in enumerate(p.events):
                if idx_store is not None and j > idx_store and ("write", SNAP) in ix.event_effects(e)[0]:
                    qv = ix.inline(sym.field(stored, "quote_asset_reserve"))
                    bv = ix.inline(sym.field(stored, "base_asset_reserve"))
                    args = [ix.inline(x) for x in e.args]
                    if qv in args and bv in args and guards.propagated(p, e):
                        followed = True
            if not followed:
                bad = bad or p
        ctx.inst("R18.1", "snapshot-follows-reserve-write:%s" % short_fn(f), bad is None, f.where(),
                 "%d reserve-writing success paths; %s" % (len(direct), "each is followed by a snapshot of the stored reserves" if bad is None else
                    "a reserve write is not followed by a snapshot of the stored reserves"))
    fi = ix.entry(VAMM, "instantiate")
    ok_i = False
    if fi is not None:
        for p in ix.ok_paths(fi):
            st_val = sn_val = None
            for wr in ix.writes_on_path(p):
                if wr["item"] == "margined_vamm:state" and wr["value"] is not None:
                    st_val = ix.inline(wr["value"])
                if wr["item"] == SNAP and wr["value"] is not None:
                    sn_val = ix.inline(wr["value"])
            if st_val is not None and sn_val is not None:
                ok_i = all(ix.inline(sym.field(st_val, f_)) == ix.inline(sym.field(sn_val, f_)) for f_ in ("quote_asset_reserve", "base_asset_reserve"))
    ctx.inst("R18.1", "initial-snapshot", ok_i, fi.where() if fi else "", "instantiate stores a first snapshot with the initial reserves: %s" % ok_i)

    # ---------------------------------------------------------------- R18.2
    sw = None
    for f in w.crate_fns(VAMM):
        if f.derived or "::_::" in f.pretty or f.kind == "Closure" or f.pretty.endswith("contract::instantiate"):
            continue
        try:
            oks = ix.ok_paths(f)
        except Exception:
            continue
        kinds = set()
        for p in oks:
            for e in p.events:
                if e.target is not None and ("write", SNAP) in ix.event_effects(e)[0]:
                    # at this call site (a shared saver may take the slot - append / overwrite - as an argument)
                    kinds.add(any(wr["item"] == CNT for wr in ix.writes_of_event(e)))
        if kinds == {True, False}:
            sw = f
    if sw is None:
        ctx.lost("R18.2", "snapshot writer (has an overwrite path and an appending path)")
    else:
        envp = [sym.param(sw.key, i, sw.param_name(i)) for i in range(sw.arg_count) if sw.locals[i + 1]["ty"].endswith("cosmwasm_std::Env")]
        h = sym.field(sym.field(envp[0], "block"), "height") if envp else None
        tm = sym.field(sym.field(envp[0], "block"), "time") if envp else None
        bad = None
        seen = set()
        for p in ix.ok_paths(sw):
            same = None
            for (at, o, _b, _l) in p.conds:
                ai = ix.inline(at)
                if tag(ai) == "op" and payload(ai)[0] == "eq" and h in kids(ai):
                    other = [k for k in kids(ai) if k != h][0]
                    if tag(ix.inline(other)) == "field" and payload(ix.inline(other))[0] == "block_height":
                        same = o
            appended = any(e.target is not None and any(wr["item"] == CNT for wr in ix.writes_of_event(e)) for e in p.events)
            val = None
            for wr in ix.writes_on_path(p):
                if wr["item"] == SNAP and wr["value"] is not None:
                    val = ix.inline(wr["value"])
            if same is None or val is None:
                bad = bad or "a path lacks the same-block test or the snapshot write"
                continue
            seen.add(same)
            if same and appended:
                bad = bad or "same block but a new snapshot is appended"
            if not same:
                if not appended:
                    bad = bad or "new block but the latest snapshot is overwritten"
                # appending means: the counter becomes the loaded counter + 1 and the snapshot is stored under that index
                for wr in ix.writes_on_path(p):
                    if wr["item"] == CNT and wr["kind"] == "write" and wr["value"] is not None:
                        nv_ = N(ix, wr["value"])
                        okc = isinstance(nv_, tuple) and nv_[0] == "add" and ("int", 1) in nv_[1:] and \
                            any(isinstance(t_, tuple) and t_[0] == "leaf" and guards.loaded_item(ix, sym.unwrap(t_[1]) if tag(t_[1]) == "unwrap" else t_[1], VAMM) == CNT or
                                (isinstance(t_, tuple) and t_[0] == "leaf" and any(guards.loaded_item(ix, x_, VAMM) == CNT for x_ in sym.walk(ix.inline(t_[1]))))
                                for t_ in nv_[1:])
                        if not okc:
                            bad = bad or "an append moves the snapshot counter to %s, not to counter + 1" % norm.show(nv_)[:120]
                if ix.inline(sym.field(val, "block_height")) != h or ix.inline(sym.field(val, "timestamp")) != tm:
                    bad = bad or "appended snapshot is not stamped with env.block.time / env.block.height"
            qp = [sym.param(sw.key, i, sw.param_name(i)) for i in range(sw.arg_count) if sw.locals[i + 1]["ty"].endswith("Uint128")]
            if set(qp) != {ix.inline(sym.field(val, "quote_asset_reserve")), ix.inline(sym.field(val, "base_asset_reserve"))}:
                bad = bad or "snapshot reserves are not the two reserve arguments"
        ctx.inst("R18.2", "overwrite-or-append:%s" % short_fn(sw), bad is None and seen == {True, False}, sw.where(), bad or "overwrite iff snapshot.block_height == env.block.height, else append stamped (time, height)")

    # ---------------------------------------------------------------- R18.3
    for variant in ("AppendPrice", "AppendMultiplePrice"):
        try:
            a = arms.Arm(ix, PF, variant)
        except KeyError as e:
            ctx.lost("R18.3", str(e))
            continue
        bad = None
        n = 0
        for q in a.ok_paths():
            for e in q.events:
                if e.target is None or ("write", "margined_pricefeed:prices") not in ix.event_effects(e)[0]:
                    continue
                # the storing helper: (storage, key, price, timestamp)
                for p2 in ix.ok_paths(e.target):
                    for wr in ix.writes_on_path(p2):
                        if wr["item"] != "margined_pricefeed:prices" or wr["value"] is None:
                            continue
                        n += 1
                        val = ix.inline(wr["value"])
                        pushed = None
                        if tag(val) in ("vec", "vecpush"):
                            pushed = kids(val)[-1]
                        if pushed is None:
                            bad = bad or "stored list is not the loaded list plus one element"
                            continue
                        pv = ix.inline(pushed)
                        params = {e.target.param_name(i): sym.param(e.target.key, i, e.target.param_name(i)) for i in range(e.target.arg_count)}
                        price_ok = ix.inline(sym.field(pv, "price")) in params.values()
                        ts = ix.inline(sym.field(pv, "timestamp"))
                        ts_ok = tag(ts) == "op" and payload(ts)[0] == "ts.from_seconds" and kids(ts)[0] in params.values()
                        if not (price_ok and ts_ok):
                            bad = bad or "pushed element has price=%s timestamp=%s" % (sym.show(sym.field(pv, "price"), 4), sym.show(ts, 4))
                        # round ids count the stored elements (the list starts with the round-0 placeholder), so the new
                        # round's id is the length of the list it is appended to: the n-rounds-back and TWAP guards rely on it
                        rid = ix.inline(sym.field(pv, "round_id"))
                        while tag(rid) == "cast":
                            rid = kids(rid)[0]
                        base_list = kids(val)[0] if tag(val) == "vecpush" else None
                        if not (tag(rid) == "op" and payload(rid)[0] == "len" and base_list is not None and ix.inline(kids(rid)[0]) == ix.inline(base_list)):
                            bad = bad or "pushed element has round_id=%s, not the length of the list it is appended to" % sym.show(ix.inline(sym.field(pv, "round_id")), 5)
                # arguments of the storing call are message fields
                if variant == "AppendPrice":
                    args = [a.s(x) for x in e.args]
                    if a.msgfield("price") not in args or a.msgfield("timestamp") not in args or a.msgfield("key") not in args:
                        bad = bad or "the stored (key, price, timestamp) are not the message's"
                else:
                    # the i-th price goes with the i-th timestamp: both arguments index their list with the same index
                    args = [ix.inline(a.s(x)) for x in e.args]
                    idx_of = {}
                    for x in args:
                        y = x
                        while tag(y) in ("unwrap", "ok") or (tag(y) == "call" and str(payload(y)[0]).split("::")[-1] in ("clone", "copied", "cloned") and kids(y)):
                            y = ix.inline(kids(y)[0])
                        if tag(y) == "call" and str(payload(y)[0]).split("::")[-1] in ("index", "get") and len(kids(y)) == 2:
                            base = ix.inline(kids(y)[0])
                            for nm_ in ("prices", "timestamps"):
                                if base == a.msgfield(nm_):
                                    idx_of[nm_] = ix.inline(kids(y)[1])
                    if a.msgfield("key") not in args:
                        bad = bad or "the stored key is not the message's"
                    if set(idx_of) != {"prices", "timestamps"} or idx_of["prices"] != idx_of["timestamps"]:
                        bad = bad or "the stored (price, timestamp) are not msg.prices[i], msg.timestamps[i] for one index i (%s)" % {k_: sym.show(v_, 3) for k_, v_ in idx_of.items()}
        ctx.inst("R18.3", "stored-unmodified:%s" % variant, bad is None and n > 0, a.fn.where(), bad or "%d store sites: element {price: arg, timestamp: from_seconds(arg)} appended to the loaded list" % n)
    try:
        qa = arms.Arm(ix, PF, "GetPrice", entry="query")
        okq = True
        for q in qa.ok_paths():
            r = ix.inline(sym.unwrap(q.ret))
            found = False
            for x in sym.walk(r):
                is_pop = tag(x) == "call" and payload(x)[0].endswith("::pop") and not any(tag(y) == "mutby" for y in sym.walk(kids(x)[0]))
                if (tag(x) == "call" and payload(x)[0].endswith("::last")) or is_pop:
                    # (`pop()` on the list as loaded - nothing removed from it before - hands out the same last element)
                    if any(guards.loaded_item(ix, y, PF) == "margined_pricefeed:prices" for y in sym.walk(kids(x)[0])):
                        found = True
                    for y in sym.walk(kids(x)[0]):
                        outs = ix.outcomes(y) if tag(y) == "call" else None
                        if outs and any(guards.loaded_item(ix, sym.unwrap(ret), PF) == "margined_pricefeed:prices" for (_p, ret, _m) in outs):
                            found = True
            if not found:
                okq = False
        ctx.inst("R18.3", "latest-returns-stored", okq and bool(qa.ok_paths()), qa.fn.where(), "GetPrice returns the last element of the stored list: %s" % okq)
    except KeyError as e:
        ctx.lost("R18.3", str(e))

    # n rounds back: the stored list starts with a placeholder round 0 that nobody submitted, so going back must stay
    # strictly below the latest round id (n == round_id would return the placeholder)
    try:
        pa = arms.Arm(ix, PF, "GetPreviousPrice", entry="query")
        n_v = pa.msgfield("num_round_back")
        bad = None

        def strict_guard(fs):
            for (at, o) in fs:
                if tag(at) in ("op", "call") and len(kids(at)) == 2:
                    short = str(payload(at)[0]).split("::")[-1]
                    l, r = ix.inline(kids(at)[0]), ix.inline(kids(at)[1])
                    rid = lambda v: tag(v) == "field" and payload(v)[0] == "round_id"
                    if (l == n_v and rid(r) and ((short == "ge" and o is False) or (short == "lt" and o is True))) or \
                       (r == n_v and rid(l) and ((short == "le" and o is False) or (short == "gt" and o is True))):
                        return True
            return False
        oks = pa.ok_paths()
        for q in oks:
            if not guards.path_satisfies(ix, q, strict_guard, pa.m):
                bad = bad or "a success path does not establish num_round_back < latest.round_id (going back exactly round_id rounds returns the placeholder round 0 that nobody submitted)"
        ctx.inst("R18.3", "previous-stays-within-submitted", bad is None and bool(oks), pa.fn.where(), bad or "%d success paths, each with num_round_back < latest.round_id" % len(oks))
        # ... and goes back EXACTLY that many rounds: where the answer is reached by popping the newest rounds off a copy
        # of the list, a path that popped k times has established j < n for every j < k and NOT k < n, i.e. n == k
        # (blind sweep: `while i <= n` returned the round before the one asked for)
        popped_any = False
        badk = None
        n_chk = 0
        for q in oks:
            k_pops = sum(1 for e in q.events if e.name.endswith("::pop") and "Vec" in e.name)
            if k_pops:
                popped_any = True
        if popped_any:
            for q in oks:
                k_pops = sum(1 for e in q.events if e.name.endswith("::pop") and "Vec" in e.name)
                cmps = {}
                for (at, o, _b, _l) in q.conds:
                    ai = ix.inline(pa.c(at))
                    if tag(ai) == "op" and payload(ai)[0] == "lt" and len(kids(ai)) == 2 and tag(kids(ai)[0]) == "int" and ix.inline(kids(ai)[1]) == n_v and o in (True, False):
                        cmps[int(payload(kids(ai)[0])[0])] = o
                n_chk += 1
                want = {j: True for j in range(k_pops)}
                want[k_pops] = False
                if cmps != want:
                    badk = badk or "a path that pops %d round(s) has the loop tests %s on num_round_back, not j < n for j < %d and not %d < n" % (k_pops, sorted(cmps.items()), k_pops, k_pops)
            ctx.inst("R18.3", "previous-exactly-n-back", badk is None and n_chk > 0, pa.fn.where(), badk or "%d success paths: k pops <=> num_round_back == k" % n_chk)
        else:
            # no popping: the answer must be the element exactly `num_round_back` places before the last one of the stored
            # list (`iter().rev().nth(n)`; zero places back is `last()`)
            for q in oks:
                r = ix.inline(pa.c(sym.unwrap(q.ret)))
                while tag(r) == "unwrap":
                    r = kids(r)[0]
                n_chk += 1
                def stored_list(v):
                    for y in sym.walk(v):
                        if guards.loaded_item(ix, y, PF) == "margined_pricefeed:prices":
                            return True
                        outs = ix.outcomes(y) if tag(y) == "call" else None
                        if outs and any(guards.loaded_item(ix, sym.unwrap(ret), PF) == "margined_pricefeed:prices" for (_p, ret, _m) in outs):
                            return True
                    return False
                okn = tag(r) == "call" and payload(r)[0] == "list::nth_back" and ix.inline(kids(r)[1]) in (n_v, ix.inline(n_v)) and \
                    stored_list(kids(r)[0]) and not any(tag(y) == "mutby" for y in sym.walk(kids(r)[0]))
                if not okn:
                    badk = badk or "the answer is %s, not the stored list's element num_round_back places before the last" % sym.show(r, 6)[:200]
            ctx.inst("R18.3", "previous-exactly-n-back", badk is None and n_chk > 0, pa.fn.where(), badk or "%d success paths answer nth_back(stored list, num_round_back)" % n_chk)
    except KeyError as e:
        ctx.lost("R18.3", str(e))

    # ---------------------------------------------------------------- R18.4
    twaps = []
    for c, nm in ((VAMM, "calc_twap"), (PF, "query_get_twap_price")):
        # anchored by behaviour: loops + divides a weighted sum by an `interval` parameter
        for f in w.crate_fns(c):
            if f.derived or "::_::" in f.pretty or f.kind == "Closure":
                continue
            has_interval = any(f.param_name(i) == "interval" or f.locals[i + 1]["ty"] == "u64" for i in range(f.arg_count))
            if not has_interval:
                continue
            try:
                ps = ix.paths(f)
            except Exception:
                continue
            if any(p.exit == "cut" for p in ps) and any(p.kind() in ("ok",) and N(ix, sym.unwrap(p.ret))[0] == "div" for p in ps):
                twaps.append(f)
    if len(twaps) < 2:
        ctx.lost("R18.4", "the two TWAP functions (found %d)" % len(twaps))
    unroll_note = {}
    for f in twaps:
        ctx.analysed["functions"].add(f.pretty)
        interval = [sym.param(f.key, i, f.param_name(i)) for i in range(f.arg_count) if f.locals[i + 1]["ty"] == "u64"][-1]
        envp = [sym.param(f.key, i, f.param_name(i)) for i in range(f.arg_count) if f.locals[i + 1]["ty"].endswith("cosmwasm_std::Env")]
        now = sym.op("ts.seconds", sym.field(sym.field(envp[0], "block"), "time")) if envp else None
        env = {interval: {"interval": 1}}
        if now is not None:
            env[now] = {"now": 1}
        bad = None
        n_single = n_avg = 0
        exits = set()
        # quick: the loop body is seen zero and one time (one full iteration + the exit of the second);
        # thorough: two more unrollings, so the weights of THREE consecutive full iterations and the exit of a fourth are
        # checked - the step k -> k+1 of the telescoping argument with the iterations symbolic
        depth = 4 if ctx.tier == "thorough" else None
        try:
            all_paths = ix.ev.paths(f, depth) if depth else ix.paths(f)
        except Exception:
            all_paths = ix.paths(f)
            depth = None
        unroll_note[f.key] = (depth or 2) - 1
        for p in all_paths:
            if p.kind() != "ok":
                continue
            # loop exits: only the two sanctioned conditions may end the loop
            # (an iterator that is only stepped with `next().unwrap()` cannot end the loop: exhaustion aborts, exactly like
            # `last().unwrap()` on an emptied list; what is refused is a path that leaves the loop BECAUSE `next()` was None)
            for (at, o, _b, _l) in p.conds:
                if o is False and tag(at) == "op" and payload(at)[0] == "is_some" and tag(kids(at)[0]) == "call" and \
                        str(payload(kids(at)[0])[0]) == "std::iter::Iterator::next":
                    bad = bad or "the averaging loop is driven by an iterator (an exit other than history exhausted / window start)"
            r = N(ix, sym.unwrap(p.ret))
            # what the path knows about the interval and the length of the history
            interval_zero = None
            justified = False
            exhausted = False
            for (at, o, _b, _l) in p.conds:
                ai = ix.inline(at)
                if tag(ai) == "op" and payload(ai)[0] in ("eq", "ne") and len(kids(ai)) == 2 and o in (True, False):
                    is_eq = (payload(ai)[0] == "eq") == o
                    ks = kids(ai)
                    if interval in ks and any(tag(k) == "int" and payload(k)[0] == "0" for k in ks):
                        interval_zero = is_eq
                    if is_eq and any(tag(k) == "int" and payload(k)[0] == "1" for k in ks) and interval not in ks:
                        justified = True     # a single snapshot / the first round: nothing to average
                    if is_eq and any(tag(k) == "int" and str(payload(k)[0]) in ("0", "1") for k in ks) and interval not in ks:
                        exhausted = True     # the walk reached the first stored observation (index 0 / round 1)
                if tag(ai) == "op" and payload(ai)[0] in ("le", "lt", "ge", "gt") and o in (True, False) and len(kids(ai)) == 2:
                    # the latest observation is not younger than the start of the window (now - interval)
                    sh = sym.show(ai, 6)
                    if "timestamp" in sh and sym.show(interval, 2) in sh:
                        older = (payload(ai)[0] in ("le", "lt")) == o
                        l_is_ts = "timestamp" in sym.show(kids(ai)[0], 5)
                        if older == l_is_ts:
                            justified = True
            if r[0] != "div":
                n_single += 1
                if not (interval_zero is True or justified):
                    bad = bad or "a single observed price is answered without the interval being zero, the history holding one observation, or the latest observation predating the window"
                continue
            if interval_zero is True:
                bad = bad or "the average is computed only when the interval IS zero"
            env["$facts"] = [(payload(ix.inline(at))[0], ix.inline(kids(ix.inline(at))[0]), ix.inline(kids(ix.inline(at))[1]), o)
                             for (at, o, _b, _l) in p.conds if o in (True, False) and tag(ix.inline(at)) == "op" and payload(ix.inline(at))[0] in ("le", "lt", "ge", "gt") and len(kids(ix.inline(at))) == 2]
            n_avg += 1
            num, den = r[1], r[2]
            terms = []

            def flat(x):
                if x[0] == "add":
                    flat(x[1])
                    flat(x[2])
                else:
                    terms.append(x)
            flat(num)
            total = {}
            okp = True
            for tm_ in terms:
                if tm_[0] != "mul":
                    okp = False
                    break
                # which factor is the weight? the one that is linear in timestamps (contains now / a timestamp / interval)
                cand = None
                for wgt in (tm_[1], tm_[2]):
                    lw = linear(ix, wgt if wgt[0] != "leaf" else N64(ix, wgt[1]) if isinstance(wgt[1], int) else wgt, env)
                    if lw is not None and any(k in ("now", "interval") or (isinstance(k, int) and "timestamp" in sym.show(k, 4)) or (isinstance(k, int) and "ts.seconds" in sym.show(k, 3)) for k in lw):
                        cand = lw
                if cand is None:
                    okp = False
                    break
                for k, c in cand.items():
                    total[k] = total.get(k, 0) + c
            if not okp:
                bad = bad or "numerator %s is not a sum of price * weight terms" % norm.show(num)
                continue
            total = {k: c for k, c in total.items() if c}
            ld = linear(ix, den if den[0] != "leaf" else N64(ix, den[1]) if isinstance(den[1], int) else den, env)
            if ld is None:
                bad = bad or "divisor %s is not linear in timestamps" % norm.show(den)
                continue
            ld = {k: c for k, c in ld.items() if c}
            if ld != {"interval": 1} and not exhausted:
                # dividing by the covered period instead of the interval is the short-history answer: only where the
                # path has established that the history is exhausted
                bad = bad or "the average is taken over the covered period (not the interval) on a path that has not reached the first observation"
            if total != ld:
                bad = bad or "weights sum to %s but the divisor is %s" % ({(sym.show(k, 3) if isinstance(k, int) else k): c for k, c in total.items()},
                                                                         {(sym.show(k, 3) if isinstance(k, int) else k): c for k, c in ld.items()})
        ctx.inst("R18.4", "twap-weights:%s" % short_fn(f), bad is None and n_avg >= 2 and n_single >= 1, f.where(),
                 bad or "%d single-price results, %d averaged results on the unrolled prefix (%d full iteration(s) + exit): weights telescope to the divisor" % (n_single, n_avg, unroll_note.get(f.key, 1)))

    # ---------------------------------------------------------------- R18.5
    # what the vAMM's three TWAP queries average: composed from the query arm's parameters and the per-snapshot price
    # function the TWAP loop calls (no field or helper names involved: the arm's parameter value is substituted into that
    # function and only the paths it makes feasible are looked at)
    ctx.rule("R18.5", "vAMM TWAP queries: TwapPrice averages snapshot quote*D/base, InputTwap / OutputTwap average the input / output pricing function of (msg.direction, msg.amount) on the snapshot's reserves, starting at the latest snapshot, over 900 s / msg.interval", 3)
    tw = [f for f in twaps if f.crate == VAMM]
    pricing = {}
    for variant in ("InputAmount", "OutputAmount"):
        try:
            qa_ = arms.Arm(ix, VAMM, variant, entry="query")
            for q in qa_.ok_paths():
                for e in q.events:
                    if e.target is not None and sum(1 for a_ in e.args if guards.is_field_of_item(ix, a_, VAMM, "margined_vamm:state", "quote_asset_reserve") or
                                                    guards.is_field_of_item(ix, a_, VAMM, "margined_vamm:state", "base_asset_reserve")) == 2:
                        pricing[variant] = e.target
        except KeyError as e:
            ctx.lost("R18.5", str(e))
    if not tw or len(pricing) != 2:
        ctx.lost("R18.5", "vAMM TWAP function / the two pricing functions")
    else:
        twf = tw[0]
        # the per-snapshot price function: called by the TWAP function, takes the same parameter struct
        pty = [twf.locals[i + 1]["ty"] for i in range(twf.arg_count) if "::" in twf.locals[i + 1]["ty"] and not twf.locals[i + 1]["ty"].startswith("cosmwasm_std")]
        pricef = None
        for p in ix.paths(twf):
            for e in p.events:
                if e.target is not None and any(e.target.locals[i + 1]["ty"].lstrip("&") in pty for i in range(e.target.arg_count)):
                    pricef = e.target   # (by value or by reference)
        if pricef is None:
            ctx.lost("R18.5", "the per-snapshot price function the TWAP loop calls")
        for variant, want in (("TwapPrice", "reserve"), ("InputTwap", "InputAmount"), ("OutputTwap", "OutputAmount")):
            if pricef is None:
                break
            try:
                a = arms.Arm(ix, VAMM, variant, entry="query")
            except KeyError as e:
                ctx.lost("R18.5", str(e))
                continue
            bad = None
            n_ok = 0
            def reaches_twap(e, twf=twf):
                try:
                    return e.target.key != twf.key and ("call", twf.pretty) in ix.summary(e.target)["may"]
                except Exception:
                    return False
            qpaths = a.ok_paths()
            if not any(e.target is not None and e.target.key == twf.key for q in qpaths for e in q.events):
                # the TWAP call sits in a helper shared by the query functions: open it
                qpaths = splice(ix, qpaths, reaches_twap, rounds=3)
            for q in qpaths:
                call = None
                for e in q.events:
                    if e.target is not None and e.target.key == twf.key:
                        call = e
                if call is None:
                    bad = bad or "the arm does not return the TWAP function's result"
                    continue
                r = ix.inline(a.s(sym.unwrap(q.ret)))
                if ix.inline(a.s(sym.unwrap(call.result))) != r and ix.inline(a.s(call.result)) != ix.inline(a.s(q.ret)):
                    bad = bad or "the arm's answer is not the TWAP function's result unchanged"
                args = [ix.inline(a.s(x)) for x in call.args]
                pidx = [i for i in range(twf.arg_count) if twf.locals[i + 1]["ty"] in pty]
                iidx = [i for i in range(twf.arg_count) if twf.locals[i + 1]["ty"] == "u64"]
                if not pidx or not iidx:
                    bad = bad or "TWAP function signature not recognised"
                    continue
                pv, iv = args[pidx[0]], args[iidx[-1]]
                # interval
                if variant == "TwapPrice":
                    if iv != a.msgfield("interval"):
                        bad = bad or "interval is %s, not msg.interval" % sym.show(iv, 4)
                elif not (tag(iv) == "int" and int(payload(iv)[0]) == 900):
                    bad = bad or "interval is %s, not 900 s" % sym.show(iv, 4)
                # starts at the latest snapshot: some field of the parameter value is the stored counter
                def is_counter(x):
                    while tag(x) in ("unwrap", "ok"):
                        x = kids(x)[0]
                    return guards.loaded_item(ix, x, VAMM) == CNT
                if not any(is_counter(x) for x in kids(pv)):
                    bad = bad or "the averaging does not start at snapshot[counter]"
                # compose with the per-snapshot price function
                ppar = [sym.param(pricef.key, i, pricef.param_name(i)) for i in range(pricef.arg_count) if pricef.locals[i + 1]["ty"].lstrip("&") in pty]
                if not ppar:
                    bad = bad or "price function signature not recognised"
                    continue
                m = {ppar[0]: pv}
                # the other arguments the TWAP function hands to the price function at its first call (a config / snapshot
                # it has loaded itself and passes by reference), in the arm's terms
                try:
                    tw_par = [sym.param(twf.key, i, twf.param_name(i)) for i in range(twf.arg_count) if twf.locals[i + 1]["ty"].lstrip("&") in pty]
                    first = None
                    for p_ in ix.paths(twf):
                        for e_ in p_.events:
                            if e_.target is not None and e_.target.key == pricef.key:
                                first = e_
                                break
                        if first is not None:
                            break
                    if first is not None and tw_par:
                        for k_, v_ in ix.param_map(pricef, first.args).items():
                            if k_ != ppar[0]:
                                m[k_] = ix.inline(sym.subst(v_, {tw_par[0]: pv}))
                except Exception:
                    pass
                feas = ix.ok_paths_at(pricef, m)
                if not feas:
                    bad = bad or "no feasible path of the per-snapshot price function for this arm's parameters"
                for fp in feas:
                    rv = ix.inline(sym.subst(sym.unwrap(fp.ret) if tag(fp.ret) == "agg" else fp.ret, m))
                    while tag(rv) in ("unwrap", "ok") or (tag(rv) == "agg" and payload(rv)[1] == "Ok" and len(kids(rv)) == 1):
                        rv = kids(rv)[0]
                    if tag(rv) == "int" and int(payload(rv)[0]) == 0 and want != "reserve":
                        # zero-amount shortcut: must be conditioned on the asked amount being zero
                        z = any(tag(ix.inline(sym.subst(at, m))) == "op" and payload(ix.inline(sym.subst(at, m)))[0] == "is_zero" and o is True and
                                ix.inline(kids(ix.inline(sym.subst(at, m)))[0]) == a.msgfield("amount") for (at, o, _b, _l) in fp.conds)
                        if not z:
                            bad = bad or "a path answers 0 without the asked amount being zero"
                        continue

                    def snapfield(v, name):
                        vi = ix.inline(v)
                        return tag(vi) == "field" and payload(vi)[0] == name and guards.loaded_item(ix, kids(vi)[0], VAMM) == SNAP
                    if want == "reserve":
                        nn = N(ix, rv)
                        ok_ = nn[0] == "div" and nn[1][0] == "mul" and nn[2][0] == "leaf" and snapfield(nn[2][1], "base_asset_reserve") and \
                            any(t_[0] == "leaf" and snapfield(t_[1], "quote_asset_reserve") for t_ in nn[1][1:]) and \
                            any(t_[0] == "leaf" and guards.is_field_of_item(ix, t_[1], VAMM, "margined_vamm:config", "decimals") for t_ in nn[1][1:])
                        if not ok_:
                            bad = bad or "per-snapshot price is %s, not snapshot.quote * decimals / snapshot.base" % norm.show(nn)[:160]
                    else:
                        tgt = ix.call_target(rv) if tag(rv) == "call" else None
                        if tgt is None or tgt.key != pricing[want].key:
                            # the pricing function may be a thin wrapper that the inliner has looked through: identify
                            # the call before inlining
                            raw = sym.subst(sym.unwrap(fp.ret) if tag(fp.ret) == "agg" else fp.ret, m)
                            while tag(raw) in ("unwrap", "ok") or (tag(raw) == "agg" and payload(raw)[1] == "Ok" and len(kids(raw)) == 1):
                                raw = kids(raw)[0]
                            t2 = ix.call_target(raw) if tag(raw) == "call" else None
                            if t2 is not None and t2.key == pricing[want].key:
                                rv, tgt = raw, t2
                        if tgt is None or tgt.key != pricing[want].key:
                            bad = bad or "per-snapshot figure is %s, not the %s pricing function" % (sym.show(rv, 3)[:120], want)
                        else:
                            ks = [ix.inline(k) for k in kids(rv)]
                            if a.msgfield("direction") not in ks or a.msgfield("amount") not in ks or \
                               not any(snapfield(k, "quote_asset_reserve") for k in ks) or not any(snapfield(k, "base_asset_reserve") for k in ks):
                                bad = bad or "pricing call is %s: not (msg.direction, msg.amount, snapshot reserves)" % sym.show(rv, 4)[:200]
                            else:
                                # reserves in the callee's order: quote where the execute arm passes the quote reserve
                                qi = [i for i, k in enumerate(ks) if snapfield(k, "quote_asset_reserve")][0]
                                bi = [i for i, k in enumerate(ks) if snapfield(k, "base_asset_reserve")][0]
                                if qi > bi:
                                    bad = bad or "snapshot reserves are passed in the wrong order"
                    n_ok += 1
            ctx.inst("R18.5", "twap-query:%s" % variant, bad is None and n_ok > 0, a.fn.where(), bad or "%d feasible per-snapshot paths: the right figure of (msg.direction, msg.amount) on the snapshot's reserves" % n_ok)
