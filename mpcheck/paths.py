"""Path-sensitive value-flow evaluation of MIR bodies (analysis A2 + the path
side of A1).

For one function, enumerates every path through the non-cleanup CFG (loops:
each block at most LOOP_BOUND times per path) and computes, per path,
  * the branch decisions taken, as (atom value, outcome) pairs,
  * the ordered list of calls with their argument expression trees,
  * the returned expression tree and the final value of every `&mut` pointee.
Nothing is executed and no feasibility is decided: branch conditions are kept
as syntactic atoms; the only pruning is (a) literal constants (drop flags,
aggregates whose variant is syntactically known) and (b) a decision already
taken on the same atom earlier on the same path.
"""
import re
from . import sym
from .sym import mk, tag, payload, kids

import os as _os
LOOP_BOUND = int(_os.environ.get("MPCHECK_LOOP_BOUND", "2"))
MAX_PATHS = 60000

WORKSPACE = {
    "margined_common", "margined_perp", "margined_engine", "margined_vamm",
    "margined_insurance_fund", "margined_fee_pool", "margined_pricefeed", "mock_pricefeed",
    "margined_utils",
}


# library calls that are unmodelled (opaque) but cannot observe chain state
HARMLESS_LIB = {
    "cosmwasm_std::StdError::generic_err", "std::fmt::Arguments::new", "std::fmt::format", "core::fmt::rt::Argument::new_display",
    "core::fmt::rt::Argument::new_debug", "std::fmt::Formatter::write_str", "std::fmt::Formatter::write_fmt", "std::fmt::Write::write_char",
    "core::str::<impl str>::parse", "core::num::<impl i128>::unsigned_abs", "core::num::<impl i64>::unsigned_abs",
    "core::num::<impl i32>::unsigned_abs", "core::num::<impl i16>::unsigned_abs", "core::num::<impl i8>::unsigned_abs",
    "std::ops::Index::index", "std::str::FromStr::from_str", "core::str::<impl str>::chars", "std::iter::Iterator::all",
    "cosmwasm_std::Response::new", "std::default::Default::default",
}


class TooManyPaths(Exception):
    pass


class Event:
    __slots__ = ("fn", "bb", "line", "callee", "name", "args", "raw", "result", "target", "idx", "self_ty", "opened")

    def __init__(self, fn, bb, line, callee, name, args, raw, result, target, self_ty):
        self.fn = fn
        self.bb = bb
        self.line = line
        self.callee = callee
        self.name = name
        self.args = args
        self.raw = raw
        self.result = result
        self.target = target  # Fn object when the callee is a workspace function with a body
        self.idx = -1
        self.self_ty = self_ty
        self.opened = False   # the callee's paths have been spliced into the path this event belongs to

    def __repr__(self):
        return "%s(%s) @%s:%s" % (sym.short(self.name), ", ".join(sym.show(a, 4) for a in self.args), self.fn.file.split("/")[-1], self.line)


class Path:
    __slots__ = ("fn", "conds", "events", "ret", "exit", "ptr_out", "blocks", "items")

    def __init__(self, fn, conds, events, ret, exit_, ptr_out, blocks, items):
        self.fn = fn
        self.conds = conds      # list of (atom value, outcome, bb, line)
        self.events = events    # list of Event
        self.ret = ret
        self.exit = exit_       # 'return' | 'abort' | 'cut'
        self.ptr_out = ptr_out  # {pointer value: final pointee value}
        self.blocks = blocks
        self.items = items      # interleaved ('c', cond) / ('e', event) in program order

    def kind(self):
        """'ok' | 'err' | 'value' | 'abort' | 'cut' | 'dep' (returns another call's Result)"""
        if self.exit != "return":
            return self.exit
        k = classify_ret(self.ret, self.fn)
        if k == "dep":
            # the Result handed on is one this path has already found to be an Err (`r.map(f)` on its Err branch,
            # `match r { Err(e) => return r, .. }`): an error exit, not a success that depends on the callee
            for c in self.conds:
                at, o = c[0], c[1]
                if tag(at) == "op" and payload(at)[0] == "is_ok" and kids(at)[0] == self.ret:
                    return "err" if o is False else k
        return k


def classify_ret(v, fn=None):
    t = tag(v)
    if t == "agg":
        adt, variant, _ = payload(v)
        if adt.endswith("result::Result"):
            return "ok" if variant == "Ok" else "err"
        return "value"
    if t == "errfrom":
        return "err"
    if t == "ok":
        return "ok"
    if fn is not None:
        rty = fn.locals[0]["ty"]
        if rty.startswith("std::result::Result<") or rty.startswith("core::result::Result<"):
            return "dep"
    return "value"


# ---------------------------------------------------------------- call models
TRANSPARENT = {
    "std::clone::Clone::clone", "std::string::ToString::to_string", "std::convert::AsRef::as_ref",
    "std::ops::Deref::deref", "std::ops::DerefMut::deref_mut", "std::borrow::Borrow::borrow",
    "std::borrow::ToOwned::to_owned",
    "cosmwasm_std::Addr::as_str", "cosmwasm_std::Addr::into_string", "cosmwasm_std::Addr::as_bytes",
    "cosmwasm_std::Addr::unchecked", "std::string::String::as_str", "std::string::String::as_bytes",
    "std::convert::AsMut::as_mut", "cosmwasm_std::DepsMut::as_ref", "cosmwasm_std::DepsMut::branch",
    "std::string::String::into_boxed_str", "std::str::<impl str>::to_string", "std::str::<impl str>::to_owned",
    "std::slice::<impl [T]>::to_vec", "core::slice::<impl [T]>::to_vec", "std::vec::Vec::as_slice",
    "std::convert::identity", "std::hint::must_use", "std::string::String::as_mut_str",
    # views of an Option / Result that keep the variant and (a reference to) the payload
    "std::option::Option::as_ref", "std::option::Option::as_deref", "std::option::Option::cloned", "std::option::Option::copied",
    "std::result::Result::as_ref",
}
UNWRAPS = {
    "std::result::Result::unwrap", "std::result::Result::expect",
    "std::option::Option::unwrap", "std::option::Option::expect",
}
MAPERR = {"std::result::Result::map_err"}
CMP = {"lt": "lt", "le": "le", "gt": "gt", "ge": "ge", "eq": "eq", "ne": "ne"}
FLIP = {"lt": "ge", "ge": "lt", "gt": "le", "le": "gt", "eq": "ne", "ne": "eq"}

U128 = "cosmwasm_std::Uint128"
FN_TRAITS = ("std::ops::FnOnce", "std::ops::FnMut", "std::ops::Fn")
# pure library functions: equal arguments give equal results wherever they are called
PURE_LIB = {
    "cosmwasm_std::Timestamp::seconds": "ts.seconds", "cosmwasm_std::Timestamp::plus_seconds": "ts.plus_seconds",
    "cosmwasm_std::Timestamp::minus_seconds": "ts.minus_seconds", "cosmwasm_std::Timestamp::from_seconds": "ts.from_seconds",
    "cosmwasm_std::Timestamp::nanos": "ts.nanos", "core::num::<impl u64>::checked_sub": "u64.checked_sub",
    "core::num::<impl u64>::to_be_bytes": "u64.to_be_bytes", "core::num::<impl usize>::min": "min",
    "std::cmp::min": "min", "std::cmp::max": "max", "std::cmp::Ord::min": "min", "std::cmp::Ord::max": "max",
}


def strip_generics(name):
    """drop `::<...>` generic argument groups from a def path: Vec::<T, A>::push -> Vec::push"""
    if "::<" not in name or name.startswith("<"):
        return name
    out = []
    i = 0
    n = len(name)
    while i < n:
        if name.startswith("::<", i) and not name.startswith("::<impl", i):
            depth = 0
            j = i + 2
            while j < n:
                if name[j] == "<":
                    depth += 1
                elif name[j] == ">":
                    depth -= 1
                    if depth == 0:
                        break
                j += 1
            i = j + 1
            continue
        out.append(name[i])
        i += 1
    return "".join(out)


ITERS = ("iterlit", "iteradapt", "itersym")
ITER_SOURCES = ("core::slice::<impl [T]>::iter", "std::slice::<impl [T]>::iter", "std::iter::IntoIterator::into_iter", "std::vec::Vec::iter")
_CUT = object()
_SOME = ("std::option::Option", "Some")
_OK = ("std::result::Result", "Ok")
_ERR = ("std::result::Result", "Err")
# name -> (kind, argument count, value when the payload is present, value when it is absent); value specs:
#   ("x",) the payload | ("self",) the operand itself | ("arg", i) argument i | ("f", i) closure i applied to the payload |
#   ("f0", i) closure i applied to nothing | ("wrapf", i, V) V(closure i (payload)) | ("wrapf0", i, V) V(closure i ()) |
#   ("wrapx", V) V(payload) | ("wraparg", i, V) V(argument i) | ("none",) None | ("ferr", i) closure i applied to the error
COMBINATORS = {
    "std::option::Option::map": ("opt", 2, ("wrapf", 1, _SOME), ("none",)),
    "std::option::Option::map_or": ("opt", 3, ("f", 2), ("arg", 1)),
    "std::option::Option::map_or_else": ("opt", 3, ("f", 2), ("f0", 1)),
    "std::option::Option::and_then": ("opt", 2, ("f", 1), ("none",)),
    "std::option::Option::unwrap_or_else": ("opt", 2, ("x",), ("f0", 1)),
    "std::option::Option::ok_or_else": ("opt", 2, ("wrapx", _OK), ("wrapf0", 1, _ERR)),
    "std::option::Option::ok_or": ("opt", 2, ("wrapx", _OK), ("wraparg", 1, _ERR)),
    "std::result::Result::map": ("res", 2, ("wrapf", 1, _OK), ("self",)),
    "std::result::Result::and_then": ("res", 2, ("f", 1), ("self",)),
    "std::result::Result::unwrap_or_else": ("res", 2, ("x",), ("ferr", 1)),
    "std::result::Result::map_or": ("res", 3, ("f", 2), ("arg", 1)),
    "std::option::Option::is_some_and": ("opt", 2, ("f", 1), ("false",)),
    "std::result::Result::is_ok_and": ("res", 2, ("f", 1), ("false",)),
}


class _NoIter(Exception):
    pass


def is_workspace_callee(c):
    k = c.get("res_krate") or c.get("krate")
    return k in WORKSPACE


class Evaluator:
    def __init__(self, world):
        self.world = world
        self.cache = {}
        self.unmodelled = {}
        self.in_progress = set()
        self._pure = {}
        self._pure_stack = set()

    # -- public ----------------------------------------------------------
    def paths(self, fn, loop_bound=None):
        """loop_bound: visits per block and path (default LOOP_BOUND); a deeper unrolling is cached separately"""
        ck = fn.key if loop_bound is None else (fn.key, loop_bound)
        r = self.cache.get(ck)
        if r is None:
            self.in_progress.add(fn.key)
            try:
                r = _Run(self, fn, loop_bound).run()
            finally:
                self.in_progress.discard(fn.key)
            self.cache[ck] = r
        if isinstance(r, Exception):
            raise r
        return r

    def pure(self, fn):
        """a workspace function is pure when it has no `&mut` parameter and all its calls are modelled
        library operations or pure workspace functions"""
        r = self._pure.get(fn.key)
        if r is not None:
            return r
        if fn.key in self.in_progress or fn.key in self._pure_stack:
            return False
        for i in range(fn.arg_count):
            ty = fn.locals[i + 1]["ty"]
            if ty.startswith("&mut ") or "Deps" in ty or "dyn cosmwasm_std::Storage" in ty or "QuerierWrapper" in ty or "dyn cosmwasm_std::Api" in ty:
                self._pure[fn.key] = False
                return False
        self._pure_stack.add(fn.key)
        try:
            try:
                ps = self.paths(fn)
            except TooManyPaths:
                ps = None
            ok = ps is not None
            if ok:
                for p in ps:
                    for e in p.events:
                        t = tag(e.result)
                        if e.target is not None:
                            if not self.pure(e.target):
                                ok = False
                        elif t == "call":
                            # an unmodelled library call (could read anything)
                            if e.name not in HARMLESS_LIB:
                                ok = False
                        if not ok:
                            break
                    if not ok:
                        break
        finally:
            self._pure_stack.discard(fn.key)
        self._pure[fn.key] = ok
        return ok

    def try_paths(self, fn):
        try:
            return self.paths(fn)
        except TooManyPaths:
            return None


class _State:
    __slots__ = ("mem", "conds", "memo", "events", "visits", "occ", "blocks", "items", "marks")

    def __init__(self):
        self.mem = {}
        self.conds = []
        self.memo = {}
        self.events = []
        self.visits = {}
        self.occ = {}
        self.blocks = []
        self.items = []
        self.marks = {}

    def fork(self):
        s = _State()
        s.mem = dict(self.mem)
        s.conds = list(self.conds)
        s.memo = dict(self.memo)
        s.events = list(self.events)
        s.visits = dict(self.visits)
        s.occ = dict(self.occ)
        s.blocks = list(self.blocks)
        s.items = list(self.items)
        s.marks = dict(self.marks)
        return s


class _Run:
    def __init__(self, ev, fn, loop_bound=None):
        self.ev = ev
        self.world = ev.world
        self.fn = fn
        self.out = []
        self.loop_bound = loop_bound or LOOP_BOUND

    def run(self):
        fn = self.fn
        st = _State()
        for i in range(fn.arg_count):
            st.mem[i + 1] = sym.param(fn.key, i, fn.param_name(i))
            if i in fn.len_args:
                # this copy is specialised on a call site that passes a literal list of n elements
                kind, n = fn.len_args[i]
                st.mem[i + 1] = mk(kind, (), tuple(sym.field(st.mem[i + 1], "[%d]" % k) for k in range(n)))
        try:
            self.walk(st, 0)
        except TooManyPaths as e:
            return e
        return self.out

    # -- places ----------------------------------------------------------
    def default_root(self, root):
        if isinstance(root, tuple):  # ('ptr', v): transparent deref
            return root[1]
        return sym.unknown("uninit_%s_%d" % (self.fn.name, root))

    def resolve(self, st, place):
        root = place["l"]
        path = []
        for e in place["p"]:
            if e == "*":
                v = self.read(st, root, path)
                if tag(v) == "ref":
                    r, p, _m = payload(v)
                    root, path = r, list(p)
                else:
                    root, path = ("ptr", v), []
            elif isinstance(e, dict):
                if "f" in e:
                    path.append(("f", e["f"]))
                elif "as" in e:
                    path.append(("as", e["as"]))
                elif "idx" in e:
                    path.append(("f", "[idx]"))
                elif "cidx" in e:
                    path.append(("f", "[%d]" % e["cidx"]))
                else:
                    path.append(("f", "[sub]"))
            else:
                pass  # opaque casts
        return root, path

    def read(self, st, root, path):
        v = st.mem.get(root)
        if v is None:
            v = self.default_root(root)
        for kind, name in path:
            if kind == "f":
                v = sym.field(v, name)
            else:
                v = sym.downcast(v, name)
        return v

    def read_place(self, st, place):
        root, path = self.resolve(st, place)
        return self.read(st, root, path)

    def write(self, st, root, path, new):
        if not path:
            st.mem[root] = new
            return
        base = st.mem.get(root)
        if base is None:
            base = self.default_root(root)
        st.mem[root] = self.set_path(base, path, new)

    def set_path(self, base, path, new):
        (kind, name) = path[0]
        if len(path) == 1:
            if kind == "f":
                return sym.set_field(base, name, new)
            return new
        if kind == "f":
            inner = sym.field(base, name)
            return sym.set_field(base, name, self.set_path(inner, path[1:], new))
        inner = sym.downcast(base, name)
        return self.set_path(inner, path[1:], new)

    def deref_val(self, st, v):
        """value seen through a reference"""
        n = 0
        while tag(v) == "ref" and n < 8:
            r, p, _m = payload(v)
            v = self.read(st, r, list(p))
            n += 1
        return v

    # -- operands / rvalues ------------------------------------------------
    def konst(self, c):
        ty = c["ty"]
        if "fn" in c:
            return mk("fnref", (c["fn"]["pretty"], c["fn"]["key"]))
        if "static" in c:
            return mk("static", (c["static"],))
        if "int" in c:
            if ty == "bool":
                return sym.boolc(c["int"] != "0")
            return sym.intc(int(c["int"]), ty)
        if "def_pretty" in c and "promoted" not in c:
            return mk("constdef", (c["def_pretty"], ty))
        if "promoted" in c and "promoted_agg" in c and not c.get("promoted_of"):
            a = c["promoted_agg"]
            return sym.agg(a["adt"], a["variant"], a["fields"], [self.konst(x) for x in a["vals"]])
        if "promoted" in c and c.get("promoted_ints") and not c.get("promoted_of") and "promoted_agg" not in c:
            # a promoted value built by a constructor call on integer literals (e.g. a..=b)
            return mk("constints", (ty, tuple(c["promoted_ints"])))
        if "promoted" in c and len(c.get("promoted_of", [])) == 1 and ty.startswith("&"):
            # `&NAMED_CONST` promoted to a static: the reference to that constant
            return mk("constdef", (c["promoted_of"][0], ty[1:].lstrip("'static ").strip()))
        if re.match(r"^&(?:'static )?\[.*; 0(?:_usize)?\]$", ty.strip()):
            # `&[]`: the empty list (a zero-length array promoted to a constant allocation)
            return mk("array", (), ())
        return sym.const(ty, c["val"])

    def operand(self, st, o):
        if "copy" in o:
            return self.read_place(st, o["copy"])
        if "move" in o:
            return self.read_place(st, o["move"])
        return self.konst(o["const"])

    def operand_ty(self, o):
        if "copy" in o:
            return o["copy"]["ty"]
        if "move" in o:
            return o["move"]["ty"]
        return o["const"]["ty"]

    def rvalue(self, st, rv):
        if "use" in rv:
            return self.operand(st, rv["use"])
        if "ref" in rv:
            root, path = self.resolve(st, rv["ref"])
            if isinstance(root, tuple) and not path:
                return root[1]  # reborrow of a pointer: the pointer itself
            return mk("ref", (root, tuple(path), 1 if rv["mut"] else 0))
        if "rawptr" in rv:
            root, path = self.resolve(st, rv["rawptr"])
            if isinstance(root, tuple) and not path:
                return root[1]
            return mk("ref", (root, tuple(path), 1))
        if "agg" in rv:
            vals = [self.operand(st, o) for o in rv["ops"]]
            k = rv["agg"]
            if k == "adt":
                return sym.agg(rv["adt"], rv["variant"], rv["fields"], vals)
            if k == "tuple":
                return sym.tup(vals)
            if k == "array":
                return mk("array", (), tuple(vals))
            if k == "closure":
                # captured values are snapshotted (a by-reference capture cannot change while the closure is alive);
                # a place captured by `&mut` may be changed by whoever calls the closure
                snap = []
                for i, v0 in enumerate(vals):
                    if tag(v0) == "ref":
                        r_, p_, m_ = payload(v0)
                        cur = self.deref_val(st, v0)
                        snap.append(cur)
                        if m_:
                            self.write(st, r_, list(p_), mk("capturedmut", (rv["closure"], i), (cur,)))
                    else:
                        snap.append(v0)
                return mk("closure", (rv["closure"],), tuple(snap))
            return mk("aggother", (k,), tuple(vals))
        if "discr" in rv:
            x = self.deref_val(st, self.read_place(st, rv["discr"]))
            variants = tuple((v["v"], v["name"]) for v in rv["variants"])
            return mk("discr", variants, (x,))
        if "binop" in rv:
            a = self.operand(st, rv["a"])
            b = self.operand(st, rv["b"])
            return self.binop(rv["binop"], a, b)
        if "unop" in rv:
            a = self.operand(st, rv["a"])
            u = rv["unop"]
            if u == "Not":
                return self.negate(a)
            if u == "PtrMetadata":
                return sym.op("len", self.deref_val(st, a))
            return sym.op(u.lower(), a)
        if "cast" in rv:
            a = self.operand(st, rv["cast"])
            kind = rv["kind"]
            if kind.startswith("PointerCoercion") or kind in ("Transmute", "PtrToPtr", "FnPtrToPtr"):
                return a
            if tag(a) == "int":
                return sym.intc(int(payload(a)[0]), rv["to"])
            return mk("cast", (rv["to"],), (a,))
        if "repeat" in rv:
            return mk("repeat", (), (self.operand(st, rv["repeat"]),))
        return sym.unknown("rvalue")

    def negate(self, a):
        t = tag(a)
        if t == "bool":
            return sym.boolc(not payload(a)[0])
        if t == "op" and payload(a)[0] == "not":
            return kids(a)[0]
        return sym.op("not", a)

    def binop(self, opn, a, b):
        o = opn.lower()
        ov = False
        if o.endswith("withoverflow"):
            o = o[: -len("withoverflow")]
            ov = True
        if o.endswith("unchecked"):
            o = o[: -len("unchecked")]
        r = None
        if tag(a) == "int" and tag(b) == "int":
            x, y = int(payload(a)[0]), int(payload(b)[0])
            ty = payload(a)[1]
            try:
                if o == "add":
                    r = sym.intc(x + y, ty)
                elif o == "sub" and x >= y:
                    r = sym.intc(x - y, ty)
                elif o == "mul":
                    r = sym.intc(x * y, ty)
                elif o == "div" and y != 0:
                    r = sym.intc(x // y, ty)
                elif o in CMP:
                    r = sym.boolc({"lt": x < y, "le": x <= y, "gt": x > y, "ge": x >= y, "eq": x == y, "ne": x != y}[o])
            except Exception:
                r = None
        if r is None and o in ("eq", "ne") and tag(a) == "agg" and tag(b) == "agg" and not kids(a) and not kids(b) \
                and payload(a)[0] == payload(b)[0]:
            # two field-less enum values of the same type
            r = sym.boolc((payload(a)[1] == payload(b)[1]) == (o == "eq"))
        if r is None and tag(a) == "bool" and tag(b) == "bool" and o in ("eq", "ne"):
            r = sym.boolc((payload(a)[0] == payload(b)[0]) == (o == "eq"))
        if r is None:
            r = sym.op(o, a, b)
        if ov:
            return sym.tup([r, sym.boolc(False)])
        return r

    # -- the walk ----------------------------------------------------------
    def finish(self, st, exit_):
        if len(self.out) >= MAX_PATHS:
            raise TooManyPaths(self.fn.pretty)
        ret = st.mem.get(0)
        if ret is None:
            ret = sym.unknown("noret")
        ptr_out = {}
        for root, v in st.mem.items():
            if isinstance(root, tuple):
                ptr_out[root[1]] = v
        self.out.append(Path(self.fn, st.conds, st.events, ret, exit_, ptr_out, st.blocks, st.items))

    def walk(self, st, bb):
        fn = self.fn
        while True:
            n = st.visits.get(bb, 0)
            if n >= self.loop_bound:
                self.finish(st, "cut")
                return
            st.visits[bb] = n + 1
            st.blocks.append(bb)
            blk = fn.blocks[bb]
            for s in blk["stmts"]:
                if s["k"] == "assign":
                    v = self.rvalue(st, s["rv"])
                    root, path = self.resolve(st, s["lhs"])
                    self.write(st, root, path, v)
                elif s["k"] == "setdiscr":
                    root, path = self.resolve(st, s["lhs"])
                    self.write(st, root, path + [("f", "$variant")], sym.const("variant", s["variant"]))
            t = blk["term"]
            k = t["k"]
            if k == "goto":
                bb = t["target"]
            elif k in ("drop", "assert"):
                bb = t["target"]
            elif k == "return":
                self.finish(st, "return")
                return
            elif k == "unreachable":
                return  # infeasible by construction of the match
            elif k in ("resume", "terminate", "other", "tailcall"):
                self.finish(st, "abort")
                return
            elif k == "call":
                nxt = self.do_call(st, bb, t)
                if nxt is None:
                    self.finish(st, "abort")
                    return
                if isinstance(nxt, list):
                    # a call that was evaluated element by element over a known list (iterator adaptors): one
                    # continuation per outcome of the closures' tests
                    for (s2, target) in nxt:
                        self.walk(s2, target)
                    return
                bb = nxt
            elif k == "switch":
                outs = self.do_switch(st, bb, t)
                if len(outs) == 1:
                    bb = outs[0][1]
                    if outs[0][0] is not None:
                        self.add_cond(st, outs[0][0], bb_from=blk, line=t["line"])
                    continue
                for i, (cond, target) in enumerate(outs):
                    s2 = st.fork() if i < len(outs) - 1 else st
                    if cond is not None:
                        self.add_cond(s2, cond, bb_from=blk, line=t["line"])
                    self.walk(s2, target)
                return
            else:
                self.finish(st, "abort")
                return

    def enum_eq(self, atom):
        """(x, variant) when atom is eq(x, <field-less enum value>)"""
        if tag(atom) == "op" and payload(atom)[0] == "eq" and len(kids(atom)) == 2:
            a, b = kids(atom)
            for x, y in ((a, b), (b, a)):
                if tag(y) == "agg" and not kids(y) and tag(x) != "agg":
                    return x, payload(y)[1]
        return None

    def add_cond(self, st, cond, bb_from, line):
        atom, outcome = cond
        st.memo[atom] = outcome
        ee = self.enum_eq(atom)
        if ee is not None and outcome is True:
            # x == Variant established: later tests of x against other variants are decided
            st.memo[sym.op("discr", ee[0])] = ("variant", ee[1])
        if ee is not None and outcome is False:
            # x != Variant: with the enum's variant list the remaining possibilities are known
            for y in kids(atom):
                if tag(y) == "agg" and not kids(y):
                    adt = self.world.adts.get(payload(y)[0])
                    if adt:
                        names = [v["name"] for v in adt["variants"]]
                        key = sym.op("discr", ee[0])
                        prev = st.memo.get(key)
                        excluded = set(prev[1]) if prev and prev[0] == "other" else set()
                        excluded.add(ee[1])
                        rest = [n for n in names if n not in excluded]
                        if len(rest) == 1:
                            st.memo[key] = ("variant", rest[0])
                        elif prev is None or prev[0] == "other":
                            st.memo[key] = ("other", tuple(sorted(excluded)))
        c = (atom, outcome, st.blocks[-1], line)
        st.conds.append(c)
        st.items.append(("c", c))

    # -- switch --------------------------------------------------------------
    def do_switch(self, st, bb, t):
        """returns list of (cond or None, target)"""
        v = self.deref_val(st, self.operand(st, t["discr"]))
        targets = t["targets"]
        otherwise = t["otherwise"]
        tg = tag(v)
        if tg in ("int", "bool"):
            n = str(payload(v)[0])
            for val, b in targets:
                if val == n:
                    return [(None, b)]
            return [(None, otherwise)]
        if tg == "discr":
            variants = dict(payload(v))
            x = kids(v)[0]
            tx = tag(x)
            if tx == "agg":
                name = payload(x)[1]
                for val, b in targets:
                    if variants.get(val) == name:
                        return [(None, b)]
                return [(None, otherwise)]
            if tx == "rec" and "$variant" in payload(x):
                name = payload(sym.field(x, "$variant"))[1]
                for val, b in targets:
                    if variants.get(val) == name:
                        return [(None, b)]
                return [(None, otherwise)]
            names = set(variants.values())
            if tx == "try":
                x = kids(x)[0]
                trymap = {"Continue": True, "Break": False}
                return self.bool_like(st, ("is_ok", x), [(trymap.get(variants.get(val)), b) for val, b in targets], otherwise, variants, trymap)
            if names == {"Ok", "Err"}:
                m = {"Ok": True, "Err": False}
                return self.bool_like(st, ("is_ok", x), [(m.get(variants.get(val)), b) for val, b in targets], otherwise, variants, m)
            if names == {"Some", "None"}:
                m = {"Some": True, "None": False}
                return self.bool_like(st, ("is_some", x), [(m.get(variants.get(val)), b) for val, b in targets], otherwise, variants, m)
            if tx == "op" and payload(x)[0] == "cmp" and len(kids(x)) == 2 and names == {"Less", "Equal", "Greater"}:
                # match a.cmp(&b) { Less => .., Equal => .., Greater => .. }: each arm is the comparison it stands for
                a_, b_ = kids(x)
                as_atom = {"Less": (sym.op("lt", a_, b_), True), "Greater": (sym.op("gt", a_, b_), True), "Equal": (sym.op("eq", a_, b_), True)}
                outs = []
                covered = []
                for val, b in targets:
                    nm_ = variants.get(val)
                    covered.append(nm_)
                    outs.append((as_atom[nm_], b))
                rest = [nm_ for nm_ in ("Less", "Equal", "Greater") if nm_ not in covered]
                if len(rest) == 1:
                    outs.append((as_atom[rest[0]], otherwise))
                elif rest == ["Less", "Equal"] or rest == ["Equal", "Less"]:
                    outs.append(((sym.op("gt", a_, b_), False), otherwise))
                elif set(rest) == {"Equal", "Greater"}:
                    outs.append(((sym.op("lt", a_, b_), False), otherwise))
                elif set(rest) == {"Less", "Greater"}:
                    outs.append(((sym.op("eq", a_, b_), False), otherwise))
                return outs
            # general enum
            atom = sym.op("discr", x)
            known = st.memo.get(atom)
            outs = []
            covered = []
            for val, b in targets:
                name = variants.get(val, val)
                covered.append(name)
                if known is not None:
                    if known[0] == "variant" and known[1] != name:
                        continue
                    if known[0] == "other" and name in known[1]:
                        continue
                    if known[0] == "variant":
                        return [(None, b)]
                outs.append(((atom, ("variant", name)), b))
            rest = [nm for nm in variants.values() if nm not in covered]
            if known is not None and known[0] == "variant":
                return [(None, otherwise)] if known[1] in rest else []
            if rest:
                outs.append(((atom, ("other", tuple(covered))), otherwise))
            return outs
        # boolean condition?
        if len(targets) == 1 and targets[0][0] == "0":
            # switchInt(b) -> [0: false_bb, otherwise: true_bb]
            atom, pol = self.bool_atom(v)
            known = st.memo.get(atom)
            if known is None:
                ee = self.enum_eq(atom)
                if ee is not None:
                    kd = st.memo.get(sym.op("discr", ee[0]))
                    if kd is not None:
                        if kd[0] == "variant":
                            known = (kd[1] == ee[1])
                        elif kd[0] == "other" and ee[1] in kd[1]:
                            known = False
            f_bb, t_bb = targets[0][1], otherwise
            if known is not None and known in (True, False):
                val = known if pol else (not known)
                return [(None, t_bb if val else f_bb)]
            return [((atom, True if pol else False), t_bb), ((atom, False if pol else True), f_bb)]
        # integer match
        atom = v
        known = st.memo.get(atom)
        outs = []
        vals = []
        for val, b in targets:
            vals.append(val)
            if known is not None:
                if known[0] == "eq":
                    if known[1] == val:
                        return [(None, b)]
                    continue
                if known[0] == "notin" and val in known[1]:
                    continue
            outs.append(((atom, ("eq", val)), b))
        if known is not None and known[0] == "eq":
            return [(None, otherwise)]
        outs.append(((atom, ("notin", tuple(vals))), otherwise))
        return outs

    def bool_atom(self, v):
        """canonical (atom, polarity)"""
        pol = True
        while tag(v) == "op" and payload(v)[0] == "not":
            v = kids(v)[0]
            pol = not pol
        if tag(v) == "op" and payload(v)[0] in ("ne",):
            a, b = kids(v)
            return sym.op("eq", a, b), (not pol)
        return v, pol

    def bool_like(self, st, atomkey, tlist, otherwise, variants, m):
        atom = sym.op(atomkey[0], atomkey[1])
        known = st.memo.get(atom)
        outs = []
        seen = set()
        for truth, b in tlist:
            if truth is None:
                continue
            seen.add(truth)
            if known is not None:
                if known == truth:
                    return [(None, b)]
                continue
            outs.append(((atom, truth), b))
        for truth in (True, False):
            if truth not in seen:
                if known is not None:
                    if known == truth:
                        return [(None, otherwise)]
                    continue
                outs.append(((atom, truth), otherwise))
        return outs

    # -- calls ---------------------------------------------------------------
    def do_call(self, st, bb, t):
        fn = self.fn
        callee = t["callee"]
        raw = [self.operand(st, a) for a in t["args"]]
        args = [self.deref_val(st, a) for a in raw]
        site = "%s#%d" % (fn.key, bb)
        occ = st.occ.get(bb, 0)
        st.occ[bb] = occ + 1
        target_fn = None
        self_ty = None
        if callee is None:
            name = "<indirect>"
            fv = self.deref_val(st, self.operand(st, t["func"]))
            ftarget = self.world.fns.get(payload(fv)[1]) if tag(fv) == "fnref" else None
            if ftarget is not None and ftarget.crate in WORKSPACE:
                # a call through a function pointer whose value is known on this path (`let f = if c { g } else { h }; f(..)`)
                target_fn = ftarget
                name = target_fn.pretty
                callee = {"name": target_fn.name, "pretty": target_fn.pretty, "trait": None, "args": [], "res_kind": "item",
                          "res_krate": target_fn.crate, "res_key": target_fn.key, "krate": target_fn.crate}
                result = self.model(st, callee, name, args, raw, site, occ, target_fn, t)
            else:
                result = sym.call(name, [fv] + args, site, occ)
        else:
            name = strip_generics(callee["pretty"])
            self_ty = callee.get("self_ty") or callee.get("impl_self")
            if callee.get("res_kind") == "item" and callee.get("res_krate") in WORKSPACE:
                target_fn = self.world.fns.get(callee["res_key"])
                if target_fn is not None:
                    name = target_fn.pretty
            if target_fn is None and callee.get("trait") in FN_TRAITS and callee["name"] in ("call_once", "call_mut", "call") and len(args) == 2:
                # calling a closure value: a closure built in this body, or a closure-typed parameter this body was specialised on
                ctarget = self.closure_target(args[0])
                if ctarget is not None:
                    target_fn = ctarget
                    name = target_fn.pretty
                    n_in = target_fn.arg_count - 1
                    tv, tr = args[1], raw[1]
                    rest_r = list(kids(tr)) if tag(tr) == "tuple" and len(kids(tr)) == n_in else [sym.field(tr, str(i)) for i in range(n_in)]
                    raw = [raw[0]] + rest_r
                    args = [args[0]] + [self.deref_val(st, a) for a in rest_r]
                    t = dict(t)
                    t["args"] = [{"const": {"ty": target_fn.locals[i + 1]["ty"]}} for i in range(target_fn.arg_count)]
            if target_fn is not None and target_fn.kind != "Closure":
                cmap = {}
                for i, a in enumerate(args):
                    if i < target_fn.arg_count and tag(a) == "closure":
                        cmap[i] = payload(a)[0]
                    elif i < target_fn.arg_count and tag(a) == "param" and payload(a)[0] == fn.key and payload(a)[1] in getattr(fn, "closure_args", {}):
                        cmap[i] = fn.closure_args[payload(a)[1]]
                lmap = {}
                for i, a in enumerate(args):
                    if i < target_fn.arg_count and tag(a) in ("array", "vec") and len(kids(a)) <= 4:
                        ty = target_fn.locals[i + 1]["ty"]
                        if (ty.startswith("&[") and ty.endswith("]") and ";" not in ty) or ty.startswith("&std::vec::Vec<"):
                            lmap[i] = (tag(a), len(kids(a)))
                            # shared references among the elements (`&[&env.contract.address]`) are read now: the callee
                            # only ever sees the values
                            args = list(args)
                            args[i] = mk(tag(a), payload(a), tuple(self.deep_deref(st, x) for x in kids(a)))
                if cmap or lmap:
                    target_fn = self.world.specialise(target_fn, cmap, lmap)
                    name = target_fn.pretty
            if target_fn is None and args and tag(args[0]) in ITERS:
                forked = self.iter_call(st, bb, t, name, callee, args, raw)
                if forked is not None:
                    return forked
            if target_fn is None and callee["name"] == "saturating_sub" and len(args) == 2 and \
                    ((callee.get("self_ty") or callee.get("impl_self") or "") == U128 or name.startswith("cosmwasm_std::Uint128::")):
                # a.saturating_sub(b) is `if a < b { 0 } else { a - b }`: read as that branch
                a_, b_ = args
                atom = sym.op("lt", a_, b_)
                known = st.memo.get(atom)
                if known not in (True, False):
                    known = None
                    # the strict reverse order decides it: b < a (or a > b) excludes a < b
                    if st.memo.get(sym.op("lt", b_, a_)) is True or st.memo.get(sym.op("gt", a_, b_)) is True or \
                            st.memo.get(sym.op("le", b_, a_)) is True or st.memo.get(sym.op("ge", a_, b_)) is True:
                        known = False
                    elif st.memo.get(sym.op("gt", b_, a_)) is True or st.memo.get(sym.op("ge", a_, b_)) is False or st.memo.get(sym.op("le", b_, a_)) is False:
                        known = True
                    elif st.memo.get(sym.op("lt", b_, a_)) is False and st.memo.get(sym.op("is_zero", sym.unwrap(sym.op("u.checked_sub", b_, a_)))) is False:
                        known = True    # b >= a and b - a != 0: a < b
                outs = []
                for i, br in enumerate([True, False] if known is None else [known]):
                    s1 = st if (known is not None or i == 1) else st.fork()
                    if known is None:
                        self.add_cond(s1, (atom, br), bb_from=None, line=t["line"])
                    v_ = sym.intc(0, U128) if br else sym.unwrap(sym.op("u.checked_sub", a_, b_))
                    root, path = self.resolve(s1, t["dest"])
                    self.write(s1, root, path, v_)
                    outs.append((s1, t["target"]))
                return outs
            if target_fn is None and callee["name"] in ("then", "then_some") and name.endswith("<impl bool>::" + callee["name"]) and len(args) == 2:
                # cond.then(f) is `if cond { Some(f()) } else { None }`
                atom, pol = self.bool_atom(args[0])
                known = (payload(atom)[0] == pol) if tag(atom) == "bool" else None
                if known is None and st.memo.get(atom) in (True, False):
                    known = (st.memo[atom] == pol)
                snap = st.fork()
                try:
                    outs = []
                    for i, br in enumerate([True, False] if known is None else [bool(known)]):
                        s1 = st if (known is not None or i == 1) else st.fork()
                        if known is None:
                            self.add_cond(s1, (atom, br == pol), bb_from=None, line=t["line"])
                        if br:
                            if callee["name"] == "then":
                                r_ = self.call_closure(s1, args[1], [], bb, t)
                                if r_ is None:
                                    raise _NoIter()
                            else:
                                r_ = args[1]
                            v_ = sym.agg("std::option::Option", "Some", ["0"], [r_])
                        else:
                            v_ = sym.agg("std::option::Option", "None", [], [])
                        root, path = self.resolve(s1, t["dest"])
                        self.write(s1, root, path, v_)
                        outs.append((s1, t["target"]))
                    return outs
                except _NoIter:
                    for k in _State.__slots__:
                        setattr(st, k, getattr(snap, k))
            if target_fn is None and name == "std::option::Option::transpose" and len(args) == 1 and tag(args[0]) == "agg" and payload(args[0])[1] in ("Some", "None"):
                # Option<Result<T, E>> -> Result<Option<T>, E>
                a0_ = args[0]
                NONE_ = sym.agg("std::option::Option", "None", [], [])
                outs = []
                if payload(a0_)[1] == "None":
                    alts_ = [(st, sym.agg("std::result::Result", "Ok", ["0"], [NONE_]))]
                else:
                    r_ = kids(a0_)[0]
                    some_ok = lambda x: sym.agg("std::result::Result", "Ok", ["0"], [sym.agg("std::option::Option", "Some", ["0"], [x])])
                    if tag(r_) == "agg" and payload(r_)[1] in ("Ok", "Err"):
                        alts_ = [(st, some_ok(kids(r_)[0]) if payload(r_)[1] == "Ok" else r_)]
                    else:
                        at_ = sym.op("is_ok", r_)
                        kn_ = st.memo.get(at_)
                        if kn_ in (True, False):
                            alts_ = [(st, some_ok(sym.unwrap(r_)) if kn_ else sym.agg("std::result::Result", "Err", ["0"], [mk("unwrap_err", (), (r_,))]))]
                        else:
                            s2 = st.fork()
                            self.add_cond(st, (at_, True), bb_from=None, line=t["line"])
                            self.add_cond(s2, (at_, False), bb_from=None, line=t["line"])
                            alts_ = [(st, some_ok(sym.unwrap(r_))), (s2, sym.agg("std::result::Result", "Err", ["0"], [mk("unwrap_err", (), (r_,))]))]
                for (s1, v_) in alts_:
                    root, path = self.resolve(s1, t["dest"])
                    self.write(s1, root, path, v_)
                    outs.append((s1, t["target"]))
                return outs
            if target_fn is None and name in COMBINATORS and len(args) == COMBINATORS[name][1]:
                forked = self.combinator_call(st, bb, t, name, args)
                if forked is not None:
                    return forked
            result = self.model(st, callee, name, args, raw, site, occ, target_fn, t)
        ev = Event(fn, bb, t["line"], callee, name, args, raw, result, target_fn, self_ty)
        ev.idx = len(st.events)
        st.events.append(ev)
        st.items.append(("e", ev))
        root, path = self.resolve(st, t["dest"])
        self.write(st, root, path, result)
        return t["target"]

    # -- iteration over lists whose elements are all known --------------------
    def deep_deref(self, st, v, depth=3):
        """elements of a literal list as values: shared references inside tuples are read now"""
        n = 0
        while tag(v) == "ref" and not payload(v)[2] and n < 8:
            r, p_, _m = payload(v)
            v = self.read(st, r, list(p_))
            n += 1
        # (a `&mut` element stays a reference: the loop body writes through it)
        if depth > 0 and tag(v) in ("tuple", "array"):
            return mk(tag(v), payload(v), tuple(self.deep_deref(st, x, depth - 1) for x in kids(v)))
        return v

    def lib_callable(self, clo):
        """'unwrap' | 'id' for a library function item whose meaning is tabled (`.map(Option::unwrap)`, `.map(Clone::clone)`)"""
        if tag(clo) != "fnref":
            return None
        nm = strip_generics(str(payload(clo)[0]))
        if nm in UNWRAPS:
            return "unwrap"
        if nm in TRANSPARENT:
            return "id"
        # a variant constructor used as a function (`.map_or_else(|| Ok(..), Err)`, `.map(Some)`)
        key_ = str(payload(clo)[1]) if len(payload(clo)) > 1 else ""
        for full, short in (("result::Result::Err", "Err"), ("result::Result::Ok", "Ok"), ("option::Option::Some", "Some")):
            if nm.endswith(full) or (full + "::{constructor") in key_:
                return "ctor:" + short
        return None

    def call_closure(self, st, clo, argvals, bb, t):
        """one call of a closure value with the given arguments, recorded as an event of this body"""
        lc = self.lib_callable(clo)
        if lc is not None and lc.startswith("ctor:") and len(argvals) == 1:
            adt_ = "std::option::Option" if lc == "ctor:Some" else "std::result::Result"
            return sym.agg(adt_, lc[5:], ["0"], [argvals[0]])
        if lc is not None and len(argvals) == 1:
            return sym.unwrap(argvals[0]) if lc == "unwrap" else argvals[0]
        ctarget = self.closure_target(clo)
        is_item = tag(clo) == "fnref"
        if ctarget is None and is_item and not str(payload(clo)[0]).startswith(tuple(w_ + "::" for w_ in WORKSPACE)):
            # a library function item (`cond.then(Response::new)`): an opaque library call, like the same call written out
            site = "%s#%d" % (self.fn.key, bb)
            occ = st.occ.get(bb, 0)
            st.occ[bb] = occ + 1
            return sym.call(strip_generics(str(payload(clo)[0])), list(argvals), site, occ)
        if ctarget is None or ctarget.arg_count != (0 if is_item else 1) + len(argvals):
            return None
        site = "%s#%d" % (self.fn.key, bb)
        occ = st.occ.get(bb, 0)
        st.occ[bb] = occ + 1
        args = list(argvals) if is_item else [clo] + list(argvals)
        callee = {"name": ctarget.name, "pretty": ctarget.pretty, "trait": None, "args": [], "res_kind": "item",
                  "res_krate": ctarget.crate, "res_key": ctarget.key, "krate": ctarget.crate}
        t2 = dict(t)
        t2["args"] = [{"const": {"ty": ctarget.locals[i + 1]["ty"]}} for i in range(ctarget.arg_count)]
        result = self.model(st, callee, ctarget.pretty, args, args, site, occ, ctarget, t2)
        ev = Event(self.fn, bb, t["line"], callee, ctarget.pretty, args, args, result, ctarget, None)
        ev.idx = len(st.events)
        st.events.append(ev)
        st.items.append(("e", ev))
        return result

    def iter_pull(self, st, it, bb, t):
        """one step of a (lazy) iterator over a known list: [(state, iterator after the step, item | None)] - one
        alternative per outcome of the filter closures on the way"""
        if tag(it) == "iterlit":
            pos, el = payload(it)[0], kids(it)
            if pos >= len(el):
                return [(st, it, None)]
            return [(st, mk("iterlit", (pos + 1,), el), el[pos])]
        if tag(it) == "itersym":
            # a list of unknown length: `next()` is an event whose answer the path decides, at most loop-bound elements
            n = payload(it)[0]
            src = kids(it)[0]
            if n >= self.loop_bound:
                return [(st, it, _CUT)]
            site = "%s#%d" % (self.fn.key, bb)
            occ = st.occ.get(bb, 0)
            st.occ[bb] = occ + 1
            res = sym.call("std::iter::Iterator::next", [src], site, occ)
            callee = {"name": "next", "pretty": "std::iter::Iterator::next", "trait": "std::iter::Iterator", "args": [], "res_kind": None, "krate": "core"}
            ev = Event(self.fn, bb, t["line"], callee, "std::iter::Iterator::next", [src], [src], res, None, None)
            ev.idx = len(st.events)
            st.events.append(ev)
            st.items.append(("e", ev))
            atom = sym.op("is_some", res)
            s2 = st.fork()
            self.add_cond(st, (atom, True), bb_from=None, line=t["line"])
            self.add_cond(s2, (atom, False), bb_from=None, line=t["line"])
            return [(st, mk("itersym", (n + 1,), (src,)), sym.unwrap(res)), (s2, it, None)]
        kind = payload(it)[0]
        src, clo = kids(it)
        out = []
        for (s1, src1, item) in self.iter_pull(st, src, bb, t):
            it1 = mk("iteradapt", (kind,), (src1, clo))
            if item is None or item is _CUT:
                out.append((s1, it1, item))
                continue
            if kind == "flatten":
                # an iterator of Options: Some(x) yields x, None is skipped
                if tag(item) == "agg" and payload(item)[1] in ("Some", "None"):
                    if payload(item)[1] == "Some":
                        out.append((s1, it1, kids(item)[0]))
                    else:
                        out.extend(self.iter_pull(s1, it1, bb, t))
                    continue
                at_ = sym.op("is_some", item)
                kn_ = s1.memo.get(at_)
                if kn_ is True:
                    out.append((s1, it1, sym.unwrap(item)))
                elif kn_ is False:
                    out.extend(self.iter_pull(s1, it1, bb, t))
                else:
                    s2 = s1.fork()
                    self.add_cond(s1, (at_, True), bb_from=None, line=t["line"])
                    out.append((s1, it1, sym.unwrap(item)))
                    self.add_cond(s2, (at_, False), bb_from=None, line=t["line"])
                    out.extend(self.iter_pull(s2, it1, bb, t))
                continue
            r = self.call_closure(s1, clo, [item], bb, t)
            if r is None:
                raise _NoIter()
            if kind == "map":
                out.append((s1, it1, r))
                continue
            if kind == "filter_map":
                # the closure answers Some(y) (yield y) or None (skip)
                if tag(r) == "agg" and payload(r)[1] in ("Some", "None"):
                    if payload(r)[1] == "Some":
                        out.append((s1, it1, kids(r)[0]))
                    else:
                        out.extend(self.iter_pull(s1, it1, bb, t))
                    continue
                at_ = sym.op("is_some", r)
                s2 = s1.fork()
                self.add_cond(s1, (at_, True), bb_from=None, line=t["line"])
                out.append((s1, it1, sym.unwrap(r)))
                self.add_cond(s2, (at_, False), bb_from=None, line=t["line"])
                out.extend(self.iter_pull(s2, it1, bb, t))
                continue
            # filter: keep the item iff the closure answers true
            atom, pol = self.bool_atom(r)
            known = sym.boolc(payload(atom)[0] == pol) if tag(atom) == "bool" else None
            if known is None and s1.memo.get(atom) in (True, False):
                known = sym.boolc(s1.memo[atom] == pol)
            if known is not None:
                if payload(known)[0]:
                    out.append((s1, it1, item))
                else:
                    out.extend(self.iter_pull(s1, it1, bb, t))
                continue
            s2 = s1.fork()
            self.add_cond(s1, (atom, pol), bb_from=None, line=t["line"])
            out.append((s1, it1, item))
            self.add_cond(s2, (atom, not pol), bb_from=None, line=t["line"])
            out.extend(self.iter_pull(s2, it1, bb, t))
        return out

    def iter_call(self, st, bb, t, name, callee, args, raw):
        """`next` / `collect` on an iterator over a known list, evaluated element by element.  None: not handled here."""
        nm = callee["name"]
        if name not in ("std::iter::Iterator::next", "std::iter::Iterator::collect"):
            return None
        into_result = nm == "collect" and any(str(a).startswith("std::result::Result<std::vec::Vec<") for a in callee.get("args", []))
        if nm == "collect" and not into_result and not any(str(a).startswith("std::vec::Vec<") for a in callee.get("args", [])):
            return None
        snap = st.fork()
        try:
            if nm == "next":
                alts = self.iter_pull(st, args[0], bb, t)
                outs = []
                for (s1, it1, item) in alts:
                    if item is _CUT:
                        self.finish(s1, "cut")
                        continue
                    self.store_through(s1, t["args"][0], raw[0], it1)
                    if item is None:
                        res = sym.agg("std::option::Option", "None", [], [])
                    else:
                        res = sym.agg("std::option::Option", "Some", ["0"], [item])
                        # iterations of a loop over a known list do not count against the unrolling bound
                        mark = s1.marks.get(bb)
                        if mark is not None:
                            for b in s1.blocks[mark:]:
                                if s1.visits.get(b, 0) > 0:
                                    s1.visits[b] -= 1
                        s1.marks[bb] = len(s1.blocks)
                    root, path = self.resolve(s1, t["dest"])
                    self.write(s1, root, path, res)
                    outs.append((s1, t["target"]))
                return outs
            work = [(st, args[0], [])]
            outs = []
            while work:
                s0, it0, acc = work.pop()
                for (s1, it1, item) in self.iter_pull(s0, it0, bb, t):
                    if item is _CUT:
                        self.finish(s1, "cut")
                    elif item is None:
                        root, path = self.resolve(s1, t["dest"])
                        v_ = mk("vec", (), tuple(acc))
                        self.write(s1, root, path, sym.agg("std::result::Result", "Ok", ["0"], [v_]) if into_result else v_)
                        outs.append((s1, t["target"]))
                    elif into_result:
                        # collecting Results: the first Err is the answer, an Ok contributes its payload
                        if tag(item) == "agg" and payload(item)[1] in ("Ok", "Err"):
                            alts_ = [(s1, payload(item)[1] == "Ok")]
                        else:
                            at_ = sym.op("is_ok", item)
                            kn_ = s1.memo.get(at_)
                            if kn_ in (True, False):
                                alts_ = [(s1, kn_)]
                            else:
                                s2 = s1.fork()
                                self.add_cond(s1, (at_, True), bb_from=None, line=t["line"])
                                self.add_cond(s2, (at_, False), bb_from=None, line=t["line"])
                                alts_ = [(s1, True), (s2, False)]
                        for (sx, isok) in alts_:
                            if isok:
                                work.append((sx, it1, acc + [sym.unwrap(item)]))
                            else:
                                root, path = self.resolve(sx, t["dest"])
                                self.write(sx, root, path, sym.agg("std::result::Result", "Err", ["0"], [mk("unwrap_err", (), (item,))]))
                                outs.append((sx, t["target"]))
                    else:
                        work.append((s1, it1, acc + [item]))
            return outs
        except _NoIter:
            # restore and fall back to the opaque model
            for k in _State.__slots__:
                setattr(st, k, getattr(snap, k))
            return None

    def combinator_call(self, st, bb, t, name, args):
        """Option / Result combinators that take a closure (`map`, `map_or`, `and_then`, `ok_or_else`, `unwrap_or_else`, ..):
        read as the `match` they abbreviate - one continuation per variant, the closure called on the payload.
        None: not handled (closure unknown)"""
        kind, _n, present, absent = COMBINATORS[name]
        x = args[0]
        some_v, none_v = ("Some", "None") if kind == "opt" else ("Ok", "Err")
        atom = sym.op("is_some" if kind == "opt" else "is_ok", x)
        clos = [a for a in args[1:] if self.closure_target(a) is not None or self.lib_callable(a) is not None]
        need = sum(1 for spec in (present, absent) if spec[0] in ("f", "wrapf", "f0", "wrapf0", "ferr"))
        if len(clos) < need:
            return None
        if tag(x) == "agg" and payload(x)[1] in (some_v, none_v):
            known = payload(x)[1] == some_v
        else:
            known = st.memo.get(atom)
            if known not in (True, False):
                known = None
        snap = st.fork()

        def value(s1, spec, is_present):
            how = spec[0]
            payload_v = sym.unwrap(x) if is_present else mk("unwrap_err", (), (x,))
            if how == "x":
                return payload_v
            if how == "self":
                # (the Err of a Result passes through: spelt as an Err so that the path is classified as failing)
                if kind == "res" and not is_present and not (tag(x) == "agg"):
                    return sym.agg("std::result::Result", "Err", ["0"], [mk("unwrap_err", (), (x,))])
                return x
            if how == "arg":
                return args[spec[1]]
            if how == "wrapx":
                return sym.agg(spec[1][0], spec[1][1], ["0"], [payload_v])
            if how == "wraparg":
                return sym.agg(spec[2][0], spec[2][1], ["0"], [args[spec[1]]])
            if how == "none":
                return sym.agg("std::option::Option", "None", [], [])
            if how == "false":
                return sym.boolc(False)
            clo = args[spec[1]]
            if how in ("f", "wrapf", "ferr"):
                r = self.call_closure(s1, clo, [payload_v], bb, t)
            else:
                r = self.call_closure(s1, clo, [], bb, t)
            if r is None:
                raise _NoIter()
            if how in ("wrapf", "wrapf0"):
                return sym.agg(spec[2][0], spec[2][1], ["0"], [r])
            return r
        try:
            outs = []
            branches = [(True, present), (False, absent)] if known is None else [(known, present if known else absent)]
            for i, (is_present, spec) in enumerate(branches):
                s1 = st if i == len(branches) - 1 else st.fork()
                if known is None:
                    self.add_cond(s1, (atom, is_present), bb_from=None, line=t["line"])
                v = value(s1, spec, is_present)
                root, path = self.resolve(s1, t["dest"])
                self.write(s1, root, path, v)
                outs.append((s1, t["target"]))
            return outs
        except _NoIter:
            for k in _State.__slots__:
                setattr(st, k, getattr(snap, k))
            return None

    def any_as_contains(self, it, clo):
        """contains(list, y) for iter(list).any(closure) when the closure is `|x| x == y` with y captured"""
        src = it
        while tag(src) in ("unwrap",):
            src = kids(src)[0]
        if not (tag(src) == "call" and str(payload(src)[0]).split("::")[-1] == "iter" and len(kids(src)) == 1):
            return None
        cf = self.world.fn_named(payload(clo)[0])
        if cf is None or cf.arg_count != 2:
            return None
        try:
            cps = [p for p in self.ev.paths(cf) if p.exit == "return"]
        except TooManyPaths:
            return None
        if len(cps) != 1:
            return None
        r = cps[0].ret
        if not (tag(r) == "op" and payload(r)[0] == "eq" and len(kids(r)) == 2):
            return None
        envp = sym.param(cf.key, 0, cf.param_name(0))
        argp = sym.param(cf.key, 1, cf.param_name(1))
        a, b = kids(r)
        for x, y in ((a, b), (b, a)):
            if x == argp and tag(y) == "field" and kids(y)[0] == envp:
                cap = sym.subst(y, {envp: clo})
                return sym.call("core::slice::<impl [T]>::contains", [kids(src)[0], cap], "", 0)
        return None

    def closure_target(self, f):
        if tag(f) == "closure":
            return self.world.fn_named(payload(f)[0])
        if tag(f) == "fnref":
            # a function item handed to a combinator (`.map(wrap)`): a workspace function is called like a closure
            ft = self.world.fns.get(payload(f)[1])
            return ft if ft is not None and ft.crate in WORKSPACE else None
        if tag(f) == "param" and payload(f)[0] == self.fn.key:
            c = getattr(self.fn, "closure_args", {}).get(payload(f)[1])
            if c is not None:
                return self.world.by_pretty.get(c)
        return None

    def havoc(self, st, t, raw, result, skip=()):
        for i, (o, rv) in enumerate(zip(t["args"], raw)):
            if i in skip:
                continue
            ty = self.operand_ty(o)
            if tag(rv) == "tuple":
                for x in kids(rv):
                    if tag(x) == "ref" and payload(x)[2]:
                        r, p, _m = payload(x)
                        old = self.read(st, r, list(p))
                        self.write(st, r, list(p), mk("mutby", (i,), (result, old)))
            if tag(rv) == "ref":
                r, p, m = payload(rv)
                if m:
                    old = self.read(st, r, list(p))
                    self.write(st, r, list(p), mk("mutby", (i,), (result, old)))
            elif ty.startswith("&mut ") and "dyn cosmwasm_std::Storage" not in ty:
                root = ("ptr", rv)
                old = st.mem.get(root, rv)
                st.mem[root] = mk("mutby", (i,), (result, old))

    def model(self, st, callee, name, args, raw, site, occ, target_fn, t):
        a0 = args[0] if args else None
        trait = callee.get("trait")
        nm = callee["name"]
        if strip_generics(callee["pretty"]) == "std::clone::Clone::clone":
            return a0
        self_ty = callee.get("self_ty") or callee.get("impl_self") or ""
        if trait in ("std::cmp::PartialOrd", "std::cmp::PartialEq") and nm in CMP:
            # comparisons are operator nodes whatever the operand type (Integer's own ordering is C19's subject)
            return self.binop(nm, a0, args[1])
        if trait == "std::cmp::Ord" and nm == "cmp" and len(args) == 2 and self.fn.crate != "margined_common":
            # three-way comparison, likewise (a `match a.cmp(&b)` is read as the comparisons it stands for)
            return sym.op("cmp", a0, args[1])
        if target_fn is None:
            # ---- library semantics (trusted table) ----
            if name in TRANSPARENT:
                return a0
            if name in UNWRAPS:
                return sym.unwrap(a0)
            if name in MAPERR:
                return a0
            if name in ("std::option::Option::unwrap_or", "std::result::Result::unwrap_or") and len(args) == 2 and tag(a0) == "agg":
                # decided at the call site: Some(x)/Ok(x) -> x, None/Err -> the default
                if payload(a0)[1] in ("Some", "Ok") and kids(a0):
                    return kids(a0)[0]
                if payload(a0)[1] in ("None", "Err"):
                    return args[1]
            if name in ("std::option::Option::unwrap_or", "std::result::Result::unwrap_or") and len(args) == 2:
                # decided by what the path already knows about the operand
                k_ = st.memo.get(sym.op("is_some" if name.startswith("std::option") else "is_ok", a0))
                if k_ is True:
                    return sym.unwrap(a0)
                if k_ is False:
                    return args[1]
            if name == "std::ops::Try::branch":
                return mk("try", (), (a0,))
            if name == "std::ops::FromResidual::from_residual":
                return mk("errfrom", (), (a0,))
            if name in ("std::convert::Into::into", "std::convert::From::from"):
                # conversions between library types are value preserving for our purposes
                return a0
            if trait in ("std::cmp::PartialOrd", "std::cmp::PartialEq") and nm in CMP:
                return self.binop(nm, a0, args[1])
            if trait == "std::cmp::Ord" and nm in ("cmp", "max", "min"):
                return sym.op(nm, a0, args[1])
            if trait == "std::cmp::PartialOrd" and nm == "partial_cmp":
                return sym.op("partial_cmp", a0, args[1])
            if trait in ("std::ops::Add", "std::ops::Sub", "std::ops::Mul", "std::ops::Div", "std::ops::Rem"):
                return sym.op("u." + nm, a0, args[1])
            if trait == "std::ops::Not":
                return self.negate(a0)
            if trait == "std::default::Default" and nm == "default":
                return mk("default", (callee["args"][0] if callee["args"] else "?",))
            if self_ty == U128 or name.startswith("cosmwasm_std::Uint128::"):
                if nm in ("checked_add", "checked_sub", "checked_mul", "checked_div", "checked_rem", "checked_pow",
                          "saturating_sub", "saturating_add", "multiply_ratio", "abs_diff"):
                    return sym.op("u." + nm, *args)
                if nm == "zero":
                    return sym.intc(0, U128)
                if nm == "one":
                    return sym.intc(1, U128)
                if nm in ("new",):
                    return a0 if tag(a0) != "int" else sym.intc(int(payload(a0)[0]), U128)
                if nm == "is_zero":
                    if tag(a0) == "int":
                        return sym.boolc(int(payload(a0)[0]) == 0)
                    return sym.op("is_zero", a0)
                if nm == "u128":
                    return a0
            if name == "std::iter::Iterator::position" and len(args) == 2 and tag(args[1]) == "closure":
                # `list.iter().position(|x| *x == y)`: Some(index) exactly when the list contains y
                m_ = self.any_as_contains(args[0], args[1])
                if m_ is not None:
                    return sym.call("list::index_of", list(kids(m_)), "", 0)
            if name == "std::iter::Iterator::any" and len(args) == 2 and tag(args[1]) == "closure":
                # `list.iter().any(|x| *x == y)` is the membership test `list.contains(&y)`
                m_ = self.any_as_contains(args[0], args[1])
                if m_ is not None:
                    return m_
            if a0 is not None and tag(a0) in ("array", "vec") and (name == "std::iter::IntoIterator::into_iter" or (nm == "iter" and name.endswith("<impl [T]>::iter"))):
                # an iterator over a list whose elements are all known: stepped concretely (iter_call)
                return mk("iterlit", (0,), tuple(self.deep_deref(st, x) for x in kids(a0)))
            if a0 is not None and tag(a0) == "call" and str(payload(a0)[0]) in ITER_SOURCES and \
                    name in ("std::iter::Iterator::filter", "std::iter::Iterator::map", "std::iter::Iterator::filter_map") and \
                    len(args) == 2 and self.closure_target(args[1]) is not None:
                # an adaptor with a known closure over a list of unknown length: stepped like the loop it abbreviates,
                # up to the unrolling bound (iter_pull)
                return mk("iteradapt", (nm,), (mk("itersym", (0,), (a0,)), args[1]))
            if a0 is not None and tag(a0) in ITERS:
                if name == "std::iter::IntoIterator::into_iter":
                    return a0
                if name in ("std::iter::Iterator::filter", "std::iter::Iterator::map", "std::iter::Iterator::filter_map") and len(args) == 2 and self.closure_target(args[1]) is not None:
                    return mk("iteradapt", (nm,), (a0, args[1]))
                if name == "std::iter::Iterator::flatten" and len(args) == 1:
                    return mk("iteradapt", ("flatten",), (a0, sym.tup([])))
            if name == "std::iter::Iterator::nth" and len(args) == 2 and tag(a0) == "call" and str(payload(a0)[0]) == "std::iter::Iterator::rev" \
                    and kids(a0) and tag(kids(a0)[0]) == "call" and str(payload(kids(a0)[0])[0]).endswith("<impl [T]>::iter") and len(kids(kids(a0)[0])) == 1:
                # `list.iter().rev().nth(k)`: the element k places before the last one (None when the list is shorter);
                # integer conversions of k (`usize::try_from(k).ok()?`, `k as usize`) are views of the same number
                lst = kids(kids(a0)[0])[0]
                k = args[1]
                for _ in range(6):
                    if tag(k) == "unwrap":
                        k = kids(k)[0]
                    elif tag(k) == "call" and kids(k) and str(payload(k)[0]) in ("std::result::Result::ok", "std::convert::TryFrom::try_from", "std::convert::TryInto::try_into", "std::convert::From::from", "std::convert::Into::into"):
                        k = kids(k)[0]
                    elif tag(k) == "cast" and kids(k):
                        k = kids(k)[0]
                    elif tag(k) == "call" and len(kids(k)) == 2 and str(payload(k)[0]) in ("std::result::Result::unwrap_or", "std::option::Option::unwrap_or") \
                            and tag(kids(k)[1]) == "int" and int(payload(kids(k)[1])[0]) >= 2 ** 32 - 1:
                        # `usize::try_from(k).unwrap_or(usize::MAX)`: a count no list reaches stands for "further than the list"
                        k = kids(k)[0]
                    else:
                        break
                return sym.call("list::nth_back", [lst, k], "", 0)
            if name.endswith("<impl [T]>::contains") and len(args) == 2 and a0 is not None and tag(a0) in ("array", "vec") and len(kids(a0)) <= 1:
                # membership in a list whose elements are all known: never for the empty list, equality for one element
                if not kids(a0):
                    return sym.boolc(False)
                return self.binop("eq", args[1], self.deep_deref(st, kids(a0)[0]))
            if name in ("cosmwasm_std::SubMsg::new", "cosmwasm_std::SubMsg::reply_always", "cosmwasm_std::SubMsg::reply_on_error",
                        "cosmwasm_std::SubMsg::reply_on_success") and args:
                # the library's SubMsg constructors are the struct literal they abbreviate (cosmwasm-std results.rs):
                # new(m) = {id: 0, msg: m.into(), gas_limit: None, reply_on: Never}, reply_*(m, id) likewise
                ron = {"new": "Never", "reply_always": "Always", "reply_on_error": "Error", "reply_on_success": "Success"}[nm]
                idv = args[1] if nm != "new" and len(args) > 1 else sym.intc(0, "u64")
                return sym.agg("cosmwasm_std::SubMsg", "SubMsg", ("id", "msg", "gas_limit", "reply_on"),
                               (idv, a0, sym.agg("std::option::Option", "None", (), ()), sym.agg("cosmwasm_std::ReplyOn", ron, (), ())))
            if name in PURE_LIB:
                return sym.op(PURE_LIB[name], *args)
            if name == "std::boxed::Box::new_uninit":
                return mk("box", (site, occ))
            if name == "std::boxed::box_assume_init_into_vec_unsafe":
                # vec![a, b, ..]: the array was written through the box's raw pointer
                for root, pv in st.mem.items():
                    if isinstance(root, tuple) and a0 in set(sym.walk(root[1])):
                        for x in sym.walk(pv):
                            if tag(x) == "array":
                                return mk("vec", (), kids(x))
                return mk("vecof", (), (a0,))
            if name.startswith("std::vec::Vec::"):
                if nm == "new":
                    return mk("vec", (), ())
                if nm in ("push", "append") and tag(raw[0]) == "ref" or nm in ("push", "append"):
                    cur = a0
                    if nm == "push":
                        new = mk("vec", (), kids(cur) + (args[1],)) if tag(cur) == "vec" else mk("vecpush", (), (cur, args[1]))
                    else:
                        other = args[1]
                        if tag(cur) == "vec" and tag(other) == "vec":
                            new = mk("vec", (), kids(cur) + kids(other))
                        else:
                            new = mk("vecappend", (), (cur, other))
                    self.store_through(st, t["args"][0], raw[0], new)
                    if nm == "append":
                        self.store_through(st, t["args"][1], raw[1], mk("vec", (), ()))
                    return sym.tup([])
                if nm == "len":
                    return sym.op("len", a0)
            if name in ("std::slice::<impl [T]>::into_vec", "alloc::slice::<impl [T]>::into_vec"):
                # vec![a, b, ..] : boxed array -> vec of the array's elements
                if tag(a0) == "array":
                    return mk("vec", (), kids(a0))
                return mk("vecof", (), (a0,))
            extra = (self_ty,) if trait else ()
            if nm in ("query", "to_binary", "from_binary", "from_slice", "query_wasm_smart"):
                extra = tuple(callee.get("args", []))
            r = sym.call(name, args, site, occ, extra=extra)
            self.ev.unmodelled[name] = self.ev.unmodelled.get(name, 0) + 1
            self.havoc(st, t, raw, r)
            return r
        # ---- workspace function: opaque here, expanded on demand ----
        if self.ev.pure(target_fn):
            # no storage / querier / &mut access anywhere below: the result depends on the arguments only
            r = sym.call(name, args, "", 0)
            return r
        r = sym.call(name, args, site, occ)
        self.havoc(st, t, raw, r)
        self.refine_mut_outputs(st, t, raw, args, target_fn)
        return r

    def refine_mut_outputs(self, st, t, raw, args, target_fn):
        """when the callee has exactly one success path, a `&mut` argument's pointee after the call
        is that path's final pointee value with the parameters substituted"""
        if target_fn.key in self.ev.in_progress:
            return
        muts = []
        for i, (o, rv) in enumerate(zip(t["args"], raw)):
            ty = self.operand_ty(o)
            if (tag(rv) == "ref" and payload(rv)[2]) or (ty.startswith("&mut ") and "dyn cosmwasm_std::Storage" not in ty):
                muts.append(i)
        if not muts:
            return
        try:
            cps = self.ev.paths(target_fn)
        except TooManyPaths:
            return
        oks = [p for p in cps if p.kind() in ("ok", "value", "dep")]
        if len(oks) != 1:
            return
        m = {}
        for i, a in enumerate(args):
            if i < target_fn.arg_count:
                m[sym.param(target_fn.key, i, target_fn.param_name(i))] = a
        for i in muts:
            pk = sym.param(target_fn.key, i, target_fn.param_name(i))
            if pk in oks[0].ptr_out:
                newv = sym.subst(oks[0].ptr_out[pk], m)
                self.store_through(st, t["args"][i], raw[i], newv)

    def store_through(self, st, operand_json, rawv, new):
        if tag(rawv) == "ref":
            r, p, _m = payload(rawv)
            self.write(st, r, list(p), new)
        else:
            st.mem[("ptr", rawv)] = new
