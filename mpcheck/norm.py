"""Normal form of arithmetic expression trees and pattern matching (formula rules).

N(ix, v) -> nested tuples:
  ('int', n) | ('leaf', value id)
  unsigned: ('add'|'sub'|'mul'|'div', a, b)        (checked and unchecked forms are the same formula;
                                                     failure behaviour is not part of the formula)
  signed:   ('pos', u) | ('neg', u) | ('iadd'|'isub'|'imul'|'idiv', a, b) | ('abs', s) | ('inv', s)
            ('mag', s)  = the magnitude field of a signed value
Patterns: the same tuples, plus ('?', name, predicate) holes; commutative operators match in either order.
"""
from . import sym
from .sym import tag, payload, kids
from .inter import is_integer_fn

UOPS = {"u.checked_add": "add", "u.checked_sub": "sub", "u.checked_mul": "mul", "u.checked_div": "div",
        "u.add": "add", "u.sub": "sub", "u.mul": "mul", "u.div": "div", "u.checked_rem": "rem", "u.rem": "rem", "rem": "rem", "add": "add", "sub": "sub", "mul": "mul", "div": "div"}
IBIN = {"add": "iadd", "sub": "isub", "mul": "imul", "div": "idiv", "checked_add": "iadd", "checked_sub": "isub",
        "checked_mul": "imul", "checked_div": "idiv"}
COMM = {"add", "mul", "iadd", "imul", "absdiff"}


def N(ix, v, depth=40):
    if depth <= 0:
        return ("leaf", v)
    v = ix.inline(v)
    t = tag(v)
    if t == "int":
        return ("int", int(payload(v)[0]))
    if t in ("unwrap", "ok"):
        inner = N(ix, kids(v)[0], depth - 1)
        if inner[0] != "leaf":
            return inner
        return ("leaf", v)
    if t == "op":
        nm = payload(v)[0]
        if nm in UOPS and len(kids(v)) == 2:
            return (UOPS[nm], N(ix, kids(v)[0], depth - 1), N(ix, kids(v)[1], depth - 1))
        if nm in ("u.abs_diff", "abs_diff") and len(kids(v)) == 2:
            return ("absdiff", N(ix, kids(v)[0], depth - 1), N(ix, kids(v)[1], depth - 1))
        if nm in ("min", "max") and len(kids(v)) == 2:
            return (nm, N(ix, kids(v)[0], depth - 1), N(ix, kids(v)[1], depth - 1))
        return ("leaf", v)
    if t == "call":
        nm = payload(v)[0]
        ks = kids(v)
        if is_integer_fn(nm):
            last = nm.split("::")[-1]
            if last == "new_positive" or (last == "from" and len(ks) == 1):
                return ("pos", N(ix, ks[0], depth - 1))
            if last == "new_negative":
                return ("neg", N(ix, ks[0], depth - 1))
            if last in ("zero", "default"):
                return ("pos", ("int", 0))
            if last in IBIN and len(ks) == 2:
                a, b = N(ix, ks[0], depth - 1), N(ix, ks[1], depth - 1)
                opn = IBIN[last]
                # x + (-y) is x - y ; x - (-y) is x + y (how `-=` and Sub are written in terms of Add)
                if opn in ("iadd", "isub") and b[0] == "inv":
                    return ("isub" if opn == "iadd" else "iadd", a, b[1])
                if opn in ("iadd", "isub") and b[0] == "neg":
                    # x + (−u) is x − (+u): adding a negative literal operand and subtracting the positive one are one form
                    return ("isub" if opn == "iadd" else "iadd", a, ("pos", b[1]))
                # x * (-1) and (-1) * x are -x
                if opn == "imul" and b == ("neg", ("int", 1)):
                    return ("inv", a)
                if opn == "imul" and a == ("neg", ("int", 1)):
                    return ("inv", b)
                return (opn, a, b)
            if last == "abs":
                return ("abs", N(ix, ks[0], depth - 1))
            if last == "invert_sign":
                return ("inv", N(ix, ks[0], depth - 1))
        return ("leaf", v)
    if t == "constdef" and payload(v)[0].endswith("Integer::ZERO"):
        return ("pos", ("int", 0))
    if t == "field" and payload(v)[0] == "value":
        inner = N(ix, kids(v)[0], depth - 1)
        if inner[0] == "pos":
            return inner[1]
        # |−x| = |x| and ||x|| = |x|: the magnitude does not see sign flips of its operand
        while inner[0] in ("inv", "abs"):
            inner = inner[1]
        if inner[0] in ("pos", "neg"):
            return inner[1]
        if inner[0] in ("iadd", "isub", "imul", "idiv"):
            return ("mag", inner)
        return ("leaf", v)
    if t == "agg" and payload(v)[0].endswith("integer::Integer"):
        neg = sym.field(v, "negative")
        val = sym.field(v, "value")
        if tag(neg) == "bool":
            return ("neg" if payload(neg)[0] else "pos", N(ix, val, depth - 1))
    return ("leaf", v)


def show(n, ix=None, depth=10):
    if n[0] == "int":
        return str(n[1])
    if n[0] == "leaf":
        return n[1] if isinstance(n[1], str) else sym.show(n[1], 5)
    if n[0] == "?":
        return "<%s>" % n[1]
    return "%s(%s)" % (n[0], ", ".join(show(x, ix, depth - 1) for x in n[1:]))


def match(pat, n, binds=None):
    """structural match; holes ('?', name, pred) bind a normal-form subtree (pred gets the subtree);
    a name bound twice must bind equal subtrees"""
    binds = {} if binds is None else binds
    if pat[0] == "?":
        _, name, pred = pat
        if name in binds:
            return binds if binds[name] == n else None
        if pred is not None and not pred(n):
            return None
        b2 = dict(binds)
        b2[name] = n
        return b2
    if pat[0] != n[0] or len(pat) != len(n):
        return None
    if pat[0] in ("int", "leaf"):
        return binds if pat[1] == n[1] else None
    orders = [n[1:]]
    if pat[0] in COMM and len(n) == 3:
        orders.append((n[2], n[1]))
    for args in orders:
        b = binds
        ok = True
        for p, a in zip(pat[1:], args):
            b = match(p, a, b)
            if b is None:
                ok = False
                break
        if ok:
            return b
    return None


def leaf_pred(f):
    """hole predicate on leaf value ids"""
    return lambda n: n[0] == "leaf" and f(n[1])


def hole(name, f=None):
    return ("?", name, leaf_pred(f) if f else None)


def anyhole(name):
    return ("?", name, None)
