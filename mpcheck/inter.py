"""Interprocedural layer (A3 summaries, A4 dispatch/message graph helpers).

* inline(v): rewrites calls to workspace functions that have exactly one
  non-error path into that path's (argument-substituted) return tree, so that
  helper/wrapper names do not matter to the rules.
* storage_item(v): identifies the storage item a cosmwasm_storage /
  cw_storage_plus / cw_controllers handle value denotes.
* prim(event): classifies a library call as a storage read / write / remove /
  role check (the trusted primitive table).
* summary(fn): transitive may/must effect sets.
* arms(contract, entry): dispatch table of an entry point.
"""
import re
from . import sym
from .sym import mk, tag, payload, kids
from . import paths as P

CONTRACTS = ["margined_engine", "margined_vamm", "margined_insurance_fund", "margined_fee_pool", "margined_pricefeed"]

# library storage primitives: name suffix -> (kind, index of the handle argument)
WRITE_PRIMS = {
    "cosmwasm_storage::Singleton::save": "write", "cosmwasm_storage::Bucket::save": "write",
    "cw_storage_plus::Item::save": "write", "cw_storage_plus::Map::save": "write",
    "cw_controllers::Admin::set": "write", "cosmwasm_storage::Singleton::update": "write",
    "cw_storage_plus::Item::update": "write", "cw_storage_plus::Map::update": "write",
    "cosmwasm_storage::Bucket::update": "write",
    "cosmwasm_storage::Singleton::remove": "remove", "cosmwasm_storage::Bucket::remove": "remove",
    "cw_storage_plus::Item::remove": "remove", "cw_storage_plus::Map::remove": "remove",
    "cw_controllers::Admin::execute_update_admin": "write",
    "cw_controllers::Hooks::execute_add_hook": "write", "cw_controllers::Hooks::execute_remove_hook": "write",
    "cw_controllers::Hooks::add_hook": "write", "cw_controllers::Hooks::remove_hook": "write",
}
READ_PRIMS = {
    "cosmwasm_storage::ReadonlySingleton::load": "read", "cosmwasm_storage::ReadonlySingleton::may_load": "read",
    "cosmwasm_storage::Singleton::load": "read", "cosmwasm_storage::Singleton::may_load": "read",
    "cosmwasm_storage::ReadonlyBucket::load": "read", "cosmwasm_storage::ReadonlyBucket::may_load": "read",
    "cosmwasm_storage::Bucket::load": "read", "cosmwasm_storage::Bucket::may_load": "read",
    "cw_storage_plus::Item::load": "read", "cw_storage_plus::Item::may_load": "read",
    "cw_storage_plus::Map::load": "read", "cw_storage_plus::Map::may_load": "read",
    "cw_controllers::Admin::get": "read", "cw_controllers::Admin::is_admin": "read",
    "cw_controllers::Admin::assert_admin": "read", "cw_controllers::Hooks::query_hook": "read",
    "cw_controllers::Hooks::query_hooks": "read",
}
HANDLE_MAKERS = {"cosmwasm_storage::singleton", "cosmwasm_storage::singleton_read",
                 "cosmwasm_storage::bucket", "cosmwasm_storage::bucket_read"}
OTHER_WRITES = {"cw2::set_contract_version": "cw2:contract_info"}


NO_INLINE_PREFIX = "margined_common::integer::"


# the operations of the signed integer type that the value model treats as algebraic primitives (normal forms, sign
# tests); any OTHER function of that type - a constructor or helper added by a refactoring - is ordinary workspace code
# and is inlined / expanded like every other helper
_INTEGER_PRIMITIVES = {
    "new_positive", "new_negative", "zero", "default", "from", "abs", "invert_sign", "is_negative", "is_positive", "is_zero",
    "add", "sub", "mul", "div", "checked_add", "checked_sub", "checked_mul", "checked_div", "add_assign", "sub_assign",
    "mul_assign", "div_assign", "neg", "cmp", "partial_cmp", "eq", "ne", "lt", "le", "gt", "ge", "max", "min", "fmt", "from_str",
    "to_string", "clone", "serialize", "deserialize",
}


def is_integer_fn(pretty):
    if not (pretty.startswith("margined_common::") and "integer::Integer" in pretty):
        return False
    last = pretty.split("::")[-1].split("<")[0]
    return last in _INTEGER_PRIMITIVES


class Inter:
    def __init__(self, world, ev=None):
        self.world = world
        self.ev = ev or P.Evaluator(world)
        self._inline = {}
        self._summary = {}
        self._okpaths = {}
        self._feas_depth = 0
        self._ft_depth = 0
        self._opened = {}
        self._keep = []
        self.expand_pure = False     # opt-in: split caller paths over the success paths of pure multi-path helpers
        self._expanding = set()

    # ---------------------------------------------------------------- paths
    def paths(self, fn):
        return self.ev.paths(fn)

    def ok_paths(self, fn):
        r = self._okpaths.get(fn.key)
        if r is None:
            r = [p for p in self.ev.paths(fn) if p.kind() in ("ok", "value", "dep")]
            if self.expand_pure and fn.key not in self._expanding:
                self._expanding.add(fn.key)
                try:
                    r = self._expand_pure_helpers(fn, r)
                finally:
                    self._expanding.discard(fn.key)
            self._okpaths[fn.key] = r
        return r

    # ---------------------------------------------------------------- pure multi-path helpers
    MAX_SPLIT = 24

    def _split_candidates(self, fn, p):
        """call values on path p whose callee is a pure workspace helper with several success paths at this site"""
        out = []
        seen = set()
        for e in p.events:
            t = e.target
            if t is None or t.key == fn.key or is_integer_fn(t.pretty) or tag(e.result) != "call" or e.result in seen:
                continue
            if not self.ev.pure(t):
                continue
            try:
                oks = self.ok_paths_at(t, self.param_map(t, e.args))
            except P.TooManyPaths:
                continue
            if len(oks) < 2 or len(oks) > 6 or any(q.exit != "return" for q in oks):
                continue
            seen.add(e.result)
            out.append((e, oks))
        return out

    def _subst_path(self, p, mapping, extra_conds, after_event):
        """copy of path p with `mapping` applied to every tree and extra_conds inserted after the given event;
        None when a branch condition becomes false"""
        memo = {}
        sub = lambda v: sym.subst(v, mapping, memo) if v is not None else None
        conds = []
        items = []
        opened = []

        def add_cond(c):
            atom, outcome, bb, ln = c
            a2 = sub(atom)
            r = self.fold_cond(a2, outcome) if a2 != atom else None
            if r is True:
                return True
            if r is False:
                return False
            c2 = (a2, outcome, bb, ln)
            conds.append(c2)
            items.append(("c", c2))
            return True
        events = []
        for kind, it in p.items:
            if kind == "c":
                if not add_cond(it):
                    return None
            else:
                e = it
                if e is after_event:
                    # the opened call keeps its place; its result is now the callee's value (no longer a call node,
                    # so the same call is never opened twice)
                    e2 = P.Event(e.fn, e.bb, e.line, e.callee, e.name, [sub(a) for a in e.args], [sub(a) for a in e.raw], sub(e.result), e.target, e.self_ty)
                    e2.idx = e.idx
                    e2.opened = True
                    opened.append(e2)
                else:
                    e2 = P.Event(e.fn, e.bb, e.line, e.callee, e.name, [sub(a) for a in e.args], [sub(a) for a in e.raw], sub(e.result), e.target, e.self_ty)
                    e2.idx = e.idx
                    e2.opened = e.opened
                events.append(e2)
                items.append(("e", e2))
                if e is after_event:
                    # the callee's decisions and events, in the callee's own order
                    for (k2, it2) in extra_conds:
                        if k2 == "c":
                            if not add_cond(it2):
                                return None
                        else:
                            events.append(it2)
                            items.append(("e", it2))
        # contradictory facts about the same atom; `x == Variant` is the same test as `match x { Variant => .. }`
        def _canon(a, o):
            if tag(a) == "op" and payload(a)[0] == "eq" and len(kids(a)) == 2 and o in (True, False):
                for x, y in (kids(a), kids(a)[::-1]):
                    if tag(y) == "agg" and not kids(y) and tag(x) != "agg":
                        return sym.op("discr", x), (("variant", payload(y)[1]) if o else ("other", (payload(y)[1],)))
            return a, o
        seen = {}
        for (a, o, _b, _l) in [_canon(c[0], c[1]) + (c[2], c[3]) for c in conds]:
            if a in seen and seen[a] != o:
                o1 = seen[a]
                if o in (True, False) and o1 in (True, False):
                    return None
                if isinstance(o, tuple) and isinstance(o1, tuple):
                    # two decisions about the same discriminant / integer
                    for x, y in ((o, o1), (o1, o)):
                        if x[0] in ("variant", "eq") and y[0] == x[0] and x[1] != y[1]:
                            return None
                        if x[0] == "variant" and y[0] == "other" and x[1] in y[1]:
                            return None
                        if x[0] == "eq" and y[0] == "notin" and x[1] in y[1]:
                            return None
            seen.setdefault(a, o)
        ptr_out = {sub(k): sub(v) for k, v in p.ptr_out.items()}
        q = P.Path(p.fn, conds, events, sub(p.ret), p.exit, ptr_out, p.blocks, items)
        self._opened[id(q)] = opened[0] if opened else None
        self._keep.append(q)
        return q

    def expand_on(self, p, e):
        """split path p over the success paths of the workspace callee of event e (any callee without `&mut`
        parameters): the call value is replaced by each return value, the callee's branch conditions and events are
        spliced in after the call.  Returns [p] when the callee cannot be expanded."""
        t = e.target
        if t is None or tag(e.result) != "call" or e.opened:
            return [p]
        muts = [i for i in range(t.arg_count) if t.locals[i + 1]["ty"].startswith("&mut ") and "dyn cosmwasm_std::Storage" not in t.locals[i + 1]["ty"]]
        m = self.param_map(t, e.args)
        try:
            oks = self.ok_paths_at(t, m)
        except P.TooManyPaths:
            return [p]
        if not oks or len(oks) > 12 or any(q.exit != "return" for q in oks):
            return [p]
        out = []
        for cp in oks:
            ret = sym.subst(cp.ret, m)
            memo = {}
            extra = []
            for (k2, it2) in cp.items:
                if k2 == "c":
                    (a, o, bb, ln) = it2
                    extra.append(("c", (sym.subst(a, m, memo), o, bb, ln)))
                else:
                    ce = it2
                    e3 = P.Event(ce.fn, ce.bb, ce.line, ce.callee, ce.name, [sym.subst(a, m, memo) for a in ce.args],
                                 [sym.subst(a, m, memo) for a in ce.raw], sym.subst(ce.result, m, memo) if ce.result is not None else None, ce.target, ce.self_ty)
                    e3.idx = -1
                    e3.opened = ce.opened
                    extra.append(("e", e3))
            mapping = {e.result: ret}
            for i in muts:
                # the caller saw the pointee of a `&mut` argument as "mutated by this call": now it is the callee's value
                if i < len(e.args):
                    pk = sym.param(t.key, i, t.param_name(i))
                    newv = sym.subst(cp.ptr_out[pk], m) if pk in cp.ptr_out else e.args[i]
                    mapping[mk("mutby", (i,), (e.result, e.args[i]))] = newv
            q2 = self._subst_path(p, mapping, extra, e)
            if q2 is None:
                continue
            out.append(q2)
        return out or [p]

    def _expand_pure_helpers(self, fn, paths):
        out = []
        for p in paths:
            work = [p]
            try:
                cands = self._split_candidates(fn, p)
            except Exception:
                cands = []
            for (e, oks) in cands:
                if len(work) * len(oks) > self.MAX_SPLIT:
                    break
                nxt = []
                for q in work:
                    # the call may have been rewritten by an earlier split: locate its event again by index
                    ev_q = next((x for x in q.events if x.idx == e.idx and x.target is e.target and not x.opened), None)
                    if ev_q is None or tag(ev_q.result) != "call":
                        nxt.append(q)
                        continue
                    nxt.extend(self.expand_on(q, ev_q))
                work = nxt or work
            out.extend(work)
        return out

    def call_target(self, v):
        """Fn of a workspace call value, else None"""
        if tag(v) != "call":
            return None
        return self.world.fn_named(payload(v)[0])

    def param_map(self, fn, args):
        m = {}
        for i, a in enumerate(args):
            if i < fn.arg_count:
                m[sym.param(fn.key, i, fn.param_name(i))] = a
        return m

    # ---------------------------------------------------------------- inlining
    def inline(self, v, depth=6):
        """replace single-outcome workspace calls by their substituted return value"""
        key = (v, depth)
        r = self._inline.get(key)
        if r is not None:
            return r
        t, p, k = sym.NODES[v]
        if not k:
            self._inline[key] = v
            return v
        nk = tuple(self.inline(x, depth) for x in k)
        if nk != k:
            v2 = self._rebuild(t, p, nk)
        else:
            v2 = self._field_through(v) if t == "field" else v
        if tag(v2) == "call" and depth > 0:
            fn = self.world.fn_named(payload(v2)[0])
            if fn is not None and is_integer_fn(fn.pretty):
                fn = None  # the signed integer type's methods are primitives of the formula language (norm.py)
            if fn is not None:
                m = self.param_map(fn, kids(v2))
                try:
                    oks = self.ok_paths_at(fn, m)
                except P.TooManyPaths:
                    oks = None
                if oks is not None and len(oks) == 1 and oks[0].exit == "return":
                    ret = sym.subst(oks[0].ret, m)
                    v2 = self.inline(ret, depth - 1)
        self._inline[key] = v2
        return v2

    def _rebuild(self, t, p, nk):
        if t == "field":
            r = sym.field(nk[0], p[0])
            return self._field_through(r)
        if t == "as":
            return sym.downcast(nk[0], p[0])
        if t == "unwrap":
            return sym.unwrap(nk[0])
        if t == "rec":
            r = nk[0]
            for n, x in zip(p, nk[1:]):
                r = sym.set_field(r, n, x)
            return r
        return mk(t, p, nk)

    def fold_cond(self, atom, outcome):
        """True/False when the (substituted) branch atom is syntactically decided, else None"""
        t = tag(atom)
        if t == "bool":
            val = bool(payload(atom)[0])
            return val == outcome if outcome in (True, False) else None
        if t == "int" and isinstance(outcome, tuple):
            n = payload(atom)[0]
            if outcome[0] == "eq":
                return n == outcome[1]
            if outcome[0] == "notin":
                return n not in outcome[1]
        if t == "op":
            name = payload(atom)[0]
            ks = kids(atom)
            if name in ("is_some", "is_ok") and tag(ks[0]) == "agg":
                val = payload(ks[0])[1] in ("Some", "Ok")
                return val == outcome
            if name == "discr" and tag(ks[0]) == "agg" and isinstance(outcome, tuple):
                v = payload(ks[0])[1]
                if outcome[0] == "variant":
                    return v == outcome[1]
                if outcome[0] == "other":
                    return v not in outcome[1]
            if name in ("eq", "ne") and len(ks) == 2:
                a, b = ks
                if a == b:
                    return (name == "eq") == outcome
                if tag(a) == tag(b) and tag(a) in ("int", "bool"):
                    return ((payload(a)[0] == payload(b)[0]) == (name == "eq")) == outcome
                if tag(a) == "agg" and tag(b) == "agg" and not kids(a) and not kids(b):
                    return ((payload(a)[1] == payload(b)[1]) == (name == "eq")) == outcome
            if name == "not":
                r = self.fold_cond(ks[0], not outcome) if outcome in (True, False) else None
                return r
            if name == "is_zero" and len(ks) == 1 and tag(ks[0]) == "int" and outcome in (True, False):
                return (int(payload(ks[0])[0]) == 0) == outcome
            if name in ("lt", "le", "gt", "ge") and len(ks) == 2 and tag(ks[0]) == "int" and tag(ks[1]) == "int" and outcome in (True, False):
                a, b = int(payload(ks[0])[0]), int(payload(ks[1])[0])
                val = {"lt": a < b, "le": a <= b, "gt": a > b, "ge": a >= b}[name]
                return val == outcome
        if t == "call" and outcome in (True, False):
            nm = payload(atom)[0]
            if is_integer_fn(nm) and nm.endswith(("::is_positive", "::is_negative")) and kids(atom):
                a = kids(atom)[0]
                if tag(a) == "call" and is_integer_fn(payload(a)[0]) and payload(a)[0].endswith(("::new_positive", "::zero")):
                    val = nm.endswith("::is_positive")
                    return val == outcome
        return None

    def feasible(self, p, mapping):
        """is path p of a callee syntactically possible under the call-site substitution?"""
        if not mapping:
            return True
        for (atom, outcome, _bb, _ln) in p.conds:
            a2 = sym.subst(atom, mapping)
            if a2 == atom:
                continue
            r = self.fold_cond(a2, outcome)
            if r is None and self._feas_depth < 3:
                # small pure helpers (sign tests on a literal Integer, ...) decide after inlining
                self._feas_depth += 1
                try:
                    a3 = self.inline(a2, 3)
                finally:
                    self._feas_depth -= 1
                if a3 != a2:
                    r = self.fold_cond(a3, outcome)
            if r is False:
                return False
        return True

    def ok_paths_at(self, fn, mapping):
        return [p for p in self.ok_paths(fn) if self.feasible(p, mapping)]

    def _field_through(self, f):
        """field(unwrap(call g(..)), name) where g has several success paths that all return the same
        value for that field: resolve to that value"""
        if tag(f) != "field":
            return f
        base = kids(f)[0]
        if tag(base) == "mutby":
            g = self._field_untouched(f)
            if g is not None:
                return g
        b = base
        while tag(b) in ("unwrap", "ok"):
            b = kids(b)[0]
        if tag(b) != "call":
            return f
        fn = self.world.fn_named(payload(b)[0])
        if fn is None or is_integer_fn(fn.pretty) or self._ft_depth > 3:
            return f
        self._ft_depth += 1
        try:
            m = self.param_map(fn, kids(b))
            try:
                oks = self.ok_paths_at(fn, m)
            except P.TooManyPaths:
                return f
            if len(oks) < 2:
                return f
            vals = set()
            for p in oks:
                if p.exit != "return":
                    return f
                r = sym.field(sym.unwrap(sym.subst(p.ret, m)), payload(f)[0])
                vals.add(self.inline(r, 3))
                if len(vals) > 1:
                    return f
            v = vals.pop()
            if tag(v) == "field" and kids(v) and kids(v)[0] == sym.unwrap(sym.subst(oks[0].ret, m)):
                return f
            return v
        finally:
            self._ft_depth -= 1

    def _field_untouched(self, f):
        """field(mutby#i(call g(..), old), name) where no success path of g writes that field of its i-th
        (`&mut`) argument's pointee: the field still has its old value (frame rule)"""
        base = kids(f)[0]
        res, old = kids(base)
        i = payload(base)[0]
        fn = self.call_target(res)
        if fn is None or i >= fn.arg_count or self._ft_depth > 3:
            return None
        name = payload(f)[0]
        self._ft_depth += 1
        try:
            try:
                oks = self.ok_paths(fn)
            except P.TooManyPaths:
                return None
            if not oks:
                return None
            pk = sym.param(fn.key, i, fn.param_name(i))
            for p in oks:
                if p.exit != "return":
                    return None
                if pk in p.ptr_out and sym.field(p.ptr_out[pk], name) != sym.field(pk, name):
                    # the pointee was (possibly) changed by a callee the pointer was handed on to: the same rule, one
                    # level down (the depth counter bounds the descent)
                    fv = self.inline(sym.field(p.ptr_out[pk], name), 3)
                    if fv != self.inline(sym.field(pk, name), 3):
                        return None
                # the pointer handed on to another call that may write through it
                for e in p.events:
                    if pk in e.raw or pk in e.args:
                        if e.target is None and e.name not in P.TRANSPARENT and not e.name.startswith(("std::vec::Vec::", "std::slice::", "core::slice::")):
                            return None
                        if e.target is not None and pk not in p.ptr_out:
                            return None   # (with a recorded final pointee the hand-on was accounted for above)
            return self.inline(sym.field(old, name), 3)
        finally:
            self._ft_depth -= 1

    def outcomes(self, v):
        """for a workspace call value: list of (path, substituted ret, mapping); None if not expandable"""
        fn = self.call_target(v)
        if fn is None:
            return None
        m = self.param_map(fn, kids(v))
        out = []
        for p in self.ok_paths_at(fn, m):
            out.append((p, sym.subst(p.ret, m), m))
        return out

    # ---------------------------------------------------------------- storage items
    def const_storage_key(self, cdef_pretty):
        c = self.world.consts_by_pretty.get(cdef_pretty)
        if not c:
            return None
        val = c.get("val") or ""
        m = re.search(r'(?:storage_key|namespace): b?"([^"]*)"', val)
        if m:
            return m.group(1)
        return None

    def static_bytes(self, key):
        c = self.world.consts.get(key)
        if c and c.get("val", "").startswith("bytes:"):
            return c["val"][6:]
        return None

    def storage_item(self, v, crate):
        """'<crate>:<storage key>' for a storage handle value, or None"""
        v = self.inline(v)
        t = tag(v)
        if t == "unwrap":
            return self.storage_item(kids(v)[0], crate)
        if t == "constdef":
            k = self.const_storage_key(payload(v)[0])
            if k is not None:
                return "%s:%s" % (payload(v)[0].split("::")[0], k)
            return None
        if t == "call":
            name = payload(v)[0]
            if name in HANDLE_MAKERS:
                keyv = kids(v)[1]
                for x in sym.walk(keyv):
                    if tag(x) == "static":
                        b = self.static_bytes(payload(x)[0])
                        if b is not None:
                            return "%s:%s" % (payload(x)[0].split("::")[0], b)
                    if tag(x) == "const" and payload(x)[1].startswith('b"'):
                        return "%s:%s" % (crate, payload(x)[1][2:-1])
                return None
        if t == "mutby":
            return self.storage_item(kids(v)[1], crate)
        return None

    def prim(self, e):
        """(kind, item) for a storage primitive event; kind in read/write/remove; else None"""
        if e.target is not None:
            return None
        n = e.name
        kind = WRITE_PRIMS.get(n) or READ_PRIMS.get(n)
        if kind:
            item = self.storage_item(e.args[0], e.fn.crate)
            if n in ("cw_controllers::Hooks::execute_add_hook", "cw_controllers::Hooks::execute_remove_hook"):
                pass
            return (kind, item or "?unknown-item")
        if n in OTHER_WRITES:
            return ("write", OTHER_WRITES[n])
        return None

    # ---------------------------------------------------------------- summaries
    def summary(self, fn, _stack=None):
        """transitive effects of fn over its non-error paths:
        may / must : sets of (kind, item) storage effects and ('call', pretty) of workspace callees,
        queries: set of (T, msg repr) — see rules; computed lazily elsewhere."""
        s = self._summary.get(fn.key)
        if s is not None:
            return s
        _stack = _stack or set()
        if fn.key in _stack:
            return {"may": set(), "must": set()}
        _stack = _stack | {fn.key}
        may = set()
        must = None
        try:
            oks = self.ok_paths(fn)
        except P.TooManyPaths:
            oks = []
            may.add(("undetermined", fn.pretty))
        for p in oks:
            here = set()
            for e in p.events:
                pr = self.prim(e)
                if pr:
                    here.add(pr)
                elif e.target is not None:
                    sub = self.summary(e.target, _stack)
                    sub_must, sub_may = sub["must"], sub["may"]
                    if any(it == "?unknown-item" for (_k, it) in sub_may):
                        # the callee reaches a storage primitive through a key parameter: resolve it at this call site
                        try:
                            res = [(w_["kind"], w_["item"], w_["must"]) for w_ in self.writes_of_event(e) if w_["item"] != "?unknown-item"]
                        except Exception:
                            res = []
                        if res:
                            sub_may = {x for x in sub_may if x[1] != "?unknown-item"} | {(k_, it_) for (k_, it_, _m) in res}
                            sub_must = {x for x in sub_must if x[1] != "?unknown-item"} | {(k_, it_) for (k_, it_, m_) in res if m_}
                    here |= sub_must
                    may |= sub_may
                    here.add(("call", e.target.pretty))
                else:
                    here.add(("lib", e.name))
            may |= here
            must = here if must is None else (must & here)
        s = {"may": may, "must": must or set()}
        self._summary[fn.key] = s
        return s

    def event_effects(self, e):
        """(may, must) storage-effect sets of one event"""
        pr = self.prim(e)
        if pr:
            return {pr}, {pr}
        if e.target is not None:
            s = self.summary(e.target)
            return s["may"], s["must"]
        return set(), set()

    # ---------------------------------------------------------------- storage writes with values
    def prim_write(self, e):
        """for a storage write/remove primitive: dict(kind, item, key, value) else None"""
        pr = self.prim(e)
        if not pr or pr[0] not in ("write", "remove"):
            return None
        n = e.name
        a = e.args
        key = None
        val = None
        if n.startswith("cosmwasm_storage::Singleton::"):
            val = a[1] if len(a) > 1 else None
        elif n.startswith("cosmwasm_storage::Bucket::"):
            key = a[1] if len(a) > 1 else None
            val = a[2] if len(a) > 2 else None
        elif n.startswith("cw_storage_plus::Item::"):
            val = a[2] if len(a) > 2 else None
        elif n.startswith("cw_storage_plus::Map::"):
            key = a[2] if len(a) > 2 else None
            val = a[3] if len(a) > 3 else None
        elif n == "cw_controllers::Admin::set":
            val = a[2] if len(a) > 2 else None
        return {"kind": pr[0], "item": pr[1], "key": key, "value": val, "event": e}

    def writes_of_event(self, e, mapping=None, depth=6, _stack=()):
        """storage writes performed by event e (recursively through workspace callees), values
        substituted into the caller's terms.  Each entry gets 'must': performed on every success
        path of every callee on the way."""
        mapping = mapping or {}
        pw = self.prim_write(e)
        if pw:
            out = dict(pw)
            for k in ("key", "value"):
                if out[k] is not None:
                    out[k] = sym.subst(out[k], mapping)
            if out["item"] == "?unknown-item" and mapping and e.args:
                # a generic storage helper: the key is a parameter, known once the call site is substituted
                it = self.storage_item(sym.subst(e.args[0], mapping), e.fn.crate)
                if it:
                    out["item"] = it
            out["must"] = True
            out["chain"] = _stack
            return [out]
        if e.target is None or depth <= 0 or e.target.key in _stack:
            return []
        s = self.summary(e.target)
        if not any(k in ("write", "remove") for (k, _it) in s["may"]):
            return []
        args2 = [sym.subst(a, mapping) for a in e.args]
        m2 = self.param_map(e.target, args2)
        try:
            oks = self.ok_paths_at(e.target, m2)
        except P.TooManyPaths:
            return [{"kind": "write", "item": "?undetermined", "key": None, "value": None, "event": e, "must": False, "chain": _stack}]
        per_path = []
        for p in oks:
            ws = []
            for e2 in p.events:
                ws.extend(self.writes_of_event(e2, m2, depth - 1, _stack + (e.target.key,)))
            per_path.append(ws)
        out = []
        for i, ws in enumerate(per_path):
            for wr in ws:
                sig = (wr["kind"], wr["item"], wr["key"], wr["value"])
                in_all = all(any((o["kind"], o["item"], o["key"], o["value"]) == sig and o["must"] for o in other)
                             for j, other in enumerate(per_path) if j != i)
                wr = dict(wr)
                wr["must"] = wr["must"] and in_all
                if not any((o["kind"], o["item"], o["key"], o["value"], o["must"]) == sig + (wr["must"],) for o in out):
                    out.append(wr)
        return out

    def must_write_item(self, e, item, mapping=None, depth=6, _stack=()):
        """event e stores `item` on every success path of every callee on the way (whatever the value)"""
        mapping = mapping or {}
        pw = self.prim_write(e)
        if pw:
            it = pw["item"]
            if it == "?unknown-item" and mapping and e.args:
                it = self.storage_item(sym.subst(e.args[0], mapping), e.fn.crate) or it
            return pw["kind"] == "write" and it == item
        if e.target is None or depth <= 0 or e.target.key in _stack:
            return False
        if ("write", item) not in self.summary(e.target)["may"]:
            return False
        args2 = [sym.subst(a, mapping) for a in e.args]
        m2 = self.param_map(e.target, args2)
        try:
            oks = self.ok_paths_at(e.target, m2)
        except P.TooManyPaths:
            return False
        return bool(oks) and all(any(self.must_write_item(e2, item, m2, depth - 1, _stack + (e.target.key,)) for e2 in p.events) for p in oks)

    def writes_on_path(self, p, mapping=None):
        out = []
        for e in p.events:
            if e.opened and e.target is not None:
                continue  # the callee's events were spliced into the path right after this call
            out.extend(self.writes_of_event(e, mapping))
        return out

    # ---------------------------------------------------------------- queries
    def parse_query(self, v):
        """for (the unwrapped result of) a QuerierWrapper::query call: dict(T, addr, msg) where msg is the
        query message aggregate/const; None if v is not a query"""
        v = self.inline(v)
        n = 0
        while tag(v) in ("unwrap", "ok") and n < 6:
            v = kids(v)[0]
            n += 1
        if tag(v) != "call" or payload(v)[0] != "cosmwasm_std::QuerierWrapper::query":
            return None
        extra = payload(v)[3:]
        T = extra[-1] if extra else "?"
        req = kids(v)[1] if len(kids(v)) > 1 else None
        out = {"T": T, "addr": None, "msg": None, "req": req, "call": v}
        if req is None:
            return out
        for x in sym.walk(req):
            if tag(x) == "agg" and payload(x)[0].endswith("WasmQuery") and payload(x)[1] == "Smart":
                out["addr"] = sym.field(x, "contract_addr")
                mb = sym.field(x, "msg")
                for y in sym.walk(mb):
                    if tag(y) == "call" and payload(y)[0] == "cosmwasm_std::to_binary":
                        out["msg"] = kids(y)[0]
                        out["U"] = payload(y)[3:][-1] if payload(y)[3:] else "?"
                        break
                break
            if tag(x) == "agg" and payload(x)[0].endswith("BankQuery"):
                out["bank"] = x
                break
        return out

    def msg_variant(self, m):
        """(adt, variant, {field: value}) of a message value (aggregate or promoted constant)"""
        if m is None:
            return None
        if tag(m) == "agg":
            return (payload(m)[0], payload(m)[1], dict(zip(payload(m)[2], kids(m))))
        if tag(m) == "const":
            ty, val = payload(m)
            mm = re.match(r"^&?(?:'static )?(.*)$", ty)
            adt = mm.group(1) if mm else ty
            vm = re.search(r"::([A-Za-z0-9_]+)\s*(?:\{|$)", val.replace("{{", "{"))
            if vm:
                return (adt, vm.group(1), {})
        return None

    # ---------------------------------------------------------------- dispatch
    def entry(self, contract, name):
        return self.world.find_fn("%s::contract::%s" % (contract, name))

    def arms(self, contract, entry_name):
        """dispatch table of execute/query: {variant: [paths of the entry fn taking that arm]}"""
        fn = self.entry(contract, entry_name)
        if fn is None:
            return None
        msg_param = None
        for i in range(fn.arg_count):
            ty = fn.locals[i + 1]["ty"]
            if ty.endswith("::ExecuteMsg") or ty.endswith("::QueryMsg"):
                msg_param = sym.param(fn.key, i, fn.param_name(i))
        table = {}
        for p in self.paths(fn):
            variant = None
            for (atom, outcome, _bb, _line) in p.conds:
                if tag(atom) == "op" and payload(atom)[0] == "discr" and kids(atom)[0] == msg_param and outcome[0] == "variant":
                    variant = outcome[1]
                    break
            if variant is None:
                variant = "<none>"
            table.setdefault(variant, []).append(p)
        return fn, msg_param, table

    def arm_handler(self, arm_paths):
        """the first workspace call on the arm's paths that is a handler (not a conversion)"""
        for p in arm_paths:
            for e in p.events:
                if e.target is not None:
                    return e
        return None
