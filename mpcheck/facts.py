"""Fact generation and loading.

Facts are produced by the mirfacts driver (see /verif/mirfacts) from /repo's
*current working tree*.  They are cached under /verif/.cache/facts/<hash> where
<hash> covers every *.rs / Cargo.toml / Cargo.lock under the repo (outside
target/) and the driver binary, so any edit produces a new compiler run.
"""
import fcntl
import hashlib
import json
import os
import shutil
import subprocess
import sys
import tempfile
import time

VERIF = os.path.dirname(os.path.dirname(os.path.abspath(__file__)))
REPO = os.environ.get("MPCHECK_REPO", "/repo")
DRIVER = os.path.join(VERIF, "mirfacts", "target", "debug", "mirfacts")
CACHE = os.path.join(VERIF, ".cache", "facts")

EXPECTED_CRATES = [
    "mpcheck_fixture",
    "margined_common",
    "margined_perp",
    "margined_engine",
    "margined_vamm",
    "margined_insurance_fund",
    "margined_fee_pool",
    "margined_pricefeed",
]


class AnalysisError(Exception):
    """the analysis itself could not run (exit status 2, never a VIOLATION)"""


def tree_hash(repo=REPO):
    h = hashlib.sha256()
    files = []
    for root, dirs, fs in os.walk(repo):
        dirs[:] = [d for d in dirs if d not in ("target", ".git")]
        for f in fs:
            if f.endswith(".rs") or f in ("Cargo.toml", "Cargo.lock", "rust-toolchain", "rust-toolchain.toml"):
                files.append(os.path.join(root, f))
    files.sort()
    for p in files:
        h.update(os.path.relpath(p, repo).encode())
        h.update(b"\0")
        with open(p, "rb") as fh:
            h.update(fh.read())
        h.update(b"\0")
    with open(DRIVER, "rb") as fh:
        h.update(hashlib.sha256(fh.read()).digest())
    return h.hexdigest()[:24]


def sysroot():
    return subprocess.check_output(["rustc", "+nightly", "--print", "sysroot"], text=True).strip()


def generate(repo, out_dir):
    """run the driver over the workspace of `repo`, facts into out_dir"""
    if not os.path.exists(DRIVER):
        raise AnalysisError("driver not built: run MANIFEST.setup_cmd (%s missing)" % DRIVER)
    tgt = tempfile.mkdtemp(prefix="mpcheck_tgt_")
    try:
        env = dict(os.environ)
        env["LD_LIBRARY_PATH"] = sysroot() + "/lib" + (":" + env["LD_LIBRARY_PATH"] if env.get("LD_LIBRARY_PATH") else "")
        env["RUSTFLAGS"] = "-Zmir-opt-level=0 -Awarnings"
        env["RUSTC_WORKSPACE_WRAPPER"] = DRIVER
        env["CARGO_TARGET_DIR"] = tgt
        env["MIRFACTS_OUT"] = out_dir
        env["CARGO_NET_OFFLINE"] = "true"
        env.pop("RUSTC_WRAPPER", None)
        p = subprocess.run(
            ["cargo", "+nightly", "check", "--offline", "--workspace", "--lib", "-q"],
            cwd=repo, env=env, stdout=subprocess.PIPE, stderr=subprocess.STDOUT, text=True,
        )
        if p.returncode != 0:
            raise AnalysisError("cargo check failed under the driver:\n" + p.stdout[-4000:])
        # positive-control fixture, compiled by the same driver (no cargo)
        fx = os.path.join(VERIF, "fixtures", "mpcheck_fixture.rs")
        env2 = dict(env)
        p2 = subprocess.run(
            [DRIVER, "rustc", "--crate-name", "mpcheck_fixture", "--crate-type", "lib", "--edition", "2021",
             "-Zmir-opt-level=0", "-Awarnings", "--emit=metadata", "--out-dir", tgt, fx],
            env=env2, stdout=subprocess.PIPE, stderr=subprocess.STDOUT, text=True)
        if p2.returncode != 0:
            raise AnalysisError("fixture crate failed under the driver:\n" + p2.stdout[-2000:])
    finally:
        shutil.rmtree(tgt, ignore_errors=True)
    missing = [c for c in EXPECTED_CRATES if not os.path.exists(os.path.join(out_dir, c + ".json"))]
    if missing:
        raise AnalysisError("driver produced no facts for crates: %s" % missing)


KEEP_ENTRIES = 16
MIN_AGE_S = 15 * 60


def _prune_cache(keep=()):
    """drop old cache entries; concurrent checks share this directory, so nothing younger than MIN_AGE_S is ever
    touched (a facts dir may be in use, a facts_* temp dir may be mid-generation) and every step tolerates races"""
    now = time.time()
    ents = []
    try:
        names = os.listdir(CACHE)
    except OSError:
        return
    for e in names:
        if e.startswith("."):
            continue
        pth = os.path.join(CACHE, e)
        try:
            if os.path.isdir(pth):
                ents.append((os.path.getmtime(pth), pth, e))
        except OSError:
            continue
    ents.sort(reverse=True)
    for i, (mt, pth, e) in enumerate(ents):
        if e in keep or now - mt < MIN_AGE_S:
            continue
        if i >= KEEP_ENTRIES or e.startswith("facts_"):
            shutil.rmtree(pth, ignore_errors=True)
            try:
                os.unlink(os.path.join(CACHE, ".lock-" + e))
            except OSError:
                pass


def ensure_facts(repo=REPO):
    """returns (facts_dir, hash, seconds spent generating (0 if cached))"""
    os.makedirs(CACHE, exist_ok=True)
    h = tree_hash(repo)
    d = os.path.join(CACHE, h)
    lock = open(os.path.join(CACHE, ".lock-" + h), "w")
    fcntl.flock(lock, fcntl.LOCK_EX)
    try:
        if os.path.exists(os.path.join(d, ".complete")):
            try:
                os.utime(d)          # in use: keeps it out of reach of a concurrent prune
            except OSError:
                pass
            return d, h, 0.0
        t0 = time.time()
        tmp = tempfile.mkdtemp(prefix="facts_", dir=CACHE)
        try:
            generate(repo, tmp)
            open(os.path.join(tmp, ".complete"), "w").write(h)
            if os.path.exists(os.path.join(d, ".complete")):
                shutil.rmtree(tmp, ignore_errors=True)      # somebody else completed it meanwhile: never replace a dir in use
            else:
                if os.path.exists(d):
                    shutil.rmtree(d, ignore_errors=True)    # incomplete leftover of a crashed run
                os.rename(tmp, d)
        except Exception:
            shutil.rmtree(tmp, ignore_errors=True)
            raise
        _prune_cache(keep={h})
        return d, h, time.time() - t0
    finally:
        fcntl.flock(lock, fcntl.LOCK_UN)
        lock.close()


class Fn:
    __slots__ = ("d", "key", "pretty", "name", "crate", "file", "line_lo", "line_hi", "blocks",
                 "locals", "arg_count", "kind", "impl_self", "impl_trait", "derived", "from_expansion",
                 "_succ", "_reach", "closure_args", "generic_of", "len_args")

    def __init__(self, d, crate):
        self.d = d
        self.key = d["key"]
        self.pretty = d["pretty"]
        self.name = d["name"]
        self.crate = crate
        self.file = d["file"]
        self.line_lo = d["line_lo"]
        self.line_hi = d["line_hi"]
        self.blocks = d["blocks"]
        self.locals = d["locals"]
        self.arg_count = d["arg_count"]
        self.kind = d["kind"]
        self.impl_self = d.get("impl_self")
        self.impl_trait = d.get("impl_trait")
        self.derived = d.get("derived", False)
        self.from_expansion = d.get("from_expansion", False)
        self._succ = None
        self._reach = None
        self.closure_args = {}   # {parameter index: closure def path} for a copy specialised on closure arguments
        self.generic_of = None
        self.len_args = {}       # {parameter index: (kind, n)} for a copy specialised on a list argument whose length is known

    def param_name(self, i):
        """i is 0-based argument index"""
        return self.locals[i + 1]["name"] or ("arg%d" % i)

    def where(self, line=None):
        return "%s:%s" % (self.file, line if line else self.line_lo)

    def succ(self, bi):
        """normal (non-unwind) successors"""
        if self._succ is None:
            self._succ = [None] * len(self.blocks)
        s = self._succ[bi]
        if s is None:
            t = self.blocks[bi]["term"]
            k = t["k"]
            if k == "goto":
                s = [t["target"]]
            elif k == "switch":
                s = [x[1] for x in t["targets"]] + [t["otherwise"]]
            elif k in ("drop", "assert"):
                s = [t["target"]]
            elif k == "call":
                s = [t["target"]] if t["target"] is not None else []
            else:
                s = []
            # dedupe, keep order
            seen = []
            for x in s:
                if x not in seen:
                    seen.append(x)
            s = seen
            self._succ[bi] = s
        return s

    def reachable(self):
        if self._reach is None:
            seen = {0}
            stack = [0]
            while stack:
                b = stack.pop()
                for s in self.succ(b):
                    if s not in seen:
                        seen.add(s)
                        stack.append(s)
            self._reach = seen
        return self._reach


class World:
    def __init__(self, facts_dir):
        self.dir = facts_dir
        self.crates = {}
        self.fns = {}       # key -> Fn
        self.by_pretty = {}  # pretty -> Fn
        self.adts = {}      # pretty -> adt dict
        self.consts = {}    # key -> const dict
        self.consts_by_pretty = {}
        self.impls = []
        self.unsafe = []
        self.spec = {}      # key -> closure-specialised copies of generic functions
        for f in sorted(os.listdir(facts_dir)):
            if not f.endswith(".json"):
                continue
            with open(os.path.join(facts_dir, f)) as fh:
                d = json.load(fh)
            c = d["crate"]
            self.crates[c] = d
            for fd in d["fns"]:
                fn = Fn(fd, c)
                self.fns[fn.key] = fn
                self.by_pretty[fn.pretty] = fn
            for a in d["adts"]:
                self.adts[a["pretty"]] = a
            for k in d["consts"]:
                self.consts[k["key"]] = k
                self.consts_by_pretty[k["pretty"]] = k
            for i in d["impls"]:
                i = dict(i)
                i["crate"] = c
                self.impls.append(i)
            for u in d["unsafe"]:
                self.unsafe.append((c, u))

    def specialise(self, fn, cmap, lmap=None):
        """copy of a workspace function bound to the closures passed for its closure-typed parameters and / or to the
        known lengths of the literal lists passed for its slice parameters (looked up by pretty name only; never part of
        crate_fns)"""
        lmap = lmap or {}
        if fn.closure_args or fn.len_args:
            return fn
        suffix = "<" + ",".join(["%d=%s" % (i, c) for i, c in sorted(cmap.items())] + ["%d=len%d" % (i, n) for i, (_k, n) in sorted(lmap.items())]) + ">"
        f = self.by_pretty.get(fn.pretty + suffix)
        if f is None:
            d = dict(fn.d)
            d["key"] = fn.key + suffix
            d["pretty"] = fn.pretty + suffix
            f = Fn(d, fn.crate)
            f.closure_args = dict(cmap)
            f.len_args = dict(lmap)
            f.generic_of = fn
            self.by_pretty[f.pretty] = f
            self.spec[f.key] = f
        return f

    def fn(self, pretty):
        f = self.by_pretty.get(pretty)
        if f is None:
            raise KeyError(pretty)
        return f

    def find_fn(self, pretty):
        return self.by_pretty.get(pretty)

    def fn_named(self, name):
        """a function by its pretty path or by its definition key (a closure value carries the key: inside an `impl`
        the two differ - `Type::method::{closure#0}` vs `{impl#0}::method::{closure#0}`)"""
        return self.by_pretty.get(name) or self.fns.get(name)

    def crate_fns(self, crate):
        return [f for f in self.fns.values() if f.crate == crate]


def load_world(repo=REPO):
    d, h, secs = ensure_facts(repo)
    w = World(d)
    w.tree_hash = h
    w.gen_seconds = secs
    return w


if __name__ == "__main__":
    t = time.time()
    w = load_world()
    print("facts", w.dir, "generated in %.1fs" % w.gen_seconds, "loaded in %.1fs" % (time.time() - t))
    print(len(w.fns), "functions;", len(w.adts), "adts")
