"""Rule infrastructure: instances, floors, known findings, evidence, exit codes."""
import importlib
import json
import os
import sys
import time
import traceback

from . import facts, inter, paths, sym

VERIF = facts.VERIF
# /verif/evidence describes /repo only; runs against a scratch tree (MPCHECK_REPO) write under .cache
EVIDENCE_DIR = os.path.join(VERIF, "evidence") if os.path.realpath(facts.REPO) == "/repo" else os.path.join(VERIF, ".cache", "evidence-scratch")
VIOL_DIR = os.path.join(EVIDENCE_DIR, "violations")
KNOWN = os.path.join(VERIF, "known_findings.json")

TRUSTED_BASE = [
    "rustc nightly front end + MIR construction (facts are read from optimized_mir at -Zmir-opt-level=0)",
    "CosmWasm platform semantics: an Err/abort from an entry point reverts that call's storage writes and queued messages; sub-message failure with ReplyOn::Always/Error is delivered to reply()",
    "bank module / cw20 token transfer semantics (conservation, authorisation)",
    "storage primitives of cosmwasm_storage / cw_storage_plus / cw_controllers (Singleton, Bucket, Item, Map, Admin, Hooks) and cw_utils::must_pay behave as documented (table in mpcheck/inter.py)",
    "value-flow models of library calls listed in mpcheck/paths.py (clone/to_string/into/as_ref transparent; unwrap/? propagate the Ok payload; Uint128 arithmetic as operators; Vec push/append)",
]


class Inst:
    __slots__ = ("rule", "key", "ok", "where", "detail", "nontrivial", "status")

    def __init__(self, rule, key, ok, where, detail, nontrivial=True):
        self.rule = rule
        self.key = key
        self.ok = ok
        self.where = where
        self.detail = detail
        self.nontrivial = nontrivial
        self.status = "discharged" if ok else "violated"

    def as_dict(self):
        return {"rule": self.rule, "key": self.key, "status": self.status, "where": self.where, "detail": self.detail}


class Ctx:
    def __init__(self, prop, world, tier):
        self.prop = prop
        self.world = world
        self.w = world
        self.ix = inter.Inter(world)
        # caller paths are split over the success paths of pure multi-path helpers (value helpers extracted by a
        # refactoring look like inline code again); C02 evaluates such helpers abstractly itself (sign tables)
        self.ix.expand_pure = prop not in ("C02",)
        self.tier = tier
        self.insts = []
        self.floors = {}
        self.rules_text = {}
        self.analysed = {"functions": set(), "paths": 0, "call_sites": 0}

    # -- registration ------------------------------------------------------
    def rule(self, rid, text, floor):
        self.rules_text[rid] = text
        self.floors[rid] = floor

    def inst(self, rule, key, ok, where="", detail="", nontrivial=True):
        full = "%s:%s" % (rule, key)
        for j in self.insts:
            if j.key == full:
                # same construct reported twice: keep one instance, failing wins
                if j.ok and not ok:
                    j.ok = False
                    j.status = "violated"
                    j.where = where
                    j.detail = detail
                return j
        i = Inst(rule, full, bool(ok), where, detail, nontrivial)
        self.insts.append(i)
        return i

    def lost(self, rule, anchor, detail=""):
        return self.inst(rule, "anchor-lost:%s" % anchor, False, "", "anchor not found: %s %s" % (anchor, detail))

    def undetermined(self, rule, site, detail=""):
        return self.inst(rule, "undetermined:%s" % site, False, "", "could not evaluate: %s" % detail)

    # -- helpers -------------------------------------------------------------
    def fn(self, pretty, rule=None):
        f = self.world.find_fn(pretty)
        if f is None and rule:
            self.lost(rule, pretty)
        if f is not None:
            self.analysed["functions"].add(f.pretty)
        return f

    def paths(self, fn):
        ps = self.ix.paths(fn)
        self.analysed["functions"].add(fn.pretty)
        return ps

    def note_paths(self, n):
        self.analysed["paths"] += n


def load_known():
    if not os.path.exists(KNOWN):
        return []
    with open(KNOWN) as fh:
        return json.load(fh)["findings"]


def _evaluate(prop, world, tier):
    """run the property's rules on a world; returns (ctx, mod)"""
    ctx = Ctx(prop, world, tier)
    mod = importlib.import_module("mpcheck.rules.%s" % prop.lower())
    try:
        mod.run(ctx)
    except Exception:
        ctx.inst("engine", "undetermined:exception", False, "", traceback.format_exc()[-1500:])
    by_rule = {}
    for i in ctx.insts:
        by_rule.setdefault(i.rule, []).append(i)
    for rid, floor in ctx.floors.items():
        n = len([i for i in by_rule.get(rid, []) if "anchor-lost" not in i.key])
        if n < floor:
            ctx.inst(rid, "floor", False, "", "rule %s enumerated %d instances, floor is %d" % (rid, n, floor))
    return ctx, mod


def _validate_one(args):
    """worker: apply one patch to a scratch copy of the repo, regenerate facts, evaluate the rules"""
    prop, patch, repo = args
    import shutil
    import subprocess
    import tempfile
    sys.setrecursionlimit(20000)
    tmp = tempfile.mkdtemp(prefix="mpcheck_selfval_")
    try:
        dst = os.path.join(tmp, "repo")
        shutil.copytree(repo, dst, ignore=shutil.ignore_patterns("target", ".git"))
        r = subprocess.run(["patch", "-p1", "-s", "-i", patch], cwd=dst, stdout=subprocess.PIPE, stderr=subprocess.STDOUT, text=True)
        if r.returncode != 0:
            return {"patch": os.path.relpath(patch, VERIF), "status": "does-not-apply"}
        try:
            d, h, secs = facts.ensure_facts(dst)
        except facts.AnalysisError as e:
            return {"patch": os.path.relpath(patch, VERIF), "status": "does-not-compile", "detail": str(e)[-300:]}
        world = facts.World(d)
        world.tree_hash = h
        world.gen_seconds = secs
        ctx, _mod = _evaluate(prop, world, "quick")
        known = {k["key"] for k in load_known() if k.get("property") == prop and k.get("status") == "open"}
        keys = sorted(i.key for i in ctx.insts if not i.ok and i.key not in known)
        return {"patch": os.path.relpath(patch, VERIF), "status": "caught" if keys else "ESCAPED", "violated": keys[:6]}
    finally:
        shutil.rmtree(tmp, ignore_errors=True)


def self_validation(prop):
    """thorough tier: every stored mutant / seeded change of this property must be reported"""
    import glob
    from concurrent.futures import ProcessPoolExecutor
    patches = sorted(glob.glob(os.path.join(VERIF, "mutants", prop, "*.patch")))
    patches += sorted(glob.glob(os.path.join(VERIF, "seeded", prop + "*", "patch.diff")))
    if not patches:
        return []
    jobs = [(prop, p, facts.REPO) for p in patches]
    with ProcessPoolExecutor(max_workers=4) as ex:
        return list(ex.map(_validate_one, jobs))


def run_property(prop, tier="quick", replay=None):
    t0 = time.time()
    seed = int(os.environ.get("VERIF_SEED", "0") or 0)
    if tier == "thorough":
        # deeper exploration: every loop body is seen zero, one and two times (quick: zero and one)
        from . import paths as _paths
        _paths.LOOP_BOUND = max(_paths.LOOP_BOUND, 3)
    try:
        world = facts.load_world()
    except facts.AnalysisError as e:
        print("ANALYSIS-ERROR property=%s %s" % (prop, e))
        return 2
    ctx, mod = _evaluate(prop, world, tier)
    by_rule = {}
    for i in ctx.insts:
        by_rule.setdefault(i.rule, []).append(i)
    selfval = None
    if tier == "thorough" and not replay:
        selfval = self_validation(prop)
    # known findings
    known = [k for k in load_known() if k.get("property") == prop and k.get("status") == "open"]
    known_keys = {k["key"]: k for k in known}
    violations = []
    known_hit = []
    for i in ctx.insts:
        if not i.ok:
            if i.key in known_keys:
                i.status = "known-finding"
                known_hit.append(i)
            else:
                violations.append(i)
    if replay:
        want = json.load(open(replay))["key"]
        hit = [i for i in ctx.insts if i.key == want]
        for i in hit:
            print("REPLAY %s status=%s\n  where: %s\n  %s" % (i.key, i.status, i.where, i.detail))
        if not hit:
            print("REPLAY %s: instance no longer enumerated on this tree" % want)
        return 1 if any(not i.ok for i in hit) else 0
    wall = time.time() - t0
    # ---- evidence ---------------------------------------------------------
    os.makedirs(EVIDENCE_DIR, exist_ok=True)
    discharged = [i for i in ctx.insts if i.ok]
    distinct = len({i.key for i in ctx.insts if i.nontrivial})
    samples = []
    per_rule_seen = {}
    for i in ctx.insts:
        c = per_rule_seen.get(i.rule, 0)
        if c < 3 or not i.ok:
            samples.append(i.as_dict())
            per_rule_seen[i.rule] = c + 1
    ev = {
        "property_id": prop,
        "tier": tier,
        "seed": seed,
        "level": "other",
        "coverage": {
            "explanation": "static analysis of /repo's current source through rustc MIR facts; every rule instance below is a structural obligation decided for all inputs/histories at once. " + getattr(mod, "EXPLANATION", ""),
            "rules": [{"id": r, "text": t, "instances": len(by_rule.get(r, [])), "floor": ctx.floors.get(r, 0)} for r, t in ctx.rules_text.items()],
            "obligations": len(ctx.insts),
            "discharged": len(discharged),
            "evaluations": len(ctx.insts),
            "distinct_nontrivial": distinct,
            "rule": "one obligation per enumerated rule instance (entry arm / call site / storage item / chain / case); distinct = distinct instance keys; non-trivial = the rule inspected at least one real construct of /repo",
            "exhaustive": True,
            "samples": samples[:60],
            "functions_analysed": len(ctx.analysed["functions"]),
            "paths_enumerated": sum(len(v) for v in ctx.ix.ev.cache.values() if isinstance(v, list)),
            "source_tree_hash": world.tree_hash,
            "facts_generation_s": round(world.gen_seconds, 1),
            "checker_cmd": "./check %s %s" % (prop, tier),
            "trusted_base": TRUSTED_BASE,
            "known_findings_hit": [i.key for i in known_hit],
            "not_decided": getattr(mod, "NOT_DECIDED", ""),
            "self_validation": selfval if selfval is not None else "thorough tier only",
        },
        "assumptions": TRUSTED_BASE,
        "wall_s": round(wall, 2),
        "violations": len(violations),
    }
    with open(os.path.join(EVIDENCE_DIR, "%s.json" % prop), "w") as fh:
        json.dump(ev, fh, indent=1)
    # ---- report -------------------------------------------------------------
    print("property %s tier=%s tree=%s: %d obligations, %d discharged, %d known findings, %d violations (%.1fs)" % (
        prop, tier, world.tree_hash, len(ctx.insts), len(discharged), len(known_hit), len(violations), wall))
    for r, t in ctx.rules_text.items():
        n = len(by_rule.get(r, []))
        bad = len([i for i in by_rule.get(r, []) if not i.ok])
        print("  %-7s %3d instances (floor %d)%s  %s" % (r, n, ctx.floors.get(r, 0), (" %d FAILING" % bad) if bad else "", t[:110]))
    if selfval is not None:
        caught = len([x for x in selfval if x["status"] == "caught"])
        print("  self-validation: %d/%d stored mutants and seeded changes of %s are reported on scratch copies" % (caught, len(selfval), prop))
        for x in selfval:
            if x["status"] != "caught":
                print("  SELF-VALIDATION %s: %s" % (x["status"], x["patch"]))
    for i in known_hit:
        print("KNOWN-FINDING: property=%s %s — %s" % (prop, i.key, known_keys[i.key].get("what_fails", "")))
    if violations:
        os.makedirs(VIOL_DIR, exist_ok=True)
        for n, i in enumerate(violations):
            path = os.path.join(VIOL_DIR, "%s_%d.json" % (prop, n))
            with open(path, "w") as fh:
                json.dump({"property": prop, "key": i.key, "rule": i.rule, "where": i.where, "detail": i.detail, "tree": world.tree_hash}, fh, indent=1)
            print("  violated %s\n    at %s\n    %s" % (i.key, i.where, i.detail.replace("\n", "\n    ")))
            print("VIOLATION property=%s replay=%s" % (prop, path))
        return 1
    return 0


def main(argv):
    if len(argv) < 2:
        print("usage: check <property id> [quick|thorough] [--replay path]")
        return 2
    prop = argv[1].upper()
    tier = os.environ.get("VERIF_TIER", "quick")
    replay = None
    rest = argv[2:]
    while rest:
        a = rest.pop(0)
        if a in ("quick", "thorough"):
            tier = a
        elif a == "--replay":
            replay = rest.pop(0)
    sys.setrecursionlimit(20000)
    return run_property(prop, tier, replay)
