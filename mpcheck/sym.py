"""Hash-consed expression trees (value numbering).

A value is a small int id; NODES[id] = (tag, payload, kids) where payload is a
tuple of str/int and kids a tuple of value ids.  Two values are equal iff their
ids are equal (syntactic equality after the local normalisations in mk()).
"""

NODES = []
_TABLE = {}


_UNWRAP_OR = ("std::option::Option::unwrap_or", "std::result::Result::unwrap_or")


def mk(tag, payload=(), kids=()):
    if tag == "call" and payload and payload[0] in _UNWRAP_OR and len(kids) == 2 and NODES[kids[0]][0] == "agg":
        # decided once the Option/Result operand is known (also after call-site substitution)
        var = NODES[kids[0]][1][1]
        if var in ("Some", "Ok") and NODES[kids[0]][2]:
            return NODES[kids[0]][2][0]
        if var in ("None", "Err"):
            return kids[1]
    if tag == "call" and payload and payload[0] == "list::nth_back" and len(kids) == 2 and NODES[kids[1]][0] == "int" and int(NODES[kids[1]][1][0]) == 0:
        # zero places before the last element is the last element (also after call-site substitution of the count)
        return mk("call", ("core::slice::<impl [T]>::last", "", 0), (kids[0],))
    if tag == "op" and payload and payload[0] in ("is_some", "is_none") and len(kids) == 1 and NODES[kids[0]][0] == "call" and NODES[kids[0]][1][0] == "list::index_of":
        # an index exists exactly when the element is in the list
        c_ = mk("call", ("core::slice::<impl [T]>::contains", "", 0), NODES[kids[0]][2])
        return c_ if payload[0] == "is_some" else mk("op", ("not",), (c_,))
    if tag == "call" and payload and str(payload[0]) in ("std::option::Option::is_some", "std::option::Option::is_none") and len(kids) == 1 \
            and NODES[kids[0]][0] == "call" and NODES[kids[0]][1][0] == "list::index_of":
        return mk("op", ("is_some" if str(payload[0]).endswith("is_some") else "is_none",), kids)
    key = (tag, payload, kids)
    i = _TABLE.get(key)
    if i is None:
        i = len(NODES)
        NODES.append(key)
        _TABLE[key] = i
    return i


def tag(v):
    return NODES[v][0]


def payload(v):
    return NODES[v][1]


def kids(v):
    return NODES[v][2]


# ---- constructors -------------------------------------------------------
def const(ty, val):
    return mk("const", (ty, val))


def intc(n, ty="int"):
    return mk("int", (str(n), ty))


def boolc(b):
    return mk("bool", (1 if b else 0,))


def param(fnkey, idx, name):
    return mk("param", (fnkey, idx, name))


def unknown(why):
    return mk("unknown", (why,))


BOTTOM = mk("bottom")


def field(base, name):
    t = tag(base)
    if t == "agg":
        names = payload(base)[2]
        if name in names:
            return kids(base)[names.index(name)]
        return mk("field", (name,), (base,))
    if t in ("tuple", "closure"):
        try:
            return kids(base)[int(name)]
        except (ValueError, IndexError):
            return mk("field", (name,), (base,))
    if t in ("array", "vec") and name.startswith("[") and name[1:-1].isdigit():
        # constant index into a list whose elements are all known
        i = int(name[1:-1])
        if i < len(kids(base)):
            return kids(base)[i]
        return mk("field", (name,), (base,))
    if t == "rec":
        names = payload(base)
        if name in names:
            return kids(base)[1 + names.index(name)]
        return field(kids(base)[0], name)
    if t == "as":
        variant = payload(base)[0]
        inner = kids(base)[0]
        if name == "0":
            if variant in ("Ok", "Some", "Continue"):
                return unwrap(inner)
            if variant in ("Err", "Break"):
                return mk("unwrap_err", (), (inner,))
    return mk("field", (name,), (base,))


def downcast(base, variant):
    t = tag(base)
    if t == "agg":
        if payload(base)[1] == variant:
            return base
        return BOTTOM
    if t == "try":
        # ControlFlow produced by Try::branch(x)
        x = kids(base)[0]
        return mk("as", (variant,), (x,))
    return mk("as", (variant,), (base,))


def unwrap(v):
    """payload of a successful Result / Some"""
    t = tag(v)
    if t == "agg" and payload(v)[1] in ("Ok", "Some") and len(kids(v)) == 1:
        return kids(v)[0]
    if t == "try":
        return unwrap(kids(v)[0])
    if t == "ok":
        return kids(v)[0]
    return mk("unwrap", (), (v,))


def ok(v):
    return mk("ok", (), (v,))


def agg(adt, variant, names, vals):
    return mk("agg", (adt, variant, tuple(names)), tuple(vals))


def tup(vals):
    return mk("tuple", (), tuple(vals))


def rec(base, names, vals):
    return mk("rec", tuple(names), (base,) + tuple(vals))


def set_field(base, name, new):
    t = tag(base)
    if t == "agg":
        names = payload(base)[2]
        if name in names:
            ks = list(kids(base))
            ks[names.index(name)] = new
            return mk("agg", payload(base), tuple(ks))
    if t == "tuple":
        try:
            ks = list(kids(base))
            ks[int(name)] = new
            return mk("tuple", (), tuple(ks))
        except (ValueError, IndexError):
            pass
    if t == "rec":
        names = list(payload(base))
        ks = list(kids(base))
        if name in names:
            ks[1 + names.index(name)] = new
        else:
            names.append(name)
            ks.append(new)
        return mk("rec", tuple(names), tuple(ks))
    return mk("rec", (name,), (base, new))


def call(name, args, site, occ=0, extra=()):
    return mk("call", (name, site, occ) + tuple(extra), tuple(args))


def op(name, *args):
    return mk("op", (name,), tuple(args))


def ref(rootkey, path, mut):
    return mk("ref", (rootkey, tuple(path), 1 if mut else 0))


def ite(c, a, b):
    if a == b:
        return a
    return mk("ite", (), (c, a, b))


# ---- printing -----------------------------------------------------------
def show(v, depth=12):
    if depth <= 0:
        return "…"
    t, p, k = NODES[v]
    d = depth - 1
    if t == "const":
        return "%s" % (p[1],)
    if t == "int":
        return p[0]
    if t == "bool":
        return "true" if p[0] else "false"
    if t == "param":
        return "%s" % p[2]
    if t == "field":
        return "%s.%s" % (show(k[0], d), p[0])
    if t == "as":
        return "(%s as %s)" % (show(k[0], d), p[0])
    if t == "unwrap":
        return "%s!" % show(k[0], d)
    if t == "ok":
        return "Ok(%s)" % show(k[0], d)
    if t == "unwrap_err":
        return "err(%s)" % show(k[0], d)
    if t == "agg":
        adt = p[0].split("::")[-1]
        inner = ", ".join("%s: %s" % (n, show(x, d)) for n, x in zip(p[2], k))
        if p[1] != adt:
            return "%s::%s{%s}" % (adt, p[1], inner)
        return "%s{%s}" % (adt, inner)
    if t == "tuple":
        return "(" + ", ".join(show(x, d) for x in k) + ")"
    if t == "rec":
        return "%s{%s}" % (show(k[0], d), ", ".join("%s:=%s" % (n, show(x, d)) for n, x in zip(p, k[1:])))
    if t == "call":
        nm = p[0].split("::")[-1] if not p[0].startswith("<") else p[0]
        return "%s(%s)" % (short(p[0]), ", ".join(show(x, d) for x in k))
    if t == "op":
        return "%s(%s)" % (p[0], ", ".join(show(x, d) for x in k))
    if t == "ref":
        return "&%s%s" % (p[0], "".join("." + str(e[1]) for e in p[1]))
    if t == "try":
        return "try(%s)" % show(k[0], d)
    if t == "ite":
        return "ite(%s, %s, %s)" % (show(k[0], d), show(k[1], d), show(k[2], d))
    if t == "unknown":
        return "?%s" % p[0]
    if t == "bottom":
        return "⊥"
    if t == "mutby":
        return "mutby(%s,#%d)" % (show(k[0], d), p[0])
    return "%s%s(%s)" % (t, list(p) if p else "", ", ".join(show(x, d) for x in k))


def short(path):
    """last two path segments of a def path"""
    if path.startswith("<"):
        return path
    parts = path.split("::")
    return "::".join(parts[-2:]) if len(parts) > 1 else path


def walk(v, seen=None):
    """all sub-values of v (including v), each once"""
    if seen is None:
        seen = set()
    stack = [v]
    while stack:
        x = stack.pop()
        if x in seen:
            continue
        seen.add(x)
        yield x
        stack.extend(NODES[x][2])


def subst(v, mapping, memo=None):
    """replace sub-values according to mapping {old id: new id}; rebuilds with the
    normalising constructors so that field-of-aggregate etc. fold"""
    if memo is None:
        memo = {}
    if v in mapping:
        return mapping[v]
    r = memo.get(v)
    if r is not None:
        return r
    t, p, k = NODES[v]
    if not k:
        memo[v] = v
        return v
    nk = tuple(subst(x, mapping, memo) for x in k)
    if nk == k:
        r = v
    elif t == "field":
        r = field(nk[0], p[0])
    elif t == "as":
        r = downcast(nk[0], p[0])
    elif t == "unwrap":
        r = unwrap(nk[0])
    elif t == "rec":
        r = nk[0]
        for n, x in zip(p, nk[1:]):
            r = set_field(r, n, x)
    else:
        r = mk(t, p, nk)
    memo[v] = r
    return r
