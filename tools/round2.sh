#!/bin/bash
# round2.sh <prop>...  : confirm /tmp/m2_<prop>/OUT/{a,b} as <prop>c/<prop>d and run the property's check against them
for id in "$@"; do
  /verif/tools/confirm_seed.sh /tmp/m2_$id OUT/a ${id}c
  /verif/tools/confirm_seed.sh /tmp/m2_$id OUT/b ${id}d
  for s in c d; do
    [ -f /verif/seeded/${id}$s/patch.diff ] && /verif/tools/trymut.sh $id /verif/seeded/${id}$s/patch.diff
  done
done
