#!/bin/bash
# confirm_seed.sh <worktree> <out-subdir (e.g. OUT/a)> <seed-id>
# Re-verifies a sub-agent's seeded change in its scratch worktree:
#   1. patch.diff applies to a clean tree; full suite: 410 passed / 0 failed
#   2. with demo.diff added: the demonstration test FAILS
#   3. with patch reverted (demo kept): the demonstration test PASSES
# On success copies patch.diff, demo.diff, meta.json (+ confirmation record) to /verif/seeded/<seed-id>/
set -u
WT=$1; SUB=$2; ID=$3
D=$WT/$SUB
export CARGO_TARGET_DIR=$WT/target CARGO_NET_OFFLINE=true
cd $WT || exit 2
git checkout -q -- . && git clean -qfd -e OUT -e target
[ -f $D/patch.diff ] && [ -f $D/demo.diff ] && [ -f $D/meta.json ] || { echo "$ID: missing deliverables"; exit 2; }
FILTER=$(python3 -c "
import json,re
f=json.load(open('$D/meta.json'))['demo_test']
f=re.sub(r'^\s*cargo\s+test\s+','',f).replace('--offline','').strip()
print(f)")
count() { grep -E '^test result' | awk '{p+=$4; f+=$6} END{print p" "f}'; }
git apply $D/patch.diff || { echo "$ID: patch does not apply"; exit 2; }
R1=$(cargo test --workspace --no-fail-fast --offline 2>&1 | count)
git apply $D/demo.diff || { echo "$ID: demo does not apply"; git checkout -q -- .; git clean -qfd -e OUT -e target; exit 2; }
R2=$(cargo test --offline $FILTER 2>&1 | count)
git apply -R $D/patch.diff || { echo "$ID: cannot revert patch"; exit 2; }
R3=$(cargo test --offline $FILTER 2>&1 | count)
git checkout -q -- . && git clean -qfd -e OUT -e target
echo "$ID: suite_with_patch=[$R1] demo_with_patch=[$R2] demo_without_patch=[$R3]"
set -- $R1; P1=$1; F1=$2
set -- $R2; P2=$1; F2=$2
set -- $R3; P3=$1; F3=$2
if [ "$P1" = "410" ] && [ "$F1" = "0" ] && [ "${F2:-0}" -ge 1 ] && [ "${F3:-1}" = "0" ] && [ "${P3:-0}" -ge 1 ]; then
  mkdir -p /verif/seeded/$ID
  cp $D/patch.diff $D/demo.diff /verif/seeded/$ID/
  python3 - <<EOF
import json
m=json.load(open('$D/meta.json'))
m['confirmed']={'by':'tools/confirm_seed.sh in scratch worktree $WT','suite_with_patch':'$P1 passed / $F1 failed','demo_with_patch':'$P2 passed / $F2 failed','demo_without_patch':'$P3 passed / $F3 failed','base_commit':'$(git -C $WT rev-parse --short HEAD)'}
json.dump(m,open('/verif/seeded/$ID/meta.json','w'),indent=1)
EOF
  echo "$ID: CONFIRMED"
else
  echo "$ID: NOT CONFIRMED"
  exit 1
fi
