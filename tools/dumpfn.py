#!/usr/bin/env python3
"""debug helper: print the MIR of one function from the cached facts"""
import sys
sys.path.insert(0,'/verif')
from mpcheck import facts
w=facts.load_world()
def P(p):
    s='_%d'%p['l']
    for e in p['p']:
        if e=='*': s='(*%s)'%s
        elif isinstance(e,dict) and 'f' in e: s+='.'+e['f']
        elif isinstance(e,dict) and 'as' in e: s='(%s as %s)'%(s,e['as'])
        else: s+=str(e)
    return s
def O(o):
    if 'copy' in o: return P(o['copy'])
    if 'move' in o: return 'move '+P(o['move'])
    c=o['const']
    if 'fn' in c: return 'fn:'+c['fn']['pretty']
    return 'const(%s)'%(c.get('static') or c.get('def_pretty') or c['val'])
def R(r):
    if 'use' in r: return O(r['use'])
    if 'ref' in r: return ('&mut ' if r['mut'] else '&')+P(r['ref'])
    if 'agg' in r:
        if r['agg']=='adt': return '%s::%s{%s}'%(r['adt'],r['variant'],', '.join('%s: %s'%(a,O(b)) for a,b in zip(r['fields'],r['ops'])))
        return r['agg']+'('+', '.join(O(x) for x in r['ops'])+')'
    if 'discr' in r: return 'discr(%s)'%P(r['discr'])
    if 'binop' in r: return '%s(%s,%s)'%(r['binop'],O(r['a']),O(r['b']))
    if 'unop' in r: return '%s(%s)'%(r['unop'],O(r['a']))
    if 'cast' in r: return 'cast[%s](%s as %s)'%(r['kind'],O(r['cast']),r['to'])
    if 'rawptr' in r: return '&raw '+P(r['rawptr'])
    return str(r)
for name in sys.argv[1:]:
    fn=[f for f in w.fns.values() if f.pretty.endswith(name)]
    for fn in fn:
        print('=====',fn.pretty, fn.file, fn.line_lo)
        for i,l in enumerate(fn.locals): 
            if l['name']: print('  _%d: %s = %s'%(i,l['ty'],l['name']))
        reach=fn.reachable()
        for i,b in enumerate(fn.blocks):
            if i not in reach: continue
            print('bb%d:'%i)
            for s in b['stmts']:
                if s['k']=='assign': print('   ',P(s['lhs']),'=',R(s['rv']),' @',s['line'])
                else: print('   ',s)
            t=b['term']
            if t['k']=='call':
                c=t['callee']
                print('    CALL',P(t['dest']),'=',(c['pretty'] if c else O(t['func'])),(c.get('args') if c else ''),'(',', '.join(O(a) for a in t['args']),') ->',t['target'], ' @',t['line'])
            elif t['k']=='switch': print('    SWITCH',O(t['discr']),t['targets'],t['otherwise'])
            else: print('   ',{k:v for k,v in t.items() if k not in('line','exp','unwind')})
