#!/bin/bash
# mkrevert.sh <prop> <name> <commit>  : writes /verif/mutants/<prop>/<name>.patch = the reversal of a /repo fix commit,
# as a -p1 patch against /repo's HEAD (nothing in /repo is modified)
set -e
prop=$1; name=$2; c=$3
tmp=$(mktemp -d)
git -C /repo show $c -- contracts packages | sed -n '/^diff --git/,$p' > $tmp/fwd.diff
mkdir -p $tmp/a $tmp/b
rsync -a --exclude target /repo/contracts /repo/packages $tmp/a/
rsync -a --exclude target /repo/contracts /repo/packages $tmp/b/
(cd $tmp/b && patch -R -p1 -s -i $tmp/fwd.diff)
mkdir -p /verif/mutants/$prop
(cd $tmp && diff -ru a b | grep -v "^diff -ru" | sed -E 's/\t.*$//' | sed -E 's|^--- a/|--- a/|; s|^\+\+\+ b/|+++ b/|' > /verif/mutants/$prop/$name.patch) || true
rm -rf $tmp
echo "wrote /verif/mutants/$prop/$name.patch ($(wc -l < /verif/mutants/$prop/$name.patch) lines)"
