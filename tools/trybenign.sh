#!/bin/bash
# trybenign.sh [patch...]  apply each behaviour-preserving refactor to a scratch copy and run ALL checks: every one must stay silent
pats="$@"; [ -z "$pats" ] && pats=$(ls /verif/benign/*.patch)
for p in $pats; do p=$(readlink -f "$p")
  tmp=$(mktemp -d /tmp/benign_XXXXXX)
  rsync -a --exclude target --exclude .git /repo/ $tmp/repo/
  if (cd $tmp/repo && patch -p1 -s -i "$p" >/dev/null 2>&1); then
    bad=""
    for c in ${CHECKS:-C01 C02 C03 C04 C05 C06 C07 C08 C09 C10 C11 C12 C13 C14 C15 C16 C17 C18 C19 C20}; do
      out=$(cd /verif && MPCHECK_REPO=$tmp/repo ./check $c 2>&1); rc=$?
      [ $rc -ne 0 ] && bad="$bad $c[$(echo "$out" | grep -E '^  violated' | sed 's/^  violated //' | tr '\n' ' ' | cut -c1-160)]"
    done
    echo "== $(basename $p): ${bad:-all ${CHECKS:+listed }checks silent}"
  else
    echo "== $p does not apply"
  fi
  rm -rf $tmp
done
