#!/usr/bin/env python3
"""Regenerates /verif/MANIFEST.json from the table below (one entry per claimed property)."""
import json
import os

VERIF = os.path.dirname(os.path.dirname(os.path.abspath(__file__)))

LEVEL = ("Static analysis over rustc MIR facts of /repo's current tree: every listed rule instance (entry arm, call site, "
         "storage item, chain, case) is a structural obligation decided for all inputs and histories at once; no contract code is "
         "executed, no solver is used. Decided are the named structural clauses, which are necessary conditions of the behaviour; "
         "the behaviour itself (numeric outcomes, liveness) is not vouched for beyond them.")

CLAIMED = {
    "C08": dict(
        technique="MIR path-sensitive control/value-flow: reply() failure-branch exits, sub-message id/reply_on census, Result-use discipline, tmp-record typestate over the execute->reply chain graph",
        note="Decided: R08.1 for every reply id the engine constructs (and any other id) the applicable failure branch of reply() cannot return Ok; R08.2 every constructed (id, reply_on) has its reply arms, other contracts use ReplyOn::Never and have no reply(); R08.3 no dropped/defaulted Result in engine code; R08.4 tmp-swap/sent-funds/tmp-liquidator stored-minus-removed is empty at the end of every chain. Not decided: that an Err/abort reverts other contracts' storage (platform semantics, trusted).",
        design="4/C08"),
    "C09": dict(
        technique="MIR path-sensitive guard analysis: role fact about info.sender on every success path of each privileged execute arm (DNF over callee success paths), variant classification, role-slot writer census",
        note="Decided: R09.1 every success path of the 23 privileged arms establishes the tabled role (Admin item check / Config field equality / tabled disjunction) about info.sender; R09.2 all 29 ExecuteMsg variants classified, unclassified fails closed; R09.3 Admin items and Config are written only by instantiate and the role-transfer arm; R09.4 instantiate never places the deployer (info.sender) in a role field of Config other than the owner's, so a former owner holds no role after UpdateOwner (added after seed C09g); R09.5 the pause flag is written only by SetPause: every other store of State keeps the loaded flag (seed C09h). Not decided: cw-controllers internals (trusted).",
        design="4/C09"),
    "C16": dict(
        technique="MIR path-sensitive guard analysis and stored-value flow: restriction guard shape on Open/Close, marker/stamp writes in the liquidation and trade replies, marker preservation by every vAMM-map writer",
        note="Decided: R16.1 guard on every success path of OpenPosition/ClosePosition for (msg.vamm, info.sender), marker consulted nowhere else; R16.2 rejection is the conjunction of marker==height and stamp==height; R16.3 both liquidation replies set the marker of tmp_swap.vamm to env.block.height; R16.4 every position store in a reply stamps env.block.height; R16.5 other vAMM-map writers preserve the marker; R16.6 a reply that ends a position keeps the pair's block stamp (known findings F16 x2: close and full-liquidation replies remove the record together with the stamp, so the closing / liquidated trader can act again in the liquidation block). Not decided: nothing numeric.",
        design="4/C16"),
    "C14": dict(
        technique="MIR path-sensitive guard analysis across contracts: pause / open / registered guards as facts on every success path of the tabled arms, cross-contract query parsing, registry guards, shutdown filter",
        note="Decided: R14.1 State.pause tested on every success path of Open/Close/Deposit/Withdraw and never consulted by the Liquidate/PayFunding chains; R14.2 vAMM State.open tested in SwapInput/SwapOutput/SettleFunding; R14.3 IsVamm{msg.vamm} on config.insurance_fund and State.open of msg.vamm in Open/Liquidate/Withdraw/PayFunding; R14.4 duplicate and capacity(=3) guards before every registry store, membership queries read the same item; R14.5 shutdown emits SetOpen{false} only for vAMMs just read as open, a closed vAMM does not end the iteration, and the registry is read whole (limit = the capacity constant); R14.4 also the membership answer is registry.contains(msg.vamm), false without a registry; R14.6 role tests are real disjunctions: SetOpen succeeds for the insurance fund alone, ShutdownVamms for the owner alone. Not decided: the run-time effect of a closed vAMM on ClosePosition is the composition of R14.2 with C08 (not re-derived).",
        design="4/C14"),
    "C10": dict(
        technique="MIR stored-value flow: origin of the (vamm, trader) pair in every position store/remove key and in every tmp-swap store, per execute->reply chain step; field-assignment census; query entry signatures; unsafe census with fixture",
        note="Decided: R10.1 position writes key on (msg.vamm, info.sender) in execute arms / (tmp_swap.vamm, tmp_swap.trader) in replies / msg.trader for Liquidate; R10.2 tmp-swap.trader origin (the named address itself through addr_validate/Addr::unchecked only, not a value computed from it); R10.3 Position.vamm/trader assigned only from the requested key; R10.4 queries take read-only Deps, no unsafe (positive-control fixture); R10.5 DepositMargin proves position.trader == info.sender; R10.6 the position key hash frames its variable-length inputs (length prefix / separator) at every write, remove and read, so distinct (vamm, trader) pairs cannot alias (found F15, fixed). Not decided: re-entrancy via a malicious vAMM.",
        design="4/C10"),
    "C03": dict(
        technique="MIR message census over all product code (+fixture) and receiver/payer origin analysis of every transfer constructible on each chain step",
        note="Decided: R03.1 only BankMsg::Send, cw20 Transfer/TransferFrom, WasmMsg::Execute with empty funds, vAMM swap/funding/SetOpen and insurance Withdraw messages are constructed anywhere; R03.2 engine transfers go to config.insurance_fund/config.fee_pool/engine/acting trader/stored liquidator and are paid by the acting trader or the vault; R03.3 liquidation replies never pay or charge the liquidated trader; R03.4 insurance Withdraw pays config.engine; R03.5 the liquidator a liquidation reply pays is this transaction's sender: Liquidate stores info.sender in the in-flight slot unconditionally on every success path (added after seed C03g: a conditional store let an address left by an earlier liquidation collect the fee). Not decided: amounts and conservation inside bank/cw20 (trusted); fee-pool SendToken recipient is arbitrary by design.",
        design="4/C03"),
    "C17": dict(
        technique="MIR sibling agreement between query and execute arms (same pricing callee, same operand origins), reserve-writer argument flow, limit-comparison table on success/reject paths, cross-contract limit forwarding",
        note="Decided: R17.1 InputAmount/OutputAmount and SwapInput/SwapOutput call the same pricing function on (msg.direction, msg amount, State reserves) and use the result unchanged; R17.2 reserve writer gets requested amount unchanged, priced amount on the other side, direction unchanged/flipped; R17.3 limit table (receive: >= limit, owe: <= limit, zero: untested, rejection only on strict violation; a zero-amount swap cannot satisfy a non-zero receive-side limit - found F20, fixed); R17.5 engine forwards the caller's limit unchanged on increase, reduce, whole close, full liquidation, and the limit-dropping reversal branch is only reachable with position.size != 0 established (found F13, fixed); R17.6 the reduce-vs-reverse decision that selects the limit-carrying swap compares the position's spot notional with the order (shared with R02.4; seed C17j); R17.7 every success path of SwapInput/SwapOutput stores the vAMM State unconditionally (seed C17k). Not decided: the pricing arithmetic (C01).",
        design="4/C17"),
    "C20": dict(
        technique="MIR stored-value flow + guard facts: each stored Config field that can differ from the loaded one is matched with a validation fact about that same operand; cap comparisons matched with the value actually written",
        note="Decided: R20.1 every ratio field stored by instantiate/UpdateConfig (engine 4, vAMM 3) was established <= decimals on that path; R20.2 stored maintenance <= stored initial on every path changing either (sequential validation included); R20.3 stored TWAP interval passed (60..=604800), instantiate constant inside; R20.4 AddVamm stores only after engine.decimals == msg.vamm.decimals; R20.5 the open-interest writer compares the value it writes with +cap (or cap==0 / not an increase / whitelisted), the increase reply runs it with a positive amount and checks the holding cap on the stored size. Not decided: open-interest arithmetic; effect of lowering a cap below current usage.",
        design="4/C20"),
    "C15": dict(
        technique="MIR cross-contract constant propagation of the fluctuation flag, guard facts of the vAMM band check before every reserve write, decision-tree and query-argument analysis of ClosePosition, reference-snapshot selection and Env plumbing",
        note="Decided: R15.1 every SwapInput on the OpenPosition chains (incl. the chained increase after a reversal) carries can_go_over_fluctuation=false; R15.2 reserve writes are preceded by the strict, unconditional already-outside test and by the would-leave test unless the flag is set; R15.3 ClosePosition's fluctuation query uses the position's closing direction and whole size; R15.4 partial close iff over-limit and ratio<1, amount = size*ratio/decimals; R15.5 previous snapshot iff latest is from this block and not the first, callers pass Env unchanged; R15.6 the band is p*(D-r)/D .. p*(D+r)/D around the reference snapshot's quote*D/base with r = config.fluctuation_limit_ratio, and what is compared with it is the current price q*D/b and the post-trade price (q+/-x)*D/(b-/+y) of the stored reserves per direction. Not decided: rounding of the band arithmetic (floor-truncated prices).",
        design="4/C15"),
    "C11": dict(
        technique="MIR expression-tree normalisation and pattern matching (formula identity) for the funding formulas, guard facts for the schedule, stored-value flow for the charge/checkpoint pairing",
        note="Decided: R11.1 SettleFunding success paths establish now >= next_funding_time; R11.2 premium fraction tree (twap_vamm - twap_oracle)*period/86400 behind the emitted attribute and the funding rate, next funding time max(aligned, now+buffer), buffer = period/2 only at instantiate; R11.3 one append per reply path, cumulative = last + new, payment = tps*fraction/decimals, sign table (negative -> insurance Withdraw(|p|), positive -> transfer to insurance fund, zero -> nothing); R11.4 margin and checkpoint come from the same remain-margin result at every position store or are both untouched/reset; R11.5 every reply that ends a position (close, liquidation, reversal) settles the outstanding funding payment into the margin it pays out or carries over (found F11, fixed); R11.6 every token-moving message of the funding reply has a provably non-zero amount (found F18, fixed); R11.7 where a remain-margin result's clamped margin is stored with the advanced checkpoint its bad_debt is consumed on the path (known findings F17 x2: update_position_reply drops it); R11.8 the remain-margin function's own trees (funding formula, latest fraction = the LAST element of the stored list queried on every path, clamped margin / bad debt); R11.9 the funding transfer capped at the vault balance sends min(balance, amount): the balance only under balance <= amount, the amount only under amount <= balance. Not decided: TWAP values (C18), numeric exactness beyond formula identity.",
        design="4/C11"),
    "C04": dict(
        technique="MIR guard facts, expression-tree pattern matching of the payout and margin-delta formulas, sibling agreement close/liquidation, &mut State effect tracking for the prepaid-bad-debt accounting",
        note="Decided: R04.1 close/partial-close replies succeed only with bad_debt==0 of their remain-margin result; R04.2 close reply removes the position; R04.3 margin_delta = output - open_notional (long) / reverse (short), payout = |remain_margin.margin + tmp.unrealized_pnl| to tmp.trader, whole-close record carries unrealized_pnl=0 and open_notional=position.notional; R04.4 liquidation uses the same margin_delta table; R04.5 an insurance Withdraw for a shortfall is added to prepaid_bad_debt with the same operand and mutated State is stored; R04.6 funding charged once (margin/checkpoint pairing); R04.7 every transfer of the magnitude |X| of a signed quantity is preceded by a sign test of X on its path (found F14: the reversal's pure-close branch paid out bad debt; fixed); R04.8 the vault balance that sizes insurance draws is the engine's own balance of the collateral token (balance query asks for (token, account) as given in both arms; every engine call site passes config.eligible_collateral and env.contract.address); R04.9 open-notional bookkeeping (increase stores loaded notional + record.open_notional; the record holds the quote amount the SwapInput asks for); R04.10 both close replies settle on the stored record loaded under the in-flight key, not a locally adjusted copy (seed C04h). Not decided: numeric exactness beyond formula identity; balances; the reducing branch's notional formula.",
        design="4/C04"),
    "C12": dict(
        technique="MIR path census of fee-transfer invocations per chain step keyed by the fees_paid / zero-base conditions, constant propagation of the flag through the in-flight record, operand-origin and formula matching for fee base, routing and CalcFee",
        note="Decided: R12.1 fee-transfer call counts per chain path (Open once across a reversal, Close once unless base zero, none for Liquidate/PayFunding/Deposit/Withdraw); R12.2 fees_paid false at every execute store, true before the chained increase, increase reply charges iff false; R12.3 fee base = margin*leverage/decimals captured before the reversal rewrites it, position.notional on whole close; R12.4 spread -> config.insurance_fund, toll -> config.fee_pool, payer = trader argument; R12.5 CalcFee trees; R12.6 every fee message of an Open/Close chain carries a fee that is non-zero by a path fact (a fee is moved iff it is non-zero). Not decided: rounding beyond the floor divisions in the trees.",
        design="4/C12"),
    "C05": dict(
        technique="MIR guard facts with formula matching of the compared operands, event ordering on success paths (store before margin-ratio query), stored-value and transfer-amount flow",
        note="Decided: R05.1 leverage >= decimals and decimals^2/leverage >= config.initial_margin_ratio on every OpenPosition success path; R05.2 every Open chain ending with a live stored position queries that position's margin ratio after the store and establishes it >= config.maintenance_margin_ratio; R05.3 WithdrawMargin: bad-debt guard, signed (free collateral - amount) >= 0 guard for (msg.vamm, info.sender), payout exactly msg.amount to info.sender, stored margin = remain_margin(position, -amount).margin; R05.4 DepositMargin stores margin + msg.amount and collects exactly msg.amount in both collateral arms (the native attached-funds assertion is an equality). R05.5 free collateral = min(margin, margin + pnl) - requirement notional * config.initial_margin_ratio / decimals (margin alone iff pnl > 0; open notional of a long, current notional of a short); R05.6 the position it is computed on carries margin = max(0, stored margin - (latest cumulative fraction - checkpoint) * size / decimals); R05.7 the increase reply credits and collects record.open_notional * decimals / record.leverage, the record holds msg.leverage and msg.margin_amount * msg.leverage / decimals; R05.8 every reply path that stores a position advances its funding checkpoint to the latest cumulative fraction whatever the size (seed C05h). Not decided: correctness of the margin-ratio / free-collateral formulas beyond operand selection (R06.3).",
        design="4/C05"),
    "C06": dict(
        technique="MIR guard facts and expression-tree pattern matching: liquidation guard and ratio selection, spot/TWAP selection sibling agreement, spread-limit tree, fee and partial-amount trees, receiver classes",
        note="Decided: R06.1 selected ratio <= maintenance on every Liquidate success path; R06.2 oracle ratio selected iff over-spread and (oracle - base) > 0, else the base ratio of (msg.vamm, msg.trader); R06.3 TWAP figures iff |spot pnl| > |twap pnl| in MarginRatio and FreeCollateral; R06.4 |((quote*D/base - oracle)*D)/oracle| >= D/10; R06.5 liquidator fee (output*fee/D)/2, only liquidator and insurance fund receive, the insurance fund exactly remain_margin - fee, position removed; R06.6 partial swap amount size*ratio/D, equal penalty halves; R06.7 both margin-ratio functions return ((remain_margin.margin - remain_margin.bad_debt)*D)/notional with remain_margin charged with the pnl of the same figures (funding included) and applied to the stored record, not a funding-netted copy (seed C06k); R06.8 valuation per calc option: Twap -> vAMM OutputTwap, SpotPrice -> OutputAmount of (position.direction, |size|) at position.vamm, Oracle -> UnderlyingPrice*|size|/decimals, pnl signed by the position's direction. Not decided: numeric outcome; overshoot of a partial liquidation (C02 sign table).",
        design="4/C06"),
    "C13": dict(
        technique="MIR sibling-arm agreement on every branch over the collateral kind: transfer constructors compared by (receiver, amount), native required-funds increments compared as a multiset with the amounts the cw20 arm pulls from the trader on the path with the same other conditions",
        note="Decided (the structural clause the 2-run relation rests on): R13.1 native and cw20 arms of every transfer constructor build the same (receiver, amount); R13.1b in the Open replies the native arm raises SentFunds.required by exactly what the cw20 arm pulls from the trader; R13.2 native terminal paths pass the exact-match check, the check accepts equality only, SentFunds is created only by OpenPosition with required=0; R13.3 every cw20 pull a chain step can emit is from the caller of the transaction (the premise only lets a native call mirror pulls from the caller); R13.1 is evaluated on the value each constructor returns, at every call site where the cw20 message is a parameter, with coverage asserted per (contract, transfer kind); R13.4 arms whose chain pulls from the caller never condition success on the attached coins beyond the collateral-coin lookup; R13.5 no reply of a chain whose attached native coins are untracked sizes an insurance top-up from the engine balance (known finding F10: whole-close reply); R13.6 every fee message of an Open/Close chain has a non-zero amount by a path fact (a zero bank send is rejected where a cw20 zero transfer is not; seed C13k). Not decided: equality of the two runs' outcomes as such; allowance/balance failure modes.",
        design="4/C13"),
    "C19": dict(
        technique="finite-domain abstract interpretation of the extracted MIR paths of every Integer operation over the complete sign x zero-ness x magnitude-order case space, compared with the mathematical table",
        note="Decided: R19.1 for all 24 consistent operand cases (both encodings of zero) of checked_add/sub/mul/div and Add/Sub/Mul/Div the unique feasible path's result (sign flag, magnitude term) equals the mathematical one, checked and unchecked agree, failure exactly when the Uint128 operation fails / divisor is zero; R19.2 every zero result is observationally zero (==, is_negative/is_positive, cmp both ways); R19.3 eq/cmp/partial_cmp/sign predicates/abs/invert_sign/constructors/Display sign agree with the mathematical value in every case, parsing uses the u128 parser and the sign-aware constructors. Not decided: the magnitude arithmetic (Uint128, trusted); exact behaviour at the 128-bit boundary beyond 'fails iff the magnitude operation fails'; string round-trip of digits.",
        design="4/C19"),
    "C01": dict(
        technique="MIR stored-value flow (single-writer census of the curve fields) and expression-tree pattern matching of the reserve update and of both pricing functions per direction and remainder case",
        note="Decided: R01.1 only the swap arms (and instantiate) change quote/base reserve and total_position_size, SetOpen/SettleFunding store them as loaded; R01.2 per direction base' = base -/+ y, tps' = tps +/- y with the same y, quote' = quote +/- x; R01.4 both pricing functions return |k*D/side' - other| with -1/+1 exactly when (k*D) mod side' != 0, remainder computed from the same k and side'; R01.5 both initial reserves validated >= one unit. Not decided: the inequality floor(q'b'/D) >= floor(qb/D) itself (follows from R01.2+R01.4 by the stated arithmetic lemma, not machine-checked); overflow.",
        design="4/C01"),
    "C02": dict(
        technique="finite-domain sign-table interpretation over the execute->vAMM->reply chain graph: side/direction helper tables, vAMM direction plumbing and event-attribute mapping extracted from MIR and composed for every assignment of acting side x position kind",
        note="Decided: R02.1 on every swap edge and assignment the engine's size change has the sign of the vAMM's net-position change and its operand is the base amount of that swap kind (found F8: partial liquidation through SwapInput, fixed); R02.2 positions are removed/zeroed only after a SwapOutput of size.value in the position's own direction, every swap reply path stores or removes the position; R02.3 attribute keys / type values parsed by the engine are those the vAMM emits, with requested vs priced amounts on the right keys; R02.4 the reduce-vs-reverse decision compares the position's current spot notional with the requested notional, and the partial-liquidation ratio that scales the liquidated size is validated <= decimals at every writer; R02.5 the direction stored with a changed size follows the sign of that size: taken from the acting side wherever the size grows (the old size may be zero and a zero-size record's direction is arbitrary), kept from the record only where the size shrinks (added after seed C02f) - with R02.1/R02.4 this makes 'size>0 <=> direction==AddToAmm for live records' an inductive invariant of the analysed paths instead of an assumption; R02.6 the position getter returns the stored record unchanged when it exists, otherwise the default record with only identity, direction(side) and block stamp set. Not decided: nothing numeric beyond operand identity; failed transactions are covered by C08.",
        design="4/C02"),
    "C07": dict(
        technique="MIR cross-contract type agreement of every query edge (resolved generic arguments), chain-wide absence of gating facts, contradiction rule between the selection comparison and the partial reply's arithmetic, event-order rule for balance-sized top-ups, return-vs-queued agreement, non-zero-amount facts inherited down the call chain for every token-moving message of the liquidation replies",
        note="Liveness is not statically decidable; decided are necessary conditions: R07.1 all 15 in-repo query edges deserialise the type the target serialises (known finding F1: vAMM<-pricefeed GetPrice); R07.2 Liquidate chain not gated by pause, restriction mode or sender identity; R07.3 magnitude-based full/partial selection vs fallible unsigned margin arithmetic in the partial reply (known finding F2); R07.4 no balance-sized insurance top-up after an unreported outgoing vault transfer (known findings F3 x2); R07.5 amount reported as incoming equals the queued Withdraw; R07.6 strict already-outside band test; R07.7 every token-moving message a liquidation reply can emit (bank send, cw20 transfer, insurance Withdraw) has an amount that is non-zero by a fact of the emitting path, because a zero transfer is rejected and reverts the Liquidate (found F12, fixed); R07.8 the Liquidate handler never reads an in-flight record before its first sub-message (availability must not depend on residue; seed C07l). Not decided: that the swap can be filled, arithmetic overflow, insurance solvency.",
        design="4/C07"),
    "C18": dict(
        technique="MIR writer census and pairing for reserve snapshots, stored-value flow for the price feed, and linear (telescoping) check of the TWAP weights on the bounded-unrolled prefix of the two averaging loops",
        note="Decided: R18.1 snapshots are written only by instantiate and the snapshot writer, which follows every reserve write with the stored reserves; R18.2 overwrite iff same block, else append stamped (time, height); R18.3 price submissions stored unmodified, GetPrice returns the last stored element, GetPreviousPrice stays strictly below the latest round id (found F19, fixed); R18.4 on every TWAP path that ends within one unrolled iteration the result is one observed price or sum(price*w)/D with weights telescoping to D, and the loop has no iterator-driven exit; R18.3 also: a submission's round id is the length of the list it is appended to; R18.5 the vAMM's TwapPrice / InputTwap / OutputTwap queries average, per snapshot, snapshot.quote*D/snapshot.base / the input / the output pricing function of (msg.direction, msg.amount, snapshot reserves), starting at snapshot[counter], over msg.interval / 900 s (composition of the arm's parameter value with the per-snapshot price function). Not decided: the convexity claim for histories longer than the unrolled prefix (loop-carried weights), which is arithmetic.",
        design="4/C18"),
}

NOT_BUILT = "rules designed in DESIGN.md section 4 but not built yet"


def main():
    props = [json.loads(l) for l in open(os.path.join(VERIF, "properties.jsonl"))]
    checks = []
    na = []
    for p in props:
        pid = p["id"]
        c = CLAIMED.get(pid)
        if not c:
            na.append({"property_id": pid, "reason": NA.get(pid, NOT_BUILT)})
            continue
        checks.append({
            "property_id": pid,
            "quick_cmd": "./check %s quick" % pid,
            "thorough_cmd": "./check %s thorough" % pid,
            "evidence_file": "/verif/evidence/%s.json" % pid,
            "replay_cmd_template": "./check %s --replay {path}" % pid,
            "engine": "mpcheck",
            "level_claimed": {"category": "other", "text": LEVEL, "design_ref": "DESIGN.md section " + c["design"]},
            "level_note": c["note"] + " Trusted base: rustc front end/MIR; CosmWasm revert semantics; bank/cw20 transfers; storage/admin library primitives and the library value-flow models listed in the evidence file.",
            "technique": "static analysis: " + c["technique"],
        })
    m = {
        "version": 1,
        "setup_cmd": "cd /verif/mirfacts && CARGO_NET_OFFLINE=true cargo +nightly build --offline",
        "hooks": {
            "guard": "margined_protocol_perpetuals_verif",
            "enable": "none needed: the checks read /repo's unmodified source through the compiler (cargo +nightly check with the mirfacts driver as RUSTC_WORKSPACE_WRAPPER); no instrumentation is compiled in",
            "baseline_off_cmd": "cd /repo && cargo test --workspace --no-fail-fast --offline",
            "source_commits": [],
            "add_only": True,
        },
        "engines": [
            {"name": "mirfacts", "path": "/verif/mirfacts", "serves_properties": sorted(CLAIMED), "kind_free_text": "rustc_private driver (nightly) dumping MIR / ADT / const facts of every workspace crate as JSON"},
            {"name": "mpcheck", "path": "/verif/mpcheck", "serves_properties": sorted(CLAIMED), "kind_free_text": "Python stdlib rule engine: hash-consed path-sensitive value-flow over MIR, interprocedural summaries, inter-contract message/query graph, per-property rule tables"},
        ],
        "checks": checks,
        "notes": "All checks regenerate facts from /repo's working tree (cached by source hash under /verif/.cache). Exit 0 = all obligations discharged (or only listed known findings); exit 1 + VIOLATION line = an unlisted violated obligation; exit 2 = the analysis could not run. known_findings.json lists reproduced genuine defects (open) and repaired ones (fixed).",
        "not_applicable": na,
    }
    with open(os.path.join(VERIF, "MANIFEST.json"), "w") as fh:
        json.dump(m, fh, indent=1)
    print("claimed", sorted(CLAIMED), "not applicable", len(na))


NA = {}

if __name__ == "__main__":
    main()
