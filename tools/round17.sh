#!/bin/bash
# round10.sh <prop>...  : confirm /tmp/m17_<prop>/OUT/{a,b} as <prop>h/<prop>i (C07: j/k), run the property's check against them, remove the worktree
for id in "$@"; do
  s1=r; s2=s; [ $id = C07 ] && { s1=t; s2=u; }
  /verif/tools/confirm_seed.sh /tmp/m17_$id OUT/a ${id}$s1
  /verif/tools/confirm_seed.sh /tmp/m17_$id OUT/b ${id}$s2
  for s in $s1 $s2; do
    [ -f /verif/seeded/${id}$s/patch.diff ] && /verif/tools/trymut.sh $id /verif/seeded/${id}$s/patch.diff
  done
  git -C /repo worktree remove --force /tmp/m17_$id; rm -rf /tmp/m17_$id
done
