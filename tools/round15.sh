#!/bin/bash
# round10.sh <prop>...  : confirm /tmp/m15_<prop>/OUT/{a,b} as <prop>h/<prop>i (C07: j/k), run the property's check against them, remove the worktree
for id in "$@"; do
  s1=p; s2=q; [ $id = C07 ] && { s1=r; s2=s; }
  /verif/tools/confirm_seed.sh /tmp/m15_$id OUT/a ${id}$s1
  /verif/tools/confirm_seed.sh /tmp/m15_$id OUT/b ${id}$s2
  for s in $s1 $s2; do
    [ -f /verif/seeded/${id}$s/patch.diff ] && /verif/tools/trymut.sh $id /verif/seeded/${id}$s/patch.diff
  done
  git -C /repo worktree remove --force /tmp/m15_$id; rm -rf /tmp/m15_$id
done
