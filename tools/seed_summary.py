#!/usr/bin/env python3
"""Per-property summary of selfval/matrix.json for DESIGN.md section 7 (prints markdown)."""
import json
import os
import sys

VERIF = os.path.dirname(os.path.dirname(os.path.abspath(__file__)))
m = json.load(open(os.path.join(VERIF, "selfval", "matrix.json")))
recs = m["records"]
print("| property | own mutants (reported by the target check) | seeded changes (reported by the target check) | rules that fired | not reported by the target |")
print("|---|---|---|---|---|")
for i in range(1, 21):
    p = "C%02d" % i
    mu = [r for r in recs if r["kind"] == "mutant" and r["target"] == p]
    se = [r for r in recs if r["kind"] == "seed" and r["target"] == p]
    rules = set()
    for r in mu + se:
        for k in r["reported_by"].get(p, []):
            rules.add(k.split(":")[0])
    missed = [r["change"].replace("seeded/", "").replace("/patch.diff", "").replace("mutants/", "").replace(".patch", "") +
              (" (reported by %s)" % ",".join(sorted(r["reported_by"])) if r["reported_by"] else "")
              for r in mu + se if p not in r["reported_by"]]
    print("| %s | %d/%d | %d/%d | %s | %s |" % (p, sum(p in r["reported_by"] for r in mu), len(mu), sum(p in r["reported_by"] for r in se), len(se),
                                             " ".join(sorted(rules)), "; ".join(missed) or "—"))
ben = [r for r in recs if r["kind"] == "benign"]
print()
print("Behaviour-preserving refactors: %d, all twenty checks silent on %d." % (len(ben), sum(1 for r in ben if not r["reported_by"])))
# rules that never fired
fired = set()
for r in recs:
    for p, ks in r["reported_by"].items():
        for k in ks:
            fired.add(k.split(":")[0])
allrules = set()
for f in os.listdir(os.path.join(VERIF, "evidence")):
    if f.endswith(".json"):
        e = json.load(open(os.path.join(VERIF, "evidence", f)))
        for r in e["coverage"]["rules"]:
            allrules.add(r["id"])
print()
print("Rules with no killing change in the stored set: %s" % (" ".join(sorted(allrules - fired)) or "none"))
