#!/usr/bin/env python3
"""Blind mutation sweep (maintenance tool, not part of any registered check).

Generates single-token mutants of the product sources (relational operators, checked arithmetic pairs, boolean
connectives, negations, true/false), applies each to a scratch copy of /repo, and evaluates ALL twenty checks on it.
Mutants that do not compile are discarded.  Output: one JSON line per mutant in <out>/sweep.jsonl with the checks
that reported it.  The survivors are a to-do list for triage (equivalent / outside every listed property / a gap).

usage: tools/sweep.py [-n COUNT] [-j JOBS] [--seed S] [--out DIR] [--skip earlier/sweep.jsonl]
"""
import json
import os
import random
import re
import shutil
import subprocess
import sys
import tempfile
from concurrent.futures import ThreadPoolExecutor

VERIF = os.path.dirname(os.path.dirname(os.path.abspath(__file__)))
sys.path.insert(0, VERIF)
PROPS = ["C%02d" % i for i in range(1, 21)]
SRC_DIRS = ["contracts/margined_engine/src", "contracts/margined_vamm/src", "contracts/margined_insurance_fund/src",
            "contracts/margined_fee_pool/src", "contracts/margined_pricefeed/src", "packages/margined_common/src",
            "packages/margined_perp/src"]

OPS = [
    (r" < ", " <= "), (r" <= ", " < "), (r" > ", " >= "), (r" >= ", " > "), (r" == ", " != "), (r" != ", " == "),
    (r"checked_add", "checked_sub"), (r"checked_sub", "checked_add"), (r"checked_mul", "checked_div"),
    (r" && ", " || "), (r" \|\| ", " && "), (r"if !", "if "), (r"\btrue\b", "false"), (r"\bfalse\b", "true"),
    (r" \+ ", " - "), (r" - ", " + "),
]


def sites(repo):
    out = []
    for d in SRC_DIRS:
        for root, dirs, files in os.walk(os.path.join(repo, d)):
            dirs[:] = [x for x in dirs if x != "testing"]
            for f in files:
                if not f.endswith(".rs") or f in ("error.rs",):
                    continue
                path = os.path.join(root, f)
                rel = os.path.relpath(path, repo)
                in_test = False
                for ln, line in enumerate(open(path).read().split("\n")):
                    s = line.strip()
                    if s.startswith("#[cfg(test)]") or s.startswith("mod test"):
                        in_test = True
                    if in_test or s.startswith("//") or s.startswith("#[") or s.startswith("use ") or "///" in s:
                        continue
                    code = line.split("//")[0]
                    for i, (pat, rep) in enumerate(OPS):
                        for m in re.finditer(pat, code):
                            # skip generics / arrows / lifetimes
                            ctx = code[max(0, m.start() - 2):m.end() + 2]
                            if "->" in ctx or "=>" in ctx or "::<" in code[max(0, m.start() - 3):m.end()]:
                                continue
                            out.append((rel, ln, m.start(), m.end(), rep, pat))
    return out


def one(job):
    idx, (rel, ln, a, b, rep, pat), out = job
    r = subprocess.run([sys.executable, os.path.abspath(__file__), "--one", str(idx), rel, str(ln), str(a), str(b), rep],
                       stdout=subprocess.PIPE, stderr=subprocess.PIPE, text=True, timeout=3600)
    line = [l for l in r.stdout.splitlines() if l.startswith("{")]
    rec = json.loads(line[-1]) if line else {"idx": idx, "status": "tool-error", "detail": r.stderr[-300:]}
    with open(os.path.join(out, "sweep.jsonl"), "a") as fh:
        fh.write(json.dumps(rec) + "\n")
    return rec


def one_inproc(idx, rel, ln, a, b, rep):
    sys.setrecursionlimit(20000)
    from mpcheck import core, facts
    rec = {"idx": idx, "file": rel, "line": ln + 1, "rep": rep, "reported_by": {}}
    tmp = tempfile.mkdtemp(prefix="mpcheck_sweep_")
    try:
        dst = os.path.join(tmp, "repo")
        shutil.copytree(facts.REPO, dst, ignore=shutil.ignore_patterns("target", ".git"))
        p = os.path.join(dst, rel)
        lines = open(p).read().split("\n")
        rec["old"] = lines[ln].strip()
        lines[ln] = lines[ln][:a] + rep + lines[ln][b:]
        rec["new"] = lines[ln].strip()
        open(p, "w").write("\n".join(lines))
        try:
            d, h, secs = facts.ensure_facts(dst)
        except facts.AnalysisError:
            rec["status"] = "does-not-compile"
            return rec
        known = {}
        for k in core.load_known():
            if k.get("status") == "open":
                known.setdefault(k["property"], set()).add(k["key"])
        for pr in PROPS:
            world = facts.World(d)
            world.tree_hash = h
            world.gen_seconds = secs
            ctx, _ = core._evaluate(pr, world, "quick")
            keys = sorted(i.key for i in ctx.insts if not i.ok and i.key not in known.get(pr, ()))
            if keys:
                rec["reported_by"][pr] = keys[:3]
        rec["status"] = "reported" if rec["reported_by"] else "SURVIVED"
        return rec
    finally:
        shutil.rmtree(tmp, ignore_errors=True)


def main():
    args = sys.argv[1:]
    if args and args[0] == "--one":
        print(json.dumps(one_inproc(int(args[1]), args[2], int(args[3]), int(args[4]), int(args[5]), args[6])))
        return
    n, j, seed, out = 200, 8, 1, "/tmp/sweep"
    skip = None
    while args:
        a = args.pop(0)
        if a == "-n":
            n = int(args.pop(0))
        elif a == "-j":
            j = int(args.pop(0))
        elif a == "--seed":
            seed = int(args.pop(0))
        elif a == "--out":
            out = args.pop(0)
        elif a == "--skip":
            skip = args.pop(0)
    os.makedirs(out, exist_ok=True)
    from mpcheck import facts
    ss = sites(facts.REPO)
    random.Random(seed).shuffle(ss)
    if skip:
        # sites already evaluated by an earlier sweep (its sweep.jsonl) are left out
        done = set()
        for l in open(skip):
            try:
                r = json.loads(l)
                done.add((r["file"], r["line"], r.get("rep")))
            except Exception:
                pass
        ss = [x for x in ss if (x[0], x[1] + 1, x[4]) not in done]
    jobs = [(i, s, out) for i, s in enumerate(ss[:n])]
    print("%d candidate sites, running %d" % (len(ss), len(jobs)), flush=True)
    with ThreadPoolExecutor(max_workers=j) as ex:
        for rec in ex.map(one, jobs):
            print("%-16s %s:%s  %s" % (rec.get("status"), rec.get("file"), rec.get("line"), " ".join(sorted(rec.get("reported_by", {})))), flush=True)


if __name__ == "__main__":
    main()
