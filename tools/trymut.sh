#!/bin/bash
# trymut.sh <prop> <patch file>...   apply each patch to a scratch copy of /repo (never /repo itself),
# run ./check <prop> against the copy, remove the copy
prop=$1; shift
for p in "$@"; do p=$(readlink -f "$p"); [ -f "$p" ] || { echo "== $p missing"; continue; }
  tmp=$(mktemp -d /tmp/trymut_XXXXXX)
  rsync -a --exclude target --exclude .git /repo/ $tmp/repo/
  if (cd $tmp/repo && patch -p1 -s -i "$p" >/dev/null 2>&1); then
    out=$(cd /verif && MPCHECK_REPO=$tmp/repo ./check $prop 2>&1); rc=$?
    echo "== $(basename $(dirname $p))/$(basename $p) -> exit $rc: $(echo "$out" | grep -E '^  violated' | sed 's/^  violated //' | tr '\n' ' ' | cut -c1-300)"
  else
    echo "== $p does not apply"
  fi
  rm -rf $tmp
done
