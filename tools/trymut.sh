#!/bin/bash
# trymut.sh <prop> <patch file>...   apply each patch to /repo, run ./check <prop>, restore
prop=$1; shift
for p in "$@"; do p=$(readlink -f "$p")
  if git -C /repo apply "$p" 2>/dev/null; then
    out=$(cd /verif && ./check $prop 2>&1); rc=$?
    git -C /repo checkout -- .
    echo "== $(basename $(dirname $p))/$(basename $p) -> exit $rc: $(echo "$out" | grep -E '^  violated' | sed 's/^  violated //' | tr '\n' ' ' | cut -c1-300)"
  else
    echo "== $p does not apply"
  fi
done
