#!/bin/bash
# round5.sh <prop>...  : confirm /tmp/m5_<prop>/OUT/{a,b} as <prop>f/<prop>g (C07: h/i) and run the property's check against them
for id in "$@"; do
  s1=f; s2=g; [ $id = C07 ] && { s1=h; s2=i; }
  /verif/tools/confirm_seed.sh /tmp/m5_$id OUT/a ${id}$s1
  /verif/tools/confirm_seed.sh /tmp/m5_$id OUT/b ${id}$s2
  for s in $s1 $s2; do
    [ -f /verif/seeded/${id}$s/patch.diff ] && /verif/tools/trymut.sh $id /verif/seeded/${id}$s/patch.diff
  done
done
