#!/usr/bin/env python3
"""mkmut.py <prop> <name> <file> <<< 'old text\n=====\nnew text'  : creates /verif/mutants/<prop>/<name>.patch by
editing /repo's working tree, diffing, and restoring it."""
import subprocess, sys, os
prop, name, path = sys.argv[1:4]
spec = sys.stdin.read()
old, new = spec.split("\n=====\n")
old = old.strip("\n"); new = new.rstrip("\n").lstrip("\n")
full = os.path.join("/repo", path)
s = open(full).read()
if s.count(old) != 1:
    print("ERROR: old text occurs %d times in %s" % (s.count(old), path)); sys.exit(1)
open(full, "w").write(s.replace(old, new))
d = subprocess.check_output(["git", "-C", "/repo", "diff"], text=True)
subprocess.check_call(["git", "-C", "/repo", "checkout", "--", "."])
os.makedirs("/verif/mutants/%s" % prop, exist_ok=True)
open("/verif/mutants/%s/%s.patch" % (prop, name), "w").write(d)
print("wrote /verif/mutants/%s/%s.patch" % (prop, name))
