#!/usr/bin/env python3
"""mkmut.py <prop> <name> <file> <<< 'old text\n=====\nnew text'  : creates /verif/mutants/<prop>/<name>.patch
(a -p1 patch against /repo) without touching /repo: the edited copy of the one file lives in a temp dir.
Several hunks in one file: separate specs with a line '#####'."""
import os
import subprocess
import sys
import tempfile

prop, name, path = sys.argv[1:4]
full = os.path.join("/repo", path)
s = open(full).read()
for spec in sys.stdin.read().split("\n#####\n"):
    old, new = spec.split("\n=====\n")
    old = old.strip("\n")
    new = new.rstrip("\n").lstrip("\n")
    if s.count(old) != 1:
        print("ERROR: old text occurs %d times in %s" % (s.count(old), path))
        sys.exit(1)
    s = s.replace(old, new)
with tempfile.TemporaryDirectory() as tmp:
    a = os.path.join(tmp, "a", path)
    b = os.path.join(tmp, "b", path)
    os.makedirs(os.path.dirname(a))
    os.makedirs(os.path.dirname(b))
    open(a, "w").write(open(full).read())
    open(b, "w").write(s)
    r = subprocess.run(["diff", "-u", os.path.join("a", path), os.path.join("b", path)], cwd=tmp, stdout=subprocess.PIPE, text=True)
    d = r.stdout
os.makedirs("/verif/mutants/%s" % prop, exist_ok=True)
open("/verif/mutants/%s/%s.patch" % (prop, name), "w").write(d)
print("wrote /verif/mutants/%s/%s.patch (%d lines)" % (prop, name, d.count("\n")))
