#!/bin/bash
# round6.sh <id>...  : for /tmp/m18_<id>/OUT/r{1,2}: (1) suite with the patch alone in the scratch worktree must be 410/0,
# (2) all twenty checks must stay silent on a scratch copy of /repo with the patch. ALL confirmed refactorings are stored as
# /verif/benign/R_<id>_r{4,5}.patch (+ .json), silent or not: the measurement is on the full independent sample.
for id in "$@"; do
  WT=/tmp/m18_$id
  for r in r1 r2; do
    n=r12; [ $r = r2 ] && n=r13
    D=$WT/OUT/$r
    [ -f $D/patch.diff ] || { echo "== $id/$r: missing"; continue; }
    ( cd $WT && git checkout -q -- . && git clean -qfd -e OUT -e target && git apply $D/patch.diff ) || { echo "== $id/$r: does not apply in worktree"; continue; }
    R=$(cd $WT && CARGO_TARGET_DIR=$WT/target CARGO_NET_OFFLINE=true cargo test --workspace --no-fail-fast --offline 2>&1 | grep -E '^test result' | awk '{p+=$4; f+=$6} END{print p" "f}')
    ( cd $WT && git checkout -q -- . && git clean -qfd -e OUT -e target )
    if [ "$R" != "410 0" ]; then echo "== $id/$r: suite [$R] - not kept"; continue; fi
    cp $D/patch.diff /verif/benign/R_${id}_$n.patch; cp $D/meta.json /verif/benign/R_${id}_$n.json
    out=$(/verif/tools/trybenign.sh /verif/benign/R_${id}_$n.patch 2>&1 | tail -1)
    echo "== $id/$n: suite 410/0; $out" | cut -c1-700
  done
done
for id in "$@"; do git -C /repo worktree remove --force /tmp/m18_$id 2>/dev/null; rm -rf /tmp/m18_$id; done
