#!/bin/bash
# try_refactor.sh <id>...  : for /tmp/m4_<id>/OUT/r{1,2,3}: (1) suite with the patch alone in the scratch worktree must be
# 410/0, (2) all twenty checks must stay silent on a scratch copy of /repo with the patch. Silent ones are stored as
# /verif/benign/R_<id>_<rN>.patch (+ .json with the agent's argument); alarms are printed for triage.
for id in "$@"; do
  WT=/tmp/m4_$id
  for r in r1 r2 r3; do
    D=$WT/OUT/$r
    [ -f $D/patch.diff ] || { echo "== $id/$r: missing"; continue; }
    ( cd $WT && git checkout -q -- . && git clean -qfd -e OUT -e target && git apply $D/patch.diff ) || { echo "== $id/$r: does not apply in worktree"; continue; }
    R=$(cd $WT && CARGO_TARGET_DIR=$WT/target CARGO_NET_OFFLINE=true cargo test --workspace --no-fail-fast --offline 2>&1 | grep -E '^test result' | awk '{p+=$4; f+=$6} END{print p" "f}')
    ( cd $WT && git checkout -q -- . && git clean -qfd -e OUT -e target )
    if [ "$R" != "410 0" ]; then echo "== $id/$r: suite [$R] - not kept"; continue; fi
    out=$(/verif/tools/trybenign.sh $D/patch.diff 2>&1 | tail -1)
    if echo "$out" | grep -q "all 20 checks silent"; then
      cp $D/patch.diff /verif/benign/R_${id}_$r.patch; cp $D/meta.json /verif/benign/R_${id}_$r.json
      echo "== $id/$r: suite 410/0, all 20 checks silent -> kept"
    else
      echo "== $id/$r: suite 410/0, ALARM: $out"
      mkdir -p /verif/.cache/alarms; cp $D/patch.diff /verif/.cache/alarms/R_${id}_$r.patch; cp $D/meta.json /verif/.cache/alarms/R_${id}_$r.json
    fi
  done
done
