#!/bin/bash
# alarms.sh [patch...] : run all twenty checks on each behaviour-preserving refactor (default: all of /verif/benign), 4 in parallel
pats="$@"; [ -z "$pats" ] && pats=$(ls /verif/benign/*.patch)
printf "%s\n" $pats | xargs -P ${PAR:-4} -I{} /verif/tools/trybenign.sh {} 2>&1 | grep "^=="
