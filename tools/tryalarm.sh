#!/bin/bash
# tryalarm.sh <patch> <prop>...  : apply one patch to a scratch copy, run the listed checks, print failing instances in full
p=$(readlink -f "$1"); shift
tmp=$(mktemp -d /tmp/alarm_XXXXXX)
rsync -a --exclude target --exclude .git /repo/ $tmp/repo/
(cd $tmp/repo && patch -p1 -s -i "$p") || { echo "does not apply"; rm -rf $tmp; exit 2; }
for c in "$@"; do
  (cd /verif && MPCHECK_REPO=$tmp/repo ./check $c 2>&1 | grep -E "^property|^  violated" -A2 | grep -v "^--" | cut -c1-700)
done
rm -rf $tmp
