#!/usr/bin/env python3
"""rebase_change.py <patch>...  : re-base a stored change (mutant / seed / benign patch) that no longer applies to
/repo's HEAD because a later `fix:` commit touched the same lines.

For every file of the patch: base = the file at the newest commit of /repo where the patch still applies, patched = base
with the patch, current = the file at HEAD; the new patch is diff(current, merge3(current, base, patched)).  Conflicting
hunks take the patched side (the change replaces the code the fix touched).  Nothing in /repo is modified; the patch file
is rewritten in place and the old version kept as <patch>.orig-<commit>.
"""
import os
import re
import shutil
import subprocess
import sys
import tempfile

REPO = "/repo"


def sh(args, cwd=None, inp=None, check=True):
    r = subprocess.run(args, cwd=cwd, input=inp, stdout=subprocess.PIPE, stderr=subprocess.PIPE, text=True)
    if check and r.returncode != 0:
        raise RuntimeError("%s failed: %s" % (args, r.stderr[-400:]))
    return r


def files_of(patch):
    fs = []
    for l in open(patch):
        m = re.match(r"^\+\+\+ (?:[ab]/)?(\S+)", l)
        if m and m.group(1) != "/dev/null":
            fs.append(m.group(1))
    return fs


def applies_at(commit, patch, files, tmp):
    d = os.path.join(tmp, "at")
    shutil.rmtree(d, ignore_errors=True)
    for f in files:
        os.makedirs(os.path.dirname(os.path.join(d, f)), exist_ok=True)
        r = sh(["git", "-C", REPO, "show", "%s:%s" % (commit, f)], check=False)
        if r.returncode != 0:
            return None
        open(os.path.join(d, f), "w").write(r.stdout)
    r = sh(["patch", "-p1", "-s", "--no-backup-if-mismatch", "-i", patch], cwd=d, check=False)
    return d if r.returncode == 0 else None


def main():
    for patch in [a for a in sys.argv[1:] if not a.startswith("--")]:
        patch = os.path.abspath(patch)
        files = files_of(patch)
        tmp = tempfile.mkdtemp(prefix="rebase_")
        try:
            if applies_at("HEAD", patch, files, tmp):
                print("%s: applies to HEAD, nothing to do" % patch)
                continue
            commits = sh(["git", "-C", REPO, "log", "--format=%h", "-40"]).stdout.split()
            base = None
            for c in commits[1:]:
                if applies_at(c, patch, files, tmp):
                    base = c
                    break
            if base is None:
                print("%s: applies to none of the last 40 commits" % patch)
                continue
            patched_dir = os.path.join(tmp, "patched")
            shutil.copytree(os.path.join(tmp, "at"), patched_dir)
            a = os.path.join(tmp, "a")
            b = os.path.join(tmp, "b")
            conflicts = 0
            for f in files:
                cur = sh(["git", "-C", REPO, "show", "HEAD:%s" % f]).stdout
                bas = sh(["git", "-C", REPO, "show", "%s:%s" % (base, f)]).stdout
                for root, txt in ((a, cur), (b, cur)):
                    os.makedirs(os.path.dirname(os.path.join(root, f)), exist_ok=True)
                    open(os.path.join(root, f), "w").write(txt)
                bf = os.path.join(tmp, "base_file")
                open(bf, "w").write(bas)
                r = sh(["git", "merge-file", "-p", "--theirs", os.path.join(b, f), bf, os.path.join(patched_dir, f)], check=False)
                probe = sh(["git", "merge-file", "-p", os.path.join(b, f), bf, os.path.join(patched_dir, f)], check=False)
                conflicts += max(probe.returncode, 0)
                open(os.path.join(b, f), "w").write(r.stdout)
            out = ""
            for f in files:
                r = sh(["diff", "-u", os.path.join("a", f), os.path.join("b", f)], cwd=tmp, check=False)
                out += r.stdout
            if conflicts and "--theirs" not in sys.argv:
                print("%s: %d conflicting hunk(s) against HEAD (base %s): NOT rewritten - review by hand, or pass --theirs when the change replaces the code the fix touched" % (patch, conflicts, base))
                continue
            shutil.copy(patch, "%s.orig-%s" % (patch, base))
            open(patch, "w").write(out)
            print("%s: rebased from %s onto HEAD (%d conflicting hunk(s) resolved to the change's side)" % (patch, base, conflicts))
        finally:
            shutil.rmtree(tmp, ignore_errors=True)


if __name__ == "__main__":
    main()
